"""C03 - block transfers and stack operations."""
import random

from .. import campaign as C
from .. import families as F
from .. import sweeps as S
from ..words import limbs
from .c02 import HI_MEM


def pushpop_task(task):
    """two-instruction programs PUSH L ; POP L (and STMDB/LDMIA, STMIA/LDMDB on other bases): after the pair every
    listed register and the base are restored.  Each step is an event judged exactly; the pair property itself is
    MC_LSM!PushPop on the spec."""
    rnd = random.Random(task['seed'])
    g = S.mk_group(task)
    for k in range(task['n']):
        thumb = rnd.random() < 0.5
        st, pc = S.prep(g, rnd, task, thumb, 0, k)
        pc = 16
        st['R']['PC'] = limbs(pc)
        lst = F.list_shape(rnd, 8 if thumb else 13) or 1
        sp = rnd.randrange(16, 60) * 4
        mode = C.unlimbs(st['cpsr']) & 31
        for r in st['R']:
            if r.startswith('SP'):
                st['R'][r] = limbs(sp)
        if thumb:
            C.put_instr(st, pc, 0xB400 | lst, True)
            C.put_instr(st, pc + 2, 0xBC00 | lst, True)
        else:
            C.put_instr(st, pc, 0xE92D0000 | lst, False)
            C.put_instr(st, pc + 4, 0xE8BD0000 | lst, False)
        e1, post = g.add(st, {'n': 'Step'}, meta={'gen': 'push', 'list': lst, 'thumb': thumb})
        cur = C.M.project(g.arm)
        cur = {k2: cur[k2] for k2 in ('R', 'cpsr', 'spsr', 'elr', 'sys', 'mem', 'ev')}
        # clobber the listed registers between the two instructions
        for i in range(13):
            if lst >> i & 1:
                cur['R']['R%dusr' % i] = limbs(0xDEAD0000 + i)
        g.add(cur, {'n': 'Step'}, meta={'gen': 'pop', 'list': lst, 'thumb': thumb})
    return [g]


def run(ctx):
    q = ctx.quick
    ctx.mc('MC_LSM', constants={'LISTS': '"quick"'}, coverage=False, timeout=3000)
    if not q:
        ctx.mc('MC_LSM', constants={'LISTS': '"wide"'}, coverage=False, timeout=5000)
    n = 5000 if q else 120000
    cfgs = [('v6', dict(arch_version=6)), ('v7', dict(arch_version=7)),
            ('v6hi', dict(arch_version=6, memory_list=HI_MEM)), ('v7hi', dict(arch_version=7, memory_list=HI_MEM))]
    extra = C.parallel(pushpop_task, [dict(name='pushpop-%d' % i, seed=ctx.seed + 700 + i, n=150 if q else 4000, modes='all',
                                           cfg=dict(arch_version=6 + i % 2)) for i in range(4)])
    # SRS / RFE with write-back on every base register, LDM / STM (user registers) and LDM (exception return) executed from
    # every mode towards every other mode, all banks holding distinct values (the banked SP / base is part of "write back the base")
    from .c10 import bank_instr_task
    extra += C.parallel(bank_instr_task, [dict(name='bank-%d' % i, seed=ctx.seed + 800 + i, n=200 if q else 5000,
                                               ext=[(False, False), (True, False), (True, True)][i % 3]) for i in range(6)])

    def tags(g, e, v):
        return {'arch': g.cfg['arch_version'], 'enc': v['path'].split(':')[-1], 'gen': g.meta.get(e['id'], {}).get('gen'),
                'sp_aligned': C.pre_sp(g, e) % 4 == 0}
    F.run_family(ctx, 'lsm', n, {'endian': True, 'align_ctl': True, 'data_ptrs': True, 'hi': True}, F.exact_filter,
                 configs=cfgs, extra_groups=extra, tags_of=tags)
    ctx.extra['rule'] = ('MC_LSM: lists x LDM/STM x IA/IB/DA/DB x W x base placement incl. wrap, PUSH;POP identity (quick: '
                         'structured lists, thorough: + every 29th of the 2^16 lists and all lists with <= 2 or >= 15 registers; LISTS = "all" exists but takes hours); conformance: random and structured register lists for '
                         'ARM LDM/STM (4 modes), 16-bit PUSH/POP/LDM/STM, 32-bit LDM/STM, PUSH;POP programs; RFE / SRS with write-back, LDM/STM user '
                         'registers and LDM exception return across banks from every mode')


def replay(ctx, path):
    from ..replay import replay_step
    return replay_step(ctx, path)
