"""C17, register field views: every property and indexed accessor of every register class is exercised on
base images {0, all-ones, 0xA5A5A5A5, 0x5A5A5A5A, random} with in-range values; Trace_Fields.tla judges the
raw image and the read-back against the architectural positions in SysRegFields.tla."""
import importlib
import inspect
import pkgutil

from .. import tlc
from ..words import limbs

INDEX_RANGE = 17


def _classes():
    import armulator.armv6.all_registers as ar
    out = []
    for m in pkgutil.iter_modules(ar.__path__):
        mod = importlib.import_module('armulator.armv6.all_registers.' + m.name)
        for n, c in inspect.getmembers(mod, inspect.isclass):
            if c.__module__ == mod.__name__ and n != 'AbstractRegister':
                out.append((n, c))
    return out


def _new(name, cls):
    return cls(12) if name == 'RGNR' else cls()


def _width_probe(name, cls, setter):
    """width of a field as the implementation sees it: write 1-bits until the read-back stops following
    (only used to choose in-range values; the spec has its own width)"""
    return None


def gen(ctx, rnd):
    from armulator.armv6.configurations import configurations
    import os
    import armulator.armv6 as pkg
    configurations.load(os.path.join(os.path.dirname(pkg.__file__), 'arm_configurations.json'))
    bases = [0, 0xFFFFFFFF, 0xA5A5A5A5, 0x5A5A5A5A, rnd.getrandbits(32)]
    k = 0
    for name, cls in _classes():
        members = inspect.getmembers(cls)
        for f, p in members:
            if isinstance(p, property) and p.fset is not None and p.fget is not None:
                for base in bases:
                    for v in _values(name, f, -1, rnd):
                        k += 1
                        yield _one(k, name, cls, f, -1, base, v,
                                   lambda o, v=v, f=f: setattr(o, f, v), lambda o, f=f: getattr(o, f))
        for f, fn in members:
            if inspect.isfunction(fn) and f.startswith('set_') and hasattr(cls, 'get_' + f[4:]):
                fam = f[4:]
                getter = getattr(cls, 'get_' + fam)
                nargs = len(inspect.signature(fn).parameters)
                for n in (range(INDEX_RANGE) if nargs == 3 else [0]):
                    for base in bases:
                        for v in _values(name, fam, n, rnd):
                            k += 1
                            if nargs == 3:
                                yield _one(k, name, cls, fam, n, base, v,
                                           lambda o, v=v, n=n, fn=fn: fn(o, n, v), lambda o, n=n, g=getter: g(o, n))
                            else:
                                yield _one(k, name, cls, fam, n, base, v,
                                           lambda o, v=v, fn=fn: fn(o, v), lambda o, g=getter: g(o))


# widths the *architecture* gives (only used to pick in-range values; a value that is in range for the
# architecture is what the property quantifies over).  Unknown -> 1 bit.
ARCH_WIDTH = {
    ('CPSR', 'ge'): 4, ('CPSR', 'm'): 5, ('CPSR', 'it'): 8, ('CPSR', 'isetstate'): 2, ('HCR', 'bsu'): 2,
    ('HSR', 'ec'): 6, ('HSR', 'iss'): 25, ('HDCR', 'hpmn'): 5, ('HPFAR', 'fipa'): 28, ('HTCR', 't0sz'): 3,
    ('HTCR', 'irgn0'): 2, ('HTCR', 'orgn0'): 2, ('HTCR', 'sh0'): 2, ('VTCR', 't0sz'): 4, ('VTCR', 'sl0'): 2,
    ('VTCR', 'irgn0'): 2, ('VTCR', 'orgn0'): 2, ('VTCR', 'sh0'): 2, ('TTBCR', 'n'): 3, ('TTBCR', 't0sz'): 3,
    ('TTBCR', 'irgn0'): 2, ('TTBCR', 'orgn0'): 2, ('TTBCR', 'sh0'): 2, ('TTBCR', 't1sz'): 3, ('TTBCR', 'irgn1'): 2,
    ('TTBCR', 'orgn1'): 2, ('TTBCR', 'sh1'): 2, ('DFSR', 'fs'): 5, ('DFSR', 'domain'): 4, ('DFSR', 'status'): 6,
    ('FCSEIDR', 'pid'): 7, ('MPUIR', 'dregion'): 8, ('MPUIR', 'iregion'): 8, ('MIDR', 'revision'): 4,
    ('MIDR', 'primary_part_number'): 12, ('MIDR', 'architecture'): 4, ('MIDR', 'variant'): 4,
    ('MIDR', 'implementer'): 8, ('IdPfr1', 'pm'): 4, ('IdPfr1', 'se'): 4, ('IdPfr1', 'm_profile'): 4,
    ('IdPfr1', 've'): 4, ('IdPfr1', 'gt'): 4, ('PMCR', 'n'): 5, ('PMCR', 'idcode'): 8, ('PMCR', 'imp'): 8,
    ('DBGDIDR', 'revision'): 4, ('DBGDIDR', 'variant'): 4, ('DBGDIDR', 'version'): 4, ('DBGDIDR', 'ctx_cmps'): 4,
    ('DBGDIDR', 'brps'): 4, ('DBGDIDR', 'wrps'): 4, ('CPACR', 'cp_n'): 2, ('DACR', 'd_n'): 2, ('PRRR', 'tr_n'): 2,
    ('NMRR', 'ir_n'): 2, ('NMRR', 'or_n'): 2, ('VBAR', 'base_address'): 27,
}
for _c in ('RSR', 'DRSR', 'IRSR'):
    ARCH_WIDTH[(_c, 'rsize')] = 5
for _c in ('RACR', 'DRACR', 'IRACR'):
    ARCH_WIDTH[(_c, 'tex')] = 3
    ARCH_WIDTH[(_c, 'ap')] = 3


def _values(name, f, n, rnd):
    w = ARCH_WIDTH.get((name, f), 1)
    vs = {0, 1, (1 << w) - 1, ((1 << w) - 1) // 3, 1 << (w - 1)}
    if w > 2:
        vs.add(rnd.getrandbits(w))
    return sorted(vs)


def _one(k, name, cls, f, n, base, v, setter, getter):
    try:
        o = _new(name, cls)
        o.value = base
        setter(o)
        img = o.value
        rb = getter(o)
        return [k, name, f, n, limbs(base), limbs(v), limbs(img), limbs(int(rb))]
    except Exception as ex:
        return [k, name, f, n, limbs(base), limbs(v), [-3, 0], [-3, 0], 'exc:' + type(ex).__name__]


def run(ctx, rnd):
    ctx.mc('MC_Fields', workers=4)
    evs = [e for e in gen(ctx, rnd)]
    # events whose index is outside the spec's range come back as "unmapped"; host errors are only tolerated there
    can = []
    for j, ix in enumerate(rnd.sample(range(len(evs)), 40)):
        e = list(evs[ix])
        if len(e) > 8 or e[6][0] < 0:
            continue
        e[0] = len(evs) + j + 1
        e[6] = [e[6][0] ^ (1 << rnd.randrange(16)), e[6][1]] if j % 2 else [e[6][0], e[6][1] ^ (1 << rnd.randrange(16))]
        can.append(e)
    clean = [e[:8] for e in evs + can]
    verdicts = {v['id']: v for v in tlc.validate('Trace_Fields', clean, chunk=20000)}
    unmapped = {}
    n_judged = 0
    for e in evs:
        v = verdicts[e[0]]
        key = '%s.%s' % (e[1], e[2])
        if v['path'] == 'unmapped':
            unmapped[key] = unmapped.get(key, 0) + 1
            continue
        n_judged += 1
        ctx.paths['field:' + v['path']] = ctx.paths.get('field:' + v['path'], 0) + 1
        failing = list(v['v'])
        if len(e) > 8 and 'image-not-a-word' in failing:
            failing = ['hosterror']
        if failing:
            ctx.judge('%s.%s' % (e[1], e[2]), failing, {'n': e[3]},
                      {'event': e, 'cls': e[1]}, what='base=%s value=%s image=%s readback=%s' % tuple(e[4:8]))
    n_can = 0
    for e in can:
        v = verdicts[e[0]]
        if v['path'] in ('unmapped',):
            continue
        n_can += 1
        ctx.canary(bool(v['v']))
    ctx.events += n_judged
    ctx.extra['field_events'] = n_judged
    # an accessor the spec table does not know at all (every index unmapped) is reported, not claimed
    fully = sorted(k for k in unmapped if not any(
        (e[1] + '.' + e[2]) == k and verdicts[e[0]]['path'] != 'unmapped' for e in evs))
    ctx.extra['fields_not_in_spec_table'] = fully
    ctx.sample({'field event [id, class, field, n, base, value, image, readback]': evs[len(evs) // 3][:8],
                'verdict': verdicts[evs[len(evs) // 3][0]]})
