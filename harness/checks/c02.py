"""C02 - single-register loads and stores: address, width, register, write-back, PC loads."""
from .. import families as F

HI_MEM = [{'mem_type': 'RAM', 'beginning': 0, 'end': 256}, {'mem_type': 'RAM', 'beginning': 0xFFFFFF00, 'end': 0x100000000}]


def grid_task(task):
    """spec -> code: the scenarios TLC enumerated in MC_LS (load/store word, instruction address, base and offset register
    values), executed by emulate_cycle() with a real fetch; RAM image and registers exactly as in MC_LS!St"""
    import random
    from .. import campaign as C
    g = C.Group(task['name'], arch_version=7, memory_list=HI_MEM)
    for sc in task['items']:
        st = g.fresh()
        thumb = '_t' in sc['k']
        C.randomize(st, random.Random(0), mode=19, thumb=thumb, pc=0)
        for r in st['R']:
            st['R'][r] = [0, 96]
        st['R']['PC'] = sc['ia']
        st['R']['R1usr'], st['R']['R2usr'], st['R']['SPsvc'] = sc['rn'], sc['rm'], sc['rn']
        st['R']['R0usr'], st['R']['R4usr'], st['R']['R5usr'] = [23130, 42405], [4660, 22136], [39612, 57072]
        st['cpsr'] = [8192, (32 if thumb else 0) + 19]
        st['sys']['SCTLR'] = [64, 0]
        for d in (0, 1):
            mem = st['mem']['base'][d]
            for j in range(len(mem)):
                mem[j] = (j * 7 + 3 + 101 * (d + 1)) % 256
        if sc['k'] == 'ldrpc_a1':
            v = C.unlimbs(sc['rm'])
            st['mem']['base'][0][128:132] = [(v >> (8 * i)) & 0xFF for i in range(4)]
        w = (sc['w'][0] << 16) | sc['w'][1]
        ia = C.unlimbs(sc['ia'])
        if ia >= 0xFFFFFF00:
            C.put_instr(st, ia - 0xFFFFFF00, w, thumb, dev=1)
        else:
            C.put_instr(st, ia, w, thumb)
        g.add(st, {'n': 'Step'}, meta={'gen': 'mc_ls:' + sc['k'], 'word': w, 'thumb': thumb})
    return [g]


def _dispatch(t):
    return t[0](t[1])


def run(ctx):
    from .. import campaign as C
    from .. import tlc
    ctx.mc('MC_Cond', workers=4)
    # the load/store semantics of the specification against the property's wording (address = base +/- offset mod 2^32 or the
    # base for post-indexing, exactly `size` little-endian bytes, zero/sign extension, write-back, load to PC, frame) on the
    # encoding x addressing mode x offset-basis x base-register grid; then the same scenarios are executed by the real code
    full = 'FALSE' if ctx.quick else 'TRUE'
    # one run: the invariants are checked and (GEN) every scenario is printed
    rs = ctx.mc('MC_LS', constants={'GEN': 'TRUE', 'FULL': full}, coverage=False, timeout=3000)
    grid = [x for x in tlc.printed_json(rs['out']) if isinstance(x, dict) and 'rn' in x]
    if len(grid) < 10000:
        raise tlc.MachineryError('MC_LS printed only %d scenarios' % len(grid))
    grid.sort(key=repr)
    ggroups = C.parallel(_dispatch, [(grid_task, dict(name='mcls-%d' % i, items=grid[i::16])) for i in range(16)])
    ctx.behaviours += len(grid)
    ctx.extra['mc_ls_scenarios_replayed'] = len(grid)
    n = 6000 if ctx.quick else 150000
    cfgs = [('v6', dict(arch_version=6)), ('v7', dict(arch_version=7)),
            ('v6hi', dict(arch_version=6, memory_list=HI_MEM)), ('v7hi', dict(arch_version=7, memory_list=HI_MEM)),
            # with the Large Physical Address Extension a doubleword-aligned LDRD / STRD is one 8-byte access (same result)
            ('v7lpae', dict(arch_version=7, have_lpae=True))]
    res = F.run_family(ctx, 'ls', n, {'endian': True, 'align_ctl': True, 'data_ptrs': True, 'hi': True}, F.exact_filter, configs=cfgs,
                       extra_groups=ggroups)
    notexact = sum(1 for g, e, v in res if g.name.startswith('mcls-') and not v['path'].startswith('exact:'))
    if notexact:
        raise tlc.MachineryError('%d MC_LS scenarios were not judged exactly' % notexact)
    ctx.extra['rule'] = ('MC_LS (TLC): load/store encodings x offset / pre- / post-indexed x U x affine basis of the offset field x shifted '
                         'register offsets x bases in RAM, unaligned, at 0xFFFFFF80 and 0xFFFFFFFC (wrap): address, bytes, extension, '
                         'write-back, PC load and frame against the wording; every scenario then executed by emulate_cycle(); plus '
                         'random LDR/STR-family words (ARM word/byte imm+reg incl. T variants and literal, extra '
                         'halfword/signed/dual, 16-bit Thumb, 32-bit Thumb imm12/imm8/reg/dual/TBB) x random P/U/W, '
                         'registers (incl. SP, PC, Rn==Rt filtered to envelope when UNPREDICTABLE), base addresses in RAM, '
                         'at 0xFFFFFFxx and wrapping, alignment 0..3, CPSR.E, SCTLR.A/U, arch 6 and 7; full post-state '
                         'judged by TLC')


def replay(ctx, path):
    from ..replay import replay_step
    return replay_step(ctx, path)
