"""C02 - single-register loads and stores: address, width, register, write-back, PC loads."""
from .. import families as F

HI_MEM = [{'mem_type': 'RAM', 'beginning': 0, 'end': 256}, {'mem_type': 'RAM', 'beginning': 0xFFFFFF00, 'end': 0x100000000}]


def run(ctx):
    ctx.mc('MC_Cond', workers=4)
    n = 6000 if ctx.quick else 150000
    cfgs = [('v6', dict(arch_version=6)), ('v7', dict(arch_version=7)),
            ('v6hi', dict(arch_version=6, memory_list=HI_MEM)), ('v7hi', dict(arch_version=7, memory_list=HI_MEM))]
    F.run_family(ctx, 'ls', n, {'endian': True, 'align_ctl': True, 'data_ptrs': True, 'hi': True}, F.exact_filter, configs=cfgs)
    ctx.extra['rule'] = ('random LDR/STR-family words (ARM word/byte imm+reg incl. T variants and literal, extra '
                         'halfword/signed/dual, 16-bit Thumb, 32-bit Thumb imm12/imm8/reg/dual/TBB) x random P/U/W, '
                         'registers (incl. SP, PC, Rn==Rt filtered to envelope when UNPREDICTABLE), base addresses in RAM, '
                         'at 0xFFFFFFxx and wrapping, alignment 0..3, CPSR.E, SCTLR.A/U, arch 6 and 7; full post-state '
                         'judged by TLC')


def replay(ctx, path):
    from ..replay import replay_step
    return replay_step(ctx, path)
