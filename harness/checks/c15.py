"""C15 - VMSA translation (short-descriptor format).  MC_VMSA (TLC): the walk of VMSA.tla against the property's
statement per descriptor type.  Conformance: random first- and second-level tables (all descriptor types, AP/APX,
domains), TTBCR.N 0..7 with PD0/PD1, DACR, SCTLR.{M,AFE,TRE,EE}, FCSE PID are written into RAM of a VMSA-configured
instance; translate_address() and loads/stores are executed and the physical address, fault type/level/domain in
DFSR, DFAR and abort bookkeeping are judged by TLC.  TRE = 0 reaches the emulator's documented mock hook (notimpl)."""
import random

from .. import campaign as C
from .. import sweeps as S
from .. import tlc
from ..words import limbs
from .c18 import _dispatch

MEM = [{'mem_type': 'RAM', 'beginning': 0, 'end': 0x400},            # code + data
       {'mem_type': 'RAM', 'beginning': 0x4000, 'end': 0x8000},      # TTBR1 first-level table (16 KiB)
       {'mem_type': 'RAM', 'beginning': 0x8000, 'end': 0xC000},      # TTBR0 first-level table (up to 16 KiB)
       {'mem_type': 'RAM', 'beginning': 0xC000, 'end': 0x10000}]     # 16 second-level tables (1 KiB each)
CFG = dict(arch_version=7, memory_system_architecture='VMSA', memory_list=MEM)


def l1_desc(rnd):
    r = rnd.random()
    dom = rnd.randrange(16)
    ap = rnd.randrange(8)
    if r < 0.12:
        return rnd.getrandbits(30) << 2                                        # fault
    if r < 0.45:
        l2 = 0xC000 + rnd.randrange(16) * 0x400
        return l2 | (dom << 5) | (rnd.getrandbits(3) << 2) | 1                   # page table
    base = rnd.choice([0, 0x100000, 0xFFF00000, rnd.getrandbits(12) << 20])
    tex = rnd.getrandbits(3)
    d = base | ((ap >> 2) << 15) | (tex << 12) | ((ap & 3) << 10) | (dom << 5) | (rnd.getrandbits(1) << 4) | (rnd.getrandbits(2) << 2) | 2
    if r < 0.85:
        return d & ~(1 << 18)                                                    # section
    return (d | (1 << 18)) & ~(0xF << 20) | (rnd.getrandbits(4) << 20 if rnd.random() < 0.3 else 0)   # supersection


def l2_desc(rnd):
    r = rnd.random()
    ap = rnd.randrange(8)
    if r < 0.15:
        return rnd.getrandbits(30) << 2
    base = rnd.choice([0, 0x1000, 0x10000, rnd.getrandbits(20) << 12])
    common = ((ap >> 2) << 9) | ((ap & 3) << 4) | (rnd.getrandbits(2) << 2) | (rnd.getrandbits(2) << 10)
    if r < 0.45:
        return (base & 0xFFFF0000) | (rnd.getrandbits(1) << 15) | (rnd.getrandbits(3) << 12) | common | 1       # large page
    return (base & 0xFFFFF000) | (rnd.getrandbits(3) << 6) | common | 2 | rnd.getrandbits(1)                     # small page


def put32(mem, off, v, be):
    b = v.to_bytes(4, 'big' if be else 'little')
    mem[off:off + 4] = list(b)


def vmsa_task(task):
    rnd = random.Random(task['seed'])
    proto = S.mk_group(dict(task, cfg=CFG))
    out = []
    for t in range(task['tables']):
        # one group per page-table set: the tables live in the group's base state, events stay small
        g = C.Group.__new__(C.Group)
        g.__dict__.update(proto.__dict__)
        g.name = '%s-t%d' % (task['name'], t)
        g.events, g.meta = [], {}
        st = proto.fresh()
        C.randomize(st, rnd, mode=rnd.choice([16, 19, 31, 17]), thumb=False, pc=0x40, e=rnd.getrandbits(1))
        n = rnd.choice([0, 0, 1, 2, 3, 5, 7])
        ee = rnd.getrandbits(1) if rnd.random() < 0.3 else 0
        afe = rnd.getrandbits(1) if rnd.random() < 0.4 else 0
        tre = 0 if rnd.random() < 0.05 else 1
        m = 0 if rnd.random() < 0.06 else 1
        sct = (C.unlimbs(g.base['sys']['SCTLR']) & ~((1 << 25) | (1 << 29) | (1 << 28) | 1 | (1 << 17) | 2)) | (1 << 22)
        st['sys']['SCTLR'] = limbs(sct | (ee << 25) | (afe << 29) | (tre << 28) | m)
        st['sys']['TTBCR'] = limbs(n | (rnd.getrandbits(1) << 4 if rnd.random() < 0.15 else 0) | (rnd.getrandbits(1) << 5 if rnd.random() < 0.15 else 0))
        # the TTBR0 table is aligned to 2^(14-N) only: place it at a non-16KiB-aligned slot when N > 0
        slot = rnd.randrange(1 << n) if n else 0
        t0off = slot << (14 - n)
        st['sys']['TTBR0'] = limbs((0x8000 + t0off) | rnd.getrandbits(6))
        st['sys']['TTBR1'] = limbs(0x4000 | rnd.getrandbits(6))
        st['sys']['DACR'] = limbs(sum(rnd.choice([0, 1, 1, 3, 3, 2]) << (2 * d) for d in range(16)))
        st['sys']['PRRR'] = limbs(sum(rnd.choice([0, 1, 2, 2, 2]) << (2 * i) for i in range(8)) | (rnd.getrandbits(16) << 16))
        st['sys']['NMRR'] = limbs(rnd.getrandbits(32))
        st['sys']['FCSEIDR'] = limbs(rnd.choice([0, 0, 5 << 25, rnd.getrandbits(7) << 25]))
        st['sys']['DFSR'] = limbs(0)
        l1b, l1a, l2t = st['mem']['base'][1], st['mem']['base'][2], st['mem']['base'][3]
        hot = []                                              # VAs whose descriptors are interesting
        for _ in range(40):
            i = rnd.randrange(4096)
            put32(l1b, 4 * i, l1_desc(rnd), ee)
            put32(l1a, 4 * (i % 4096), l1_desc(rnd), ee)
            hot.append(i << 20)
            j = rnd.randrange(1 << (12 - n))                    # an entry of the TTBR0 table proper (VA<31:32-N> = 0)
            put32(l1a, t0off + 4 * j, l1_desc(rnd), ee)
            hot.append(j << 20)
        for k in range(16):
            for _ in range(12):
                j = rnd.randrange(256)
                put32(l2t, 0x400 * k + 4 * j, l2_desc(rnd), ee)
                hot.append((rnd.choice(hot) & 0xFFF00000) | (j << 12))
        C.M.inject(g.arm, dict(st, osys={}, memsz=[]))
        g.base = C.M.project(g.arm)
        out.append(g)
        for _ in range(task['per_table']):
            r = rnd.random()
            if r < 0.7:
                va = rnd.choice(hot) | rnd.choice([0, 0, 1, 0xFFF, 0xFFFF, 0xFFFFF, rnd.getrandbits(20)]) & 0xFFFFF
            elif r < 0.85:
                edge = 1 << (32 - n) if n else 0
                va = (edge + rnd.choice([-1, 0, 1, 0x100000])) & 0xFFFFFFFF
            else:
                va = rnd.getrandbits(32) if rnd.random() < 0.6 else rnd.getrandbits(25)
            act = {'n': 'Translate', 'addr': limbs(va), 'size': rnd.choice([1, 2, 4]), 'priv': bool(rnd.getrandbits(1)),
                   'iswrite': bool(rnd.getrandbits(1)), 'aligned': rnd.random() < 0.85}
            g.add(st, act, meta={'va': va, 'n': n, 'tre': tre, 'm': m, 'afe': afe})
        # a load and a store through the MMU (code is fetched through the same tables: identity-map the first MiB for it)
        for kind in ('ldr', 'str'):
            st2 = {k2: (dict(v) if isinstance(v, dict) and k2 != 'mem' else v) for k2, v in st.items()}
            st2['mem'] = {'devs': st['mem']['devs'], 'base': [list(b) for b in st['mem']['base']]}
            put32(st2['mem']['base'][2], t0off, (3 << 10) | 2 | (0 << 5), ee)   # VA 0..1MiB -> PA 0, AP=3, domain 0
            st2['sys']['DACR'] = limbs((C.unlimbs(st2['sys']['DACR']) & ~3) | 1)
            st2['sys']['FCSEIDR'] = limbs(0)
            st2['sys']['SCTLR'] = limbs(C.unlimbs(st2['sys']['SCTLR']) | (1 << 28))
            st2['sys']['PRRR'] = limbs((C.unlimbs(st2['sys']['PRRR']) & ~0xFFFF) | 0xAAAA)          # all normal memory
            va = rnd.choice(hot) | rnd.getrandbits(8) << 2
            st2['R']['R1usr'] = limbs(va)
            w = 0xE5912000 if kind == 'ldr' else 0xE5812000                                          # LDR/STR r2, [r1]
            C.put_instr(st2, 0x40, w, False)
            g.add(st2, {'n': 'Step'}, meta={'va': va, 'kind': kind})
    return out


# ---------------------------------------------------------------------------------------------------------------------
# long-descriptor format (LPAE): 3 levels of 64-bit descriptors.  Memory: device 1 = TTBR1 tables, device 2 = TTBR0
# tables (level 1 at +0, three level-2 tables at +0x1000 ..), device 3 = four level-3 tables shared by both.
LCFG = dict(arch_version=7, memory_system_architecture='VMSA', memory_list=MEM, have_lpae=True)
MAIR_MENU = [0x00, 0x04, 0xFF, 0x44, 0xBB, 0xEE, 0x4F, 0x0C, 0x40, 0x24]


def ld_desc(rnd, level, tabbase):
    """64-bit descriptor for `level`; tables of the next level live at tabbase + k * 0x1000"""
    r = rnd.random()
    upper = (rnd.getrandbits(1) << 54) | (rnd.getrandbits(1) << 53) | (rnd.getrandbits(1) << 52)
    af = 0 if rnd.random() < 0.08 else 1
    lower = (rnd.getrandbits(1) << 11) | (af << 10) | (rnd.getrandbits(2) << 8) | (rnd.getrandbits(2) << 6) | \
        (rnd.getrandbits(1) << 5) | (rnd.randrange(8) << 2)
    if r < 0.12:
        return rnd.getrandbits(63) << 1                                            # invalid
    if level < 3 and r < 0.55:
        k = rnd.randrange(3 if level == 1 else 4)
        tattr = (rnd.getrandbits(5) << 59) if rnd.random() < 0.3 else 0             # NSTable / APTable / XNTable / PXNTable
        ext = (rnd.randrange(1, 4) << 32) if rnd.random() < 0.04 else 0
        return tattr | ext | (tabbase[level] + k * 0x1000) | 3                      # table
    oa = rnd.choice([0, 0, 0x40000000, 0x80200000, 0xFFE00000, rnd.getrandbits(32)])
    ext = (rnd.randrange(1, 256) << 32) if rnd.random() < 0.15 else 0
    if level == 3:
        if r < 0.62:
            return upper | (oa & 0xFFFFF000) | lower | 1                            # reserved at level 3: invalid
        return upper | ext | (oa & 0xFFFFF000) | lower | 3                          # page
    lsb = 30 if level == 1 else 21
    return upper | ext | (oa & ~((1 << lsb) - 1) & 0xFFFFFFFF) | lower | 1          # block


def put64(mem, off, v, be):
    mem[off:off + 8] = list(v.to_bytes(8, 'big' if be else 'little'))


def vmsa_ld_task(task):
    rnd = random.Random(task['seed'])
    proto = S.mk_group(dict(task, cfg=LCFG))
    out = []
    for t in range(task['tables']):
        g = C.Group.__new__(C.Group)
        g.__dict__.update(proto.__dict__)
        g.name = '%s-t%d' % (task['name'], t)
        g.events, g.meta = [], {}
        st = proto.fresh()
        C.randomize(st, rnd, mode=rnd.choice([16, 19, 31, 17]), thumb=False, pc=0x40, e=rnd.getrandbits(1))
        ee = rnd.getrandbits(1) if rnd.random() < 0.3 else 0
        t0sz, t1sz = rnd.choice([0, 0, 1, 2, 3, 7]), rnd.choice([0, 0, 1, 2, 5])
        sct = (C.unlimbs(g.base['sys']['SCTLR']) & ~((1 << 25) | (1 << 29) | (1 << 28) | 1 | 2)) | (1 << 22)
        st['sys']['SCTLR'] = limbs(sct | (ee << 25) | (rnd.getrandbits(1) << 29) | (1 << 28) | 1)
        epd = (rnd.getrandbits(1) << 7 if rnd.random() < 0.1 else 0) | (rnd.getrandbits(1) << 23 if rnd.random() < 0.1 else 0)
        st['sys']['TTBCR'] = limbs((1 << 31) | t0sz | (t1sz << 16) | epd | (rnd.getrandbits(6) << 8) | (rnd.getrandbits(6) << 24))
        # first lookup level and table base for each TTBR: level 1 (T*SZ < 2) -> the 4-entry table, else a level-2 table
        # placed at a slot aligned to 2^(14 - T*SZ) only
        def base_for(dev_base, tsz):
            if tsz < 2:
                return dev_base + (rnd.randrange(4) << 5 if tsz == 0 else rnd.randrange(8) << 4)
            return dev_base + 0x1000 + (rnd.randrange(1 << (tsz - 2)) << (14 - tsz))
        b0, b1 = base_for(0x8000, t0sz), base_for(0x4000, t1sz)
        hi0 = rnd.randrange(1, 4) if rnd.random() < 0.04 else 0
        st['sys']['TTBR0'], st['sys']['TTBR0H'] = limbs(b0 | (rnd.getrandbits(3) if rnd.random() < 0.1 else 0)), limbs(hi0)
        st['sys']['TTBR1'], st['sys']['TTBR1H'] = limbs(b1), limbs(0)
        st['sys']['MAIR0'] = limbs(sum(rnd.choice(MAIR_MENU) << (8 * i) for i in range(4)))
        st['sys']['MAIR1'] = limbs(sum(rnd.choice(MAIR_MENU) << (8 * i) for i in range(4)))
        st['sys']['FCSEIDR'] = limbs(rnd.choice([0, 0, 5 << 25]))
        st['sys']['DFSR'] = limbs(0)
        d1, d0, d3 = st['mem']['base'][1], st['mem']['base'][2], st['mem']['base'][3]
        for dev, devbase in ((d0, 0x8000), (d1, 0x4000)):
            tb = {1: devbase + 0x1000, 2: 0xC000}
            for off in range(0, 0x1000, 8):                       # level-1 area (the walk uses 2..4 entries of it)
                put64(dev, off, ld_desc(rnd, 1, tb), ee)
            for k in range(3):
                for off in range(0, 0x1000, 8):
                    put64(dev, 0x1000 + k * 0x1000 + off, ld_desc(rnd, 2, tb), ee)
        for off in range(0, 0x4000, 8):
            put64(d3, off, ld_desc(rnd, 3, {}), ee)
        C.M.inject(g.arm, dict(st, osys={}, memsz=[]))
        g.base = C.M.project(g.arm)
        out.append(g)
        for _ in range(task['per_table']):
            r = rnd.random()
            if r < 0.6:
                va = rnd.getrandbits(32)
            elif r < 0.8:
                edge = (1 << (32 - t0sz)) if t0sz else 0
                va = (edge + rnd.choice([-1, 0, 1, -0x1000])) & 0xFFFFFFFF
            elif r < 0.9:
                va = (0xFFFFFFFF >> t1sz << t1sz if False else (~((1 << (32 - t1sz)) - 1)) & 0xFFFFFFFF) + rnd.choice([-1, 0, 0xFFF])
                va &= 0xFFFFFFFF
            else:
                va = rnd.getrandbits(21)
            act = {'n': 'Translate', 'addr': limbs(va), 'size': rnd.choice([1, 2, 4]), 'priv': bool(rnd.getrandbits(1)),
                   'iswrite': bool(rnd.getrandbits(1)), 'aligned': rnd.random() < 0.85}
            g.add(st, act, meta={'va': va, 't0sz': t0sz, 't1sz': t1sz, 'ee': ee, 'ld': True})
    return out


# ---------------------------------------------------------------------------------------------------------------------
# stage 2 (Virtualization Extensions): Non-secure PL1&0 with HCR.VM = 1.  Stage-2 tables: first lookup table at 0x8000
# (level 1 with VTCR.SL0 = 1, concatenated level-2 tables with SL0 = 0), two further level-2 tables at 0xA000 / 0xB000,
# four level-3 tables at 0xC000...  Stage 1 is off (flat, HCR.DC both ways) or a short-descriptor table at 0x4000 whose own
# descriptor addresses are intermediate physical addresses as well.
S2CFG = dict(arch_version=7, memory_system_architecture='VMSA', memory_list=MEM, have_lpae=True, have_virt_ext=True,
             have_security_ext=True)


def s2_desc(rnd, level, ident):
    r = rnd.random()
    memattr = rnd.choice([0xF, 0xF, 0xF, 0x5, 0xA, 0x7, 0xD, 0xB, 0xE, 0x6, 0x9, 0x0, 0x1, 0xF, 0x5, rnd.randrange(16)])
    hap = rnd.choice([3, 3, 3, 3, 3, 3, 1, 2, 0])
    af = 0 if rnd.random() < 0.06 else 1
    lower = (af << 10) | (rnd.getrandbits(2) << 8) | (hap << 6) | (memattr << 2)
    upper = rnd.getrandbits(1) << 54
    if r < 0.08:
        return rnd.getrandbits(63) << 1                                            # invalid
    if level < 3 and r < 0.45:
        nxt = (0xA000 + rnd.randrange(2) * 0x1000) if level == 1 else (0xC000 + rnd.randrange(4) * 0x1000)
        ext = (rnd.randrange(1, 4) << 32) if rnd.random() < 0.03 else 0
        return (rnd.getrandbits(5) << 59 if rnd.random() < 0.2 else 0) | ext | nxt | 3     # table (upper attribute bits are ignored at stage 2)
    ext = (rnd.randrange(1, 256) << 32) if rnd.random() < 0.08 else 0
    if level == 3:
        oa = ident if rnd.random() < 0.6 else rnd.choice([0, 0x1000, 0x4000, 0xC000, rnd.getrandbits(32)])
        if r < 0.15:
            return upper | (oa & 0xFFFFF000) | lower | 1                            # reserved at level 3: invalid
        return upper | ext | (oa & 0xFFFFF000) | lower | 3                          # page
    lsb = 30 if level == 1 else 21
    oa = ident if rnd.random() < 0.7 else rnd.choice([0, 0x40000000, 0x00200000, rnd.getrandbits(32)])
    return upper | ext | (oa & ~((1 << lsb) - 1) & 0xFFFFFFFF) | lower | 1          # block


def vmsa_s2_task(task):
    rnd = random.Random(task['seed'])
    proto = S.mk_group(dict(task, cfg=S2CFG))
    out = []
    for t in range(task['tables']):
        g = C.Group.__new__(C.Group)
        g.__dict__.update(proto.__dict__)
        g.name = '%s-t%d' % (task['name'], t)
        g.events, g.meta = [], {}
        st = proto.fresh()
        C.randomize(st, rnd, mode=rnd.choice([16, 19, 31, 17, 18]), thumb=False, pc=0x40)
        ee, hee = (rnd.getrandbits(1) if rnd.random() < 0.3 else 0), (rnd.getrandbits(1) if rnd.random() < 0.3 else 0)
        s1 = rnd.choice(['off', 'off', 'off', 'sd'])
        sct = (C.unlimbs(g.base['sys']['SCTLR']) & ~((1 << 25) | (1 << 29) | (1 << 28) | 1 | 2)) | (1 << 22)
        st['sys']['SCTLR'] = limbs(sct | (ee << 25) | (1 << 28) | (1 if s1 == 'sd' else 0))
        st['sys']['HSCTLR'] = limbs(hee << 25)
        st['sys']['SCR'] = limbs(1 | (rnd.getrandbits(3) << 1))                                   # Non-secure
        vm = 0 if rnd.random() < 0.08 else 1
        dc = rnd.getrandbits(1) if s1 == 'off' else 0
        st['sys']['HCR'] = limbs(vm | (rnd.getrandbits(1) << 2) | (dc << 12))                    # VM, PTW, DC (TGE = 0)
        sl0 = rnd.choice([1, 1, 0])
        t0 = rnd.choice([0, 0, -8, 1, -2, -4]) if sl0 == 1 else rnd.choice([0, 0, 2, 4, 7, -1])
        if rnd.random() < 0.04:
            sl0, t0 = rnd.choice([(2, 0), (3, 0), (0, -5), (1, 4)])                                 # UNPREDICTABLE programmings
        st['sys']['VTCR'] = limbs((1 << 31) | (rnd.getrandbits(6) << 8) | (sl0 << 6) | ((1 if t0 < 0 else 0) << 4) | (t0 & 0xF))
        st['sys']['VTTBR'], st['sys']['VTTBRH'] = limbs(0x8000 | (rnd.getrandbits(2) << 3 if rnd.random() < 0.05 else 0)), \
            limbs(rnd.randrange(1, 4) if rnd.random() < 0.03 else 0)
        st['sys']['TTBCR'] = limbs(0)
        st['sys']['TTBR0'], st['sys']['TTBR0H'] = limbs(0x4000), limbs(0)
        st['sys']['DACR'] = limbs(sum(rnd.choice([1, 1, 3, 3, 0]) << (2 * d) for d in range(16)))
        st['sys']['PRRR'] = limbs(sum(rnd.choice([0, 1, 2, 2, 2]) << (2 * i) for i in range(8)) | (rnd.getrandbits(16) << 16))
        st['sys']['NMRR'] = limbs(rnd.getrandbits(32))
        st['sys']['FCSEIDR'] = limbs(0)
        st['sys']['DFSR'] = limbs(0)
        d1, d2, d3 = st['mem']['base'][1], st['mem']['base'][2], st['mem']['base'][3]
        first_level = 2 - sl0 if sl0 < 2 else 1
        span = 30 if first_level == 1 else 21
        for off in range(0, 0x2000, 8):                           # the first lookup table(s); entry i covers IPA i << span
            put64(d2, off, s2_desc(rnd, first_level, ((off // 8) << span) & 0xFFFFFFFF), hee)
        for k in range(2):                                        # level-2 tables (reached from level 1)
            for off in range(0, 0x1000, 8):
                put64(d2, 0x2000 + k * 0x1000 + off, s2_desc(rnd, 2, ((off // 8) << 21) & 0xFFFFFFFF), hee)
        for k in range(4):
            for off in range(0, 0x1000, 8):
                put64(d3, k * 0x1000 + off, s2_desc(rnd, 3, ((off // 8) << 12) & 0xFFFFFFFF), hee)
        hot = [0, 0x40, 0x4000, 0x8000, 0xC000, 0x1000, 0x200000, 0x40000000]
        if s1 == 'sd':
            for _ in range(60):
                i = rnd.randrange(4096)
                put32(d1, 4 * i, l1_desc(rnd), ee)
                hot.append(i << 20)
        C.M.inject(g.arm, dict(st, osys={}, memsz=[]))
        g.base = C.M.project(g.arm)
        out.append(g)
        for _ in range(task['per_table']):
            r = rnd.random()
            if r < 0.55:
                va = (rnd.choice(hot) + rnd.choice([0, 0, 4, 0xFFF, 0x1000, rnd.getrandbits(12), rnd.getrandbits(21)])) & 0xFFFFFFFF
            elif r < 0.75:
                va = rnd.getrandbits(rnd.choice([12, 16, 21, 30, 32]))
            else:
                edge = (1 << (32 - t0)) if 0 < t0 < 8 else 0
                va = (edge + rnd.choice([-1, 0, 1, -0x1000])) & 0xFFFFFFFF
            k = rnd.random()
            if k < 0.7:
                act = {'n': 'Translate', 'addr': limbs(va), 'size': rnd.choice([1, 2, 4]), 'priv': bool(rnd.getrandbits(1)),
                       'iswrite': bool(rnd.getrandbits(1)), 'aligned': rnd.random() < 0.85}
            else:
                size = rnd.choice([1, 2, 4])
                op = rnd.choice(['MemAGet', 'MemUGet', 'MemASet', 'MemUSet'])
                act = {'n': op, 'addr': limbs(va & ~(size - 1)), 'size': size}
                if op.endswith('Set'):
                    act['val'] = [rnd.getrandbits(8) for _ in range(size)]
            g.add(st, act, meta={'va': va, 's2': True, 's1': s1, 'sl0': sl0, 't0sz': t0, 'vm': vm})
    return out


def vmsa_hyp_task(task):
    """stage 1 of the Hyp-mode (PL2) regime: HTTBR / HTCR.T0SZ / HMAIR / HSCTLR.{M, EE}, long-descriptor tables as in vmsa_ld_task
    (TTBR0 device); Non-secure, CPSR.M = Hyp; Translate and memory-API events (no fetch)"""
    rnd = random.Random(task['seed'])
    proto = S.mk_group(dict(task, cfg=S2CFG))
    out = []
    for t in range(task['tables']):
        g = C.Group.__new__(C.Group)
        g.__dict__.update(proto.__dict__)
        g.name = '%s-t%d' % (task['name'], t)
        g.events, g.meta = [], {}
        st = proto.fresh()
        C.randomize(st, rnd, mode=26, thumb=False, pc=0x40)
        hee = rnd.getrandbits(1) if rnd.random() < 0.3 else 0
        t0sz = rnd.choice([0, 0, 1, 2, 3, 7])
        st['sys']['SCR'] = limbs(1 | (rnd.getrandbits(3) << 1))
        st['sys']['HSCTLR'] = limbs((hee << 25) | (0 if rnd.random() < 0.06 else 1))
        st['sys']['SCTLR'] = limbs((C.unlimbs(g.base['sys']['SCTLR']) & ~1) | (1 << 22) | rnd.getrandbits(1))
        st['sys']['HCR'] = limbs(rnd.getrandbits(1))
        st['sys']['HTCR'] = limbs((1 << 31) | t0sz | (rnd.getrandbits(6) << 8))
        if t0sz < 2:
            b0 = 0x8000 + (rnd.randrange(4) << 5 if t0sz == 0 else rnd.randrange(8) << 4)
        else:
            b0 = 0x8000 + 0x1000 + (rnd.randrange(1 << (t0sz - 2)) << (14 - t0sz))
        st['sys']['HTTBR'], st['sys']['HTTBRH'] = limbs(b0), limbs(rnd.randrange(1, 4) if rnd.random() < 0.03 else 0)
        st['sys']['HMAIR0'] = limbs(sum(rnd.choice(MAIR_MENU) << (8 * i) for i in range(4)))
        st['sys']['HMAIR1'] = limbs(sum(rnd.choice(MAIR_MENU) << (8 * i) for i in range(4)))
        st['sys']['MAIR0'], st['sys']['MAIR1'] = limbs(rnd.getrandbits(32)), limbs(rnd.getrandbits(32))
        d0, d3 = st['mem']['base'][2], st['mem']['base'][3]

        def hdesc(level, tb):
            d = ld_desc(rnd, level, tb)
            if (d & 3) in (1, 3) and not (level < 3 and (d & 3) == 3) and rnd.random() < 0.85:
                d = (d | (1 << 6)) & ~((1 << 53) | (1 << 11))          # AP<1> = 1, PXN = 0, nG = 0: the well-formed PL2 descriptor
            elif level < 3 and (d & 3) == 3 and rnd.random() < 0.85:
                d &= ~(1 << 61)                                           # APTable<0> = 0
            return d
        tb = {1: 0x8000 + 0x1000, 2: 0xC000}
        for off in range(0, 0x1000, 8):
            put64(d0, off, hdesc(1, tb), hee)
        for k in range(3):
            for off in range(0, 0x1000, 8):
                put64(d0, 0x1000 + k * 0x1000 + off, hdesc(2, tb), hee)
        for off in range(0, 0x4000, 8):
            put64(d3, off, hdesc(3, {}), hee)
        C.M.inject(g.arm, dict(st, osys={}, memsz=[]))
        g.base = C.M.project(g.arm)
        out.append(g)
        for _ in range(task['per_table']):
            r = rnd.random()
            if r < 0.7:
                va = rnd.getrandbits(32) if t0sz == 0 or rnd.random() < 0.3 else rnd.getrandbits(32 - t0sz)
            elif r < 0.85:
                edge = (1 << (32 - t0sz)) if t0sz else 0
                va = (edge + rnd.choice([-1, 0, 1, -0x1000])) & 0xFFFFFFFF
            else:
                va = rnd.getrandbits(21)
            if rnd.random() < 0.75:
                act = {'n': 'Translate', 'addr': limbs(va), 'size': rnd.choice([1, 2, 4]), 'priv': True,
                       'iswrite': bool(rnd.getrandbits(1)), 'aligned': rnd.random() < 0.85}
            else:
                size = rnd.choice([1, 2, 4])
                op = rnd.choice(['MemAGet', 'MemUGet', 'MemASet', 'MemUSet'])
                act = {'n': op, 'addr': limbs(va & ~(size - 1)), 'size': size}
                if op.endswith('Set'):
                    act['val'] = [rnd.getrandbits(8) for _ in range(size)]
            g.add(st, act, meta={'va': va, 'hyp': True, 't0sz': t0sz})
    return out


def lpae_scenarios(ctx, scen):
    """spec -> code: every scenario MC_LPAE printed (walk shape x APTable at both levels x AP x AF x T0SZ x priv x R/W)
    is built on a real LPAE-configured instance from the printed registers and descriptor bytes; translate_address() is
    called and TLC judges the recorded event"""
    proto = S.mk_group(dict(name='lpae-mc', cfg=LCFG))
    st0 = proto.fresh()
    C.randomize(st0, random.Random(1), mode=19, thumb=False, pc=0x40)
    for k in ('TTBR1', 'TTBR1H', 'TTBR0H', 'MAIR1', 'FCSEIDR', 'DFSR', 'DFAR', 'DACR', 'PRRR', 'NMRR'):
        st0['sys'][k] = limbs(0)
    for b in st0['mem']['base'][1:]:
        b[:] = [0] * len(b)
    C.M.inject(proto.arm, dict(st0, osys={}, memsz=[]))
    proto.base = C.M.project(proto.arm)
    for i, sc in enumerate(scen):
        st = proto.fresh()
        p = sc['p']
        st['cpsr'] = limbs((C.unlimbs(st['cpsr']) & ~31) | (19 if p['priv'] else 16))
        st['sys']['TTBCR'], st['sys']['TTBR0'] = sc['ttbcr'], sc['ttbr0']
        st['sys']['MAIR0'], st['sys']['SCTLR'] = sc['mair0'], limbs(C.unlimbs(sc['sctlr']) | (1 << 22))
        for dev, off, byte in sc['w']:
            # the model uses one device [0x4000, 0xD000); the instance has [0x4000,0x8000) [0x8000,0xC000) [0xC000,0x10000)
            a = 0x4000 + off
            d = 1 if a < 0x8000 else 2 if a < 0xC000 else 3
            st['mem']['base'][d][a - (0x4000, 0x8000, 0xC000)[d - 1]] = byte
        act = {'n': 'Translate', 'addr': sc['va'], 'size': 4, 'priv': bool(p['priv']), 'iswrite': bool(p['wr']), 'aligned': True}
        proto.add(st, act, meta={'scenario': i, 'shape': p['shape'], 'expected': sc['expected'], 'p': p, 'ld': True})
        ctx.behaviours += 1
    return proto


def clause_filter(c, v, e):
    return (v['path'].startswith(('memapi', 'exact', 'notimpl')) and c not in ('range', 'confine', 'nop-on-condfail')) or c == 'hosterror'


def run(ctx):
    rnd = random.Random(ctx.seed)
    q = ctx.quick
    ctx.mc('MC_VMSA', coverage=False, timeout=3000)
    ctx.mc('MC_LPAE', coverage=False, timeout=3000)
    # stage 2 (beyond the property's wording): walk shapes x VTCR.SL0/T0SZ x HAP x AF x MemAttr x SH x HCR.DC x alignment against the prose
    ctx.mc('MC_S2', constants={'FULL': 'FALSE' if q else 'TRUE'}, coverage=False, timeout=3000)
    r = ctx.mc('MC_LPAE', constants={'GEN': 'TRUE'}, coverage=False, timeout=3000)
    scen = tlc.printed_json(r['out'])
    if len(scen) < 3000:
        raise tlc.MachineryError('MC_LPAE printed only %d scenarios' % len(scen))
    scen.sort(key=repr)
    if q:
        scen = [x for i, x in enumerate(scen) if (i + ctx.seed) % 3 == 0]
    lp = lpae_scenarios(ctx, scen)
    tasks = [(vmsa_task, dict(name='vmsa-%d' % i, seed=ctx.seed + i, tables=6 if q else 120, per_table=40)) for i in range(16)]
    tasks += [(vmsa_ld_task, dict(name='lpae-%d' % i, seed=ctx.seed + 50 + i, tables=3 if q else 60, per_table=50)) for i in range(16)]
    tasks += [(vmsa_s2_task, dict(name='s2-%d' % i, seed=ctx.seed + 80 + i, tables=3 if q else 60, per_table=50)) for i in range(16)]
    tasks += [(vmsa_hyp_task, dict(name='hyp-%d' % i, seed=ctx.seed + 120 + i, tables=2 if q else 40, per_table=50)) for i in range(8)]
    groups = C.parallel(_dispatch, tasks) + [lp.data()]
    res = C.judge_groups(ctx, groups, clause_filter, rnd=rnd, chunk=1500,
                         site_of=lambda e, v: e['act']['n'] if e['act']['n'] != 'Step' else (e.get('cls') or v['path']),
                         tags_of=lambda g, e, v: dict(g.meta.get(e['id'], {}), out=e['out'], path=v['path']))
    outs = {}
    for g, e, v in res:
        outs[e['out']] = outs.get(e['out'], 0) + 1
    ctx.extra['outcomes'] = outs
    ctx.extra['not_covered'] = ('stage 2 translation and faults taken to Hyp mode are reported as unmodelled and not claimed; long-descriptor-format '
                                'faults reach the emulator\'s mock hook (fault / no-fault decision compared, not DFSR)')
    ctx.extra['rule'] = ('random short-descriptor tables in RAM x TTBCR.N 0..7/PD0/PD1 x DACR x SCTLR.{M,AFE,TRE,EE} x FCSE x '
                         'VAs at block and TTBR split boundaries, through translate_address() and LDR/STR; random long-descriptor '
                         '(LPAE) tables x T0SZ/T1SZ/EPD x MAIR x SCTLR.EE; every MC_LPAE scenario (quick: every 3rd) rebuilt in RAM '
                         'from the bytes TLC printed')
    faults = [x for x in res if x[1]['out'] == 'dabort'][:2]
    for g, e, v in faults + res[:1]:
        ctx.sample({'group': g.name, 'meta': g.meta.get(e['id']), 'act': e['act'], 'out': e['out'], 'res': e.get('res'),
                    'delta': e['d'], 'verdict': {k: v[k] for k in ('v', 'path')}})
    ctx.distinct = {(g.name, e['id']) for g, e, v in res}


def replay(ctx, path):
    from ..replay import replay_step
    return replay_step(ctx, path)
