"""C14 - PMSA protection.  MC_PMSA (TLC): the region loop / CheckPermission against the property's statement.
Conformance: random region tables (up to 12 regions, sizes 4 B .. 4 GiB, nested/overlapping, sub-region disables,
AP 0..7) x addresses at region and sub-region boundaries +/- 1 x read/write x privileged/unprivileged x SCTLR.{M,BR}
through the real translate_address(), and load/store instructions (single, dual, multiple straddling a boundary,
unprivileged T forms in privileged modes) hitting denied addresses through emulate_cycle(); TLC judges grant / abort,
DFSR, DFAR, LR_abt, SPSR_abt, mode, no write-back, no data moved."""
import random

from .. import campaign as C
from .. import families as F
from .. import isa_gen as G
from .. import sweeps as S
from ..words import limbs
from .c18 import _dispatch

RSIZES = [1, 2, 4, 4, 5, 6, 7, 7, 8, 11, 15, 31]


def random_regions(rnd, st, ram_span=256, keep=None):
    """program the MPU registers in st['sys']; returns the list of interesting addresses"""
    probes = [0, 0xFFFFFFFF]
    n_active = rnd.choice([1, 2, 2, 3, 4])
    slots = sorted(rnd.sample(range(12), n_active))
    for r in range(12):
        st['sys']['DRSR%d' % r] = limbs(rnd.getrandbits(16) & ~1)         # disabled, junk elsewhere
        st['sys']['DRBAR%d' % r] = limbs(rnd.getrandbits(32) & ~3)
        st['sys']['DRACR%d' % r] = limbs(rnd.getrandbits(13) & 0x173F)
    for r in slots:
        rsize = rnd.choice(RSIZES)
        size = 1 << (rsize + 1)
        if size >= 1 << 32:
            base = 0
        elif size <= ram_span and rnd.random() < 0.8:
            base = rnd.randrange(0, max(1, ram_span // size)) * size
        else:
            base = (rnd.getrandbits(32) // size) * size & 0xFFFFFFFF
        sd = rnd.choice([0, 0, 0x01, 0x80, 0xA5, 0xFF, rnd.getrandbits(8)])
        ap = rnd.choice([0, 1, 2, 3, 3, 5, 6, rnd.randrange(8)])
        st['sys']['DRSR%d' % r] = limbs((sd << 8) | (rsize << 1) | 1)
        st['sys']['DRBAR%d' % r] = limbs(base)
        st['sys']['DRACR%d' % r] = limbs((ap << 8) | (rnd.getrandbits(1) << 12) | rnd.choice([0b001000, 0b000011, 0b000110]))
        pts = [base, (base + size) & 0xFFFFFFFF]
        if rsize + 1 >= 8:
            pts += [(base + j * (size // 8)) & 0xFFFFFFFF for j in (1, 3, 4, 7)]
        for p in pts:
            probes += [p, (p - 1) & 0xFFFFFFFF, (p + 1) & 0xFFFFFFFF, (p + 4) & 0xFFFFFFFF, (p - 4) & 0xFFFFFFFF]
    if keep is not None:
        # the highest slot grants full access to the 32-byte block holding the code
        st['sys']['DRSR11'] = limbs((4 << 1) | 1)
        st['sys']['DRBAR11'] = limbs(keep & ~31)
        st['sys']['DRACR11'] = limbs((3 << 8) | 0b000011)
    return probes


def set_mpu(st, g, m, br):
    sct = C.unlimbs(g.base['sys']['SCTLR']) & ~((1 << 17) | 1 | (1 << 29))
    if g.cfg['arch_version'] >= 7:
        sct |= 1 << 22                                     # SCTLR.U reads as one from ARMv7
    st['sys']['SCTLR'] = limbs(sct | (br << 17) | m)
    st['sys']['MPUIR'] = limbs(12 << 8)
    st['sys']['DFSR'] = limbs(0)


def translate_task(task):
    rnd = random.Random(task['seed'])
    g = S.mk_group(task)
    for k in range(task['n']):
        st = g.fresh()
        C.randomize(st, rnd, mode=rnd.choice([16, 19, 17, 31, 23]), thumb=False)
        set_mpu(st, g, 1 if rnd.random() < 0.9 else 0, rnd.getrandbits(1))
        probes = random_regions(rnd, st)
        for _ in range(task['per_table']):
            va = rnd.choice(probes) if rnd.random() < 0.8 else rnd.getrandbits(32)
            size = rnd.choice([1, 2, 4, 8])
            act = {'n': 'Translate', 'addr': limbs(va), 'size': size, 'priv': bool(rnd.getrandbits(1)),
                   'iswrite': bool(rnd.getrandbits(1)), 'aligned': True}
            g.add(st, act, meta={'va': va})
    return [g]


def instr_task(task):
    rnd = random.Random(task['seed'])
    g = S.mk_group(dict(task, randmem=task['seed']))
    for k in range(task['n']):
        thumb = rnd.random() < 0.4
        # Thumb loads / stores also inside IT blocks: an abort taken there saves the un-advanced IT state in SPSR_abt
        st, pc = S.prep(g, rnd, task, thumb, rnd.choice([0, 0, 1, 2]) if thumb else 0, k)
        set_mpu(st, g, 1, rnd.getrandbits(1))
        probes = [p for p in random_regions(rnd, st, keep=pc) if p < 256] or [64]
        for r in list(st['R']):
            if r != 'PC' and rnd.random() < 0.7:
                st['R'][r] = limbs((rnd.choice(probes) + rnd.choice([0, 0, -4, -8, 4, -12, 1])) & 0xFFFFFFFF)
        if thumb:
            th, w, name = F.pick_ls(rnd, g.cfg) if rnd.random() < 0.6 else F.pick_lsm(rnd, g.cfg)
            while not th:
                th, w, name = F.pick_ls(rnd, g.cfg) if rnd.random() < 0.6 else F.pick_lsm(rnd, g.cfg)
        else:
            th, w, name = F.pick_ls(rnd, g.cfg) if rnd.random() < 0.6 else F.pick_lsm(rnd, g.cfg)
            while th:
                th, w, name = F.pick_ls(rnd, g.cfg) if rnd.random() < 0.6 else F.pick_lsm(rnd, g.cfg)
            w = (w & 0x0FFFFFFF) | (14 << 28)
            if name.startswith('ls') or name.startswith('xls'):
                w &= ~0xF00
        if thumb and (w >> 16) == 0xE92D:
            # PUSH.W with a misaligned SP is known finding KF-C03-push-t2-unaligned: reported once, under C03
            for r in st['R']:
                if r.startswith('SP'):
                    st['R'][r] = limbs(C.unlimbs(st['R'][r]) & ~3)
        C.put_instr(st, pc, w, thumb)
        g.add(st, {'n': 'Step'}, meta={'gen': name, 'word': w, 'thumb': thumb})
    return [g]


def clause_filter(c, v, e):
    return (v['path'].startswith(('memapi', 'exact')) and c not in ('range', 'confine', 'nop-on-condfail')) or c == 'hosterror'


def run(ctx):
    rnd = random.Random(ctx.seed)
    q = ctx.quick
    ctx.mc('MC_PMSA', constants={'FULL': 'FALSE' if q else 'TRUE'}, coverage=False, timeout=3000)
    tasks = []
    for i in range(8):
        tasks.append((translate_task, dict(name='xlate-%d' % i, seed=ctx.seed + i, n=60 if q else 1500, per_table=12,
                                           cfg={'arch_version': 6 + i % 2})))
        tasks.append((instr_task, dict(name='mpu-instr-%d' % i, seed=ctx.seed + 40 + i, n=500 if q else 12000, modes='all',
                                       cfg={'arch_version': 6 + i % 2})))
    groups = C.parallel(_dispatch, tasks)

    def tags(g, e, v):
        return {'grp': g.name.rsplit('-', 1)[0], 'enc': v['path'].split(':')[-1], 'out': e['out']}
    res = C.judge_groups(ctx, groups, clause_filter, rnd=rnd, tags_of=tags,
                         site_of=lambda e, v: e['act']['n'] if e['act']['n'] != 'Step' else (e.get('cls') or v['path']))
    aborts = sum(1 for g, e, v in res if e['out'] == 'dabort')
    ctx.extra['data_abort_events'] = aborts
    ctx.extra['rule'] = ('random MPU tables x boundary addresses through translate_address(); random load/store/multiple/dual '
                         'instructions with pointers at region boundaries with the MPU on (code block always accessible); '
                         'full post-state incl. abort bookkeeping judged by TLC')
    for g, e, v in [x for x in res if x[1]['out'] == 'dabort'][:2] + res[:1]:
        ctx.sample({'group': g.name, 'meta': g.meta.get(e['id']), 'act': e['act'], 'out': e['out'], 'delta': e['d'],
                    'verdict': {k: v[k] for k in ('v', 'path')}})
    ctx.distinct = {(g.name, e['id']) for g, e, v in res}


def replay(ctx, path):
    from ..replay import replay_step
    return replay_step(ctx, path)
