"""C19 - privilege confinement: whatever is executed in User mode, the processor stays in User mode with all
privileged state unchanged, or takes an architectural exception.  UserConfined (Trace_Step.tla) is evaluated on
the implementation's own pre/post state, so it needs no per-instruction oracle and covers every word."""
import random

from .. import campaign as C
from .. import sweeps as S
from ..tlc import MachineryError
from .c18 import CONFIGS, _dispatch, program_task


def clause_filter(c, v, e):
    return c == 'confine'


UNPRIV_ARM = [('ldrt_strt_a1', 'cccc0100ub1lnnnnttttiiiiiiiiiiii'), ('ldrt_strt_a2', 'cccc0110ub1lnnnnttttiiiiiyy0mmmm'),
              ('xlst_a1', 'cccc0000u11lnnnnttttiiii1yy1iiii'), ('xlst_a2', 'cccc0000u01lnnnntttt00001yy1mmmm')]
UNPRIV_T32 = [('lst_t1', '1111100s0zzlnnnntttt1110iiiiiiii')]


def unpriv_task(task):
    """second sentence of the property: LDRT/STRT/LDRBT/STRBT/LDRHT/STRHT/LDRSBT/LDRSHT (and the mem_u_unpriv API) executed in
    a PRIVILEGED mode are permission-checked as User accesses.  MPU on; the data window 64..127 is a region whose AP field
    separates privileged from User rights (or is left to the background region); aligned and unaligned addresses under every
    SCTLR.A/U setting, so the byte-wise unaligned path is taken as well."""
    from .c14 import set_mpu
    from .. import isa_gen as G
    limbs = C.limbs
    rnd = random.Random(task['seed'])
    g = S.mk_group(dict(task, randmem=task['seed']))
    v7 = g.cfg['arch_version'] >= 7
    for k in range(task['n']):
        thumb = v7 and rnd.random() < 0.3
        st, pc = S.prep(g, rnd, dict(task, modes='all'), thumb, 0, k)
        mode = rnd.choice([19, 17, 31, 23, 27, 18, 19])
        st['cpsr'] = limbs((C.unlimbs(st['cpsr']) & ~0x1F & ~0x200) | mode | (rnd.getrandbits(1) << 9))
        br = rnd.getrandbits(1)
        set_mpu(st, g, 1, br)
        sct = C.unlimbs(st['sys']['SCTLR']) & ~((1 << 22) | 2)
        sct |= ((1 if v7 else rnd.getrandbits(1)) << 22) | ((rnd.random() < 0.25) << 1)
        st['sys']['SCTLR'] = limbs(sct)
        for r in range(12):
            st['sys']['DRSR%d' % r] = limbs(0)
            st['sys']['DRBAR%d' % r] = limbs(0)
            st['sys']['DRACR%d' % r] = limbs(0)
        ap = rnd.choice([1, 1, 2, 2, 3, 5, 6, 0])
        if rnd.random() < 0.85:
            st['sys']['DRSR3'] = limbs((5 << 1) | 1)                    # 64 bytes at 64
            st['sys']['DRBAR3'] = limbs(64)
            st['sys']['DRACR3'] = limbs((ap << 8) | 0b000011)          # Normal memory (unaligned access allowed)
        st['sys']['DRSR11'] = limbs((4 << 1) | 1)                       # the 32-byte block holding the code: full access
        st['sys']['DRBAR11'] = limbs(pc & ~31)
        st['sys']['DRACR11'] = limbs((3 << 8) | 0b000011)
        if (pc & ~31) in (64, 96):
            continue
        addr = 64 + rnd.randrange(4, 56)
        if rnd.random() < 0.5:
            addr &= ~3
        if rnd.random() < 0.3:
            size = rnd.choice([1, 2, 4])
            op = rnd.choice(['MemUUnprivGet', 'MemUUnprivSet'])
            act = {'n': op, 'addr': limbs(addr), 'size': size}
            if op.endswith('Set'):
                act['val'] = [rnd.getrandbits(8) for _ in range(size)]
            g.add(st, act, meta={'op': op, 'addr': addr, 'ap': ap, 'mode': mode})
            continue
        name, pat = rnd.choice(UNPRIV_T32 if thumb else UNPRIV_ARM)
        n, t, m = rnd.sample([0, 1, 2, 3, 4, 5, 6, 7, 8, 9, 10, 11, 12], 3)
        w = G.fill(pat, rnd, fixed={'c': 14, 'n': n, 't': t, 'm': m, 'i': rnd.choice([0, 0, 1, 4, 8]), 'y': rnd.choice([1, 2, 3]) if name.startswith('x') else 0},
                   regfields='')
        bank = 'fiq' if mode == 17 and n >= 8 else 'usr'
        off = (w & 0xFF) if thumb else 0            # T1 is an offset form, the ARM forms are post-indexed
        st['R']['R%d%s' % (n, bank)] = limbs(addr - off)
        st['R']['R%d%s' % (m, 'fiq' if mode == 17 and m >= 8 else 'usr')] = limbs(rnd.choice([0, 4, 1, 8]))
        C.put_instr(st, pc, w, thumb)
        g.add(st, {'n': 'Step'}, meta={'gen': name, 'word': w, 'thumb': thumb, 'addr': addr, 'ap': ap, 'mode': mode})
    return [g]


def unpriv_filter(c, v, e):
    if c == 'hosterror':
        return True
    return v['path'].startswith(('exact', 'memapi')) and c not in ('range', 'nop-on-condfail')


def run(ctx):
    rnd = random.Random(ctx.seed)
    q = ctx.quick
    ctx.mc('MC_Cond', workers=4)
    # the SPECIFICATION's own steps satisfy the property on the decode skeleton (Props!SpecStepOK)
    ctx.mc('MC_Decode', constants={'MODES': '{16}'}, coverage=False)
    tasks = []
    for i in range(16):
        tasks.append((S.sweep_t16, dict(name='t16-%d' % i, seed=ctx.seed + i, lo=i * 4096, hi=(i + 1) * 4096,
                                         itpos='rotate' if q else [0, 1, 2], modes='usr', ns=True,
                                         mpu=(i % 4 == 3) and i % len(CONFIGS) != 2, cfg=CONFIGS[i % len(CONFIGS)][1])))
    nw = 1500 if q else 30000
    cw = S.class_word_list(ctx.seed, 3 if q else 30)
    for i in range(16):
        name, over = CONFIGS[i % len(CONFIGS)]
        tasks.append((S.sweep_words, dict(name='words-%s-%d' % (name, i), seed=ctx.seed + 100 + i, modes='usr', ns=True,
                                          mpu=(i % 8 >= 4) and name != 'vmsa-v7', cfg=over,
                                          words=S.random_words(random.Random(ctx.seed * 37 + i), nw, classes=cw))))
    for i in range(8):
        name, over = CONFIGS[i % len(CONFIGS)]
        tasks.append((program_task, dict(name='prog-%s-%d' % (name, i), seed=ctx.seed + 200 + i, modes='usr', ns=True,
                                         cfg=over, programs=20 if q else 300)))
    groups = C.parallel(_dispatch, tasks)
    res = C.judge_groups(ctx, groups, clause_filter, rnd=rnd,
                         tags_of=lambda g, e, v: {'cfg': g.name, 'out': e['out']})
    usr = sum(1 for g, e, v in res if (e['pre'].get('cpsr') or g.header()['h']['base']['cpsr'])[1] & 31 == 16)
    ctx.exhaustive = False
    ctx.extra['exhaustive_subspaces'] = ['all 2^16 16-bit Thumb words from User mode (x IT positions per tier)']
    ctx.extra['user_mode_events'] = usr
    ctx.extra['rule'] = ('all 2^16 16-bit Thumb words and random/pattern ARM and Thumb-32 words and random programs, '
                         'started in User mode, secure and non-secure, MPU off/on; clause "confine" of Trace_Step; LDRT/STRT/..HT/..BT words '
                         'and mem_u_unpriv calls in privileged modes against MPU regions that separate privileged from User rights '
                         '(aligned / unaligned x SCTLR.A/U x E), judged exactly')
    for g, e, v in res[:3]:
        ctx.sample({'group': g.name, 'word': g.meta.get(e['id']), 'out': e['out'], 'cls': e['cls'], 'delta': e['d'],
                    'verdict': v})
    ctx.distinct = {(g.name, e['id']) for g, e, v in res}
    # unprivileged load/store variants in privileged modes: checked with User permissions
    utasks = [(unpriv_task, dict(name='unpriv-v%d-%d' % (6 + i % 2, i), seed=ctx.seed + 900 + i, n=400 if q else 8000,
                                 cfg={'arch_version': 6 + i % 2})) for i in range(8)]
    # the same through the MMU: short-descriptor tables (sections, supersections with extended addresses, pages; AP/APX,
    # domains, DACR client / manager) accessed from User mode and by unprivileged translate_address() calls
    from . import c15
    utasks += [(c15.vmsa_task, dict(name='unpriv-vmsa-%d' % i, seed=ctx.seed + 950 + i, tables=3 if q else 60, per_table=40))
               for i in range(8)]
    ugroups = C.parallel(_dispatch, utasks)
    ures = C.judge_groups(ctx, ugroups, unpriv_filter, rnd=rnd, chunk=1500,
                          site_of=lambda e, v: e['act']['n'] if e['act']['n'] != 'Step' else (e.get('cls') or v['path']),
                          tags_of=lambda g, e, v: dict(g.meta.get(e['id'], {}), enc=v['path'].split(':')[-1], out=e['out']))
    uab = sum(1 for g, e, v in ures if e['out'] == 'dabort')
    uex = sum(1 for g, e, v in ures if v['path'].startswith(('exact', 'memapi')))
    ctx.extra['unprivileged_access_events'] = len(ures)
    ctx.extra['unprivileged_access_events_exact'] = uex
    ctx.extra['unprivileged_access_aborts'] = uab
    if uex < len(ures) // 3 or uab < len(ures) // 20:
        raise MachineryError('unprivileged-access task: %d events, %d exact, %d aborts' % (len(ures), uex, uab))
    ctx.distinct |= {(g.name, e['id']) for g, e, v in ures}


def replay(ctx, path):
    from ..replay import replay_step
    return replay_step(ctx, path)
