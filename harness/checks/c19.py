"""C19 - privilege confinement: whatever is executed in User mode, the processor stays in User mode with all
privileged state unchanged, or takes an architectural exception.  UserConfined (Trace_Step.tla) is evaluated on
the implementation's own pre/post state, so it needs no per-instruction oracle and covers every word."""
import random

from .. import campaign as C
from .. import sweeps as S
from .c18 import CONFIGS, _dispatch, program_task


def clause_filter(c, v, e):
    return c == 'confine'


def run(ctx):
    rnd = random.Random(ctx.seed)
    q = ctx.quick
    ctx.mc('MC_Cond', workers=4)
    # the SPECIFICATION's own steps satisfy the property on the decode skeleton (Props!SpecStepOK)
    ctx.mc('MC_Decode', constants={'MODES': '{16}'}, coverage=False)
    tasks = []
    for i in range(16):
        tasks.append((S.sweep_t16, dict(name='t16-%d' % i, seed=ctx.seed + i, lo=i * 4096, hi=(i + 1) * 4096,
                                         itpos='rotate' if q else [0, 1, 2], modes='usr', ns=True,
                                         mpu=(i % 4 == 3) and i % len(CONFIGS) != 2, cfg=CONFIGS[i % len(CONFIGS)][1])))
    nw = 1500 if q else 30000
    cw = S.class_word_list(ctx.seed, 3 if q else 30)
    for i in range(16):
        name, over = CONFIGS[i % len(CONFIGS)]
        tasks.append((S.sweep_words, dict(name='words-%s-%d' % (name, i), seed=ctx.seed + 100 + i, modes='usr', ns=True,
                                          mpu=(i % 8 >= 4) and name != 'vmsa-v7', cfg=over,
                                          words=S.random_words(random.Random(ctx.seed * 37 + i), nw, classes=cw))))
    for i in range(8):
        name, over = CONFIGS[i % len(CONFIGS)]
        tasks.append((program_task, dict(name='prog-%s-%d' % (name, i), seed=ctx.seed + 200 + i, modes='usr', ns=True,
                                         cfg=over, programs=20 if q else 300)))
    groups = C.parallel(_dispatch, tasks)
    res = C.judge_groups(ctx, groups, clause_filter, rnd=rnd,
                         tags_of=lambda g, e, v: {'cfg': g.name, 'out': e['out']})
    usr = sum(1 for g, e, v in res if (e['pre'].get('cpsr') or g.header()['h']['base']['cpsr'])[1] & 31 == 16)
    ctx.exhaustive = False
    ctx.extra['exhaustive_subspaces'] = ['all 2^16 16-bit Thumb words from User mode (x IT positions per tier)']
    ctx.extra['user_mode_events'] = usr
    ctx.extra['rule'] = ('all 2^16 16-bit Thumb words and random/pattern ARM and Thumb-32 words and random programs, '
                         'started in User mode, secure and non-secure, MPU off/on; clause "confine" of Trace_Step')
    for g, e, v in res[:3]:
        ctx.sample({'group': g.name, 'word': g.meta.get(e['id']), 'out': e['out'], 'cls': e['cls'], 'delta': e['d'],
                    'verdict': v})
    ctx.distinct = {(g.name, e['id']) for g, e, v in res}


def replay(ctx, path):
    from ..replay import replay_step
    return replay_step(ctx, path)
