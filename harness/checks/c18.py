"""C18 - stepping is total: no instruction word or state makes the emulator fail with a host error."""
import random

from .. import campaign as C
from .. import decodecheck as D
from .. import sweeps as S

CONFIGS = [
    ('pmsa-v6', {}),
    ('pmsa-v7', {'arch_version': 7}),
    ('vmsa-v7', {'arch_version': 7, 'memory_system_architecture': 'VMSA'}),
    ('pmsa-v6-nosec', {'have_security_ext': False}),
]


def clause_filter(c, v, e):
    return c == 'hosterror' or (c == 'outcome' and v['path'].startswith('exact'))


def program_task(task):
    """random multi-instruction programs: several steps on one instance without re-injecting the state"""
    rnd = random.Random(task['seed'])
    g = S.mk_group(task)
    for p in range(task['programs']):
        thumb = rnd.random() < 0.5
        st, pc = S.prep(g, rnd, task, thumb, 0, p)
        pc = 16
        st['R']['PC'] = C.limbs(pc)
        words = S.random_words(rnd, 40)
        off = pc
        for th, w in words:
            if th != thumb or off > 200:
                continue
            C.put_instr(st, off, w, thumb)
            off += 4 if (not thumb or w >> 16) else 2
        e, post = g.add(st, {'n': 'Step'}, meta={'program': p, 'step': 0})
        for k in range(1, rnd.randrange(5, 20)):
            cur = C.M.project(g.arm)
            pcv = C.unlimbs(cur['R']['PC']) if cur['R']['PC'][0] >= 0 else None
            if pcv is None or pcv > 240 or e['out'].startswith('hosterror') or e['out'] == 'notimpl':
                break
            cur = {k2: cur[k2] for k2 in ('R', 'cpsr', 'spsr', 'elr', 'sys', 'mem', 'ev')}
            e, post = g.add(cur, {'n': 'Step'}, meta={'program': p, 'step': k})
    return [g]


HI_MEM = [{'mem_type': 'RAM', 'beginning': 0, 'end': 256}, {'mem_type': 'RAM', 'beginning': 0xFFFFFF00, 'end': 0x100000000}]


def top_exception_task(task):
    """two-step histories at the edge of the address space: an exception-raising instruction in the last instruction slots
    below 2^32 (return-address arithmetic wraps there), then - without re-preparing the object - the first instruction of the
    handler, which stores / saves the return state the entry just produced (PUSH {lr}, STR lr, SRS, STM, MOV, MRS)"""
    rnd = random.Random(task['seed'])
    g = S.mk_group(dict(task, cfg=dict(task.get('cfg') or {}, memory_list=HI_MEM)))
    raisers_arm = [0xE7F000F0, 0xEF000000, 0xE7FFFFFF, 0xE1200070, 0xEE000010, 0xE1600070, 0xE5910001]
    raisers_t16 = [0xDE00, 0xDF00, 0xBE00, 0xB658 | 0x0600]
    raisers_t32 = [0xF7F0A000, 0xEE000010, 0xF7F08000]
    handlers = [0xE92D4000, 0xE52DE004, 0xE58DE000, 0xE1A0000E, 0xE10F0000, 0xE14F1000, 0xE88D4001, 0xE1B0F00E]
    for k in range(task['n']):
        thumb = rnd.random() < 0.5
        st, pc = S.prep(g, rnd, dict(task, modes='all'), thumb, 0, k)
        sct = C.unlimbs(st['sys']['SCTLR']) & ~((1 << 13) | (1 << 30) | 1 | 2)
        st['sys']['SCTLR'] = C.limbs(sct | (2 if rnd.random() < 0.5 else 0) | (1 << 22))
        st['sys']['VBAR'] = C.limbs(0x80)
        st['sys']['MVBAR'] = C.limbs(0xA0)
        for r in st['R']:
            if r.startswith('SP'):
                st['R'][r] = C.limbs(0x40 + 8 * rnd.randrange(4))
        st['R']['R1usr'] = C.limbs(0x41)                      # misaligned pointer: LDR r0,[r1,#1] aborts when SCTLR.A = 1
        mem0 = st['mem']['base'][0]
        for off in range(0x80, 0xC0, 4):
            h = rnd.choice(handlers)
            mem0[off:off + 4] = [(h >> (8 * i)) & 0xFF for i in range(4)]
        if thumb:
            w = rnd.choice(raisers_t16 + raisers_t32)
            off = rnd.choice([0xFE, 0xFC, 0xFA, 0xF8]) if not (w >> 16) else rnd.choice([0xFC, 0xFA, 0xF8])
        else:
            w = rnd.choice(raisers_arm)
            off = rnd.choice([0xFC, 0xF8, 0xF4])
        st['R']['PC'] = C.limbs(0xFFFFFF00 + off)
        C.put_instr(st, off, w, thumb, dev=1)
        e, post = g.add(st, {'n': 'Step'}, meta={'word': w, 'thumb': thumb, 'top': 1})
        for step in range(2):
            if e['out'].startswith('hosterror') or e['out'] == 'notimpl':
                break
            cur = C.M.project(g.arm)
            cur = {k2: cur[k2] for k2 in ('R', 'cpsr', 'spsr', 'elr', 'sys', 'mem', 'ev')}
            e, post = g.add(cur, {'n': 'Step'}, meta={'word': w, 'thumb': thumb, 'top': 2 + step})
    return [g]


def run(ctx):
    rnd = random.Random(ctx.seed)
    q = ctx.quick
    ctx.mc('MC_Cond', workers=4)
    # the SPECIFICATION's own steps satisfy the property on the decode skeleton (Props!SpecStepOK)
    ctx.mc('MC_Decode', constants={'MODES': '{19}' if q else '{16, 19}'}, coverage=False)
    tasks = []
    # all 2^16 16-bit Thumb words; quick: one IT position per word (rotating), thorough: all three
    for i in range(16):
        tasks.append((S.sweep_t16, dict(name='t16-%d' % i, seed=ctx.seed + i, lo=i * 4096, hi=(i + 1) * 4096,
                                         itpos='rotate' if q else [0, 1, 2], modes='priv4',
                                         mpu=(i % 4 == 3), cfg=CONFIGS[i % len(CONFIGS)][1])))
    nw = 1500 if q else 30000
    cw = S.class_word_list(ctx.seed, 3 if q else 30)
    for i in range(16):
        name, over = CONFIGS[i % len(CONFIGS)]
        tasks.append((S.sweep_words, dict(name='words-%s-%d' % (name, i), seed=ctx.seed + 100 + i, modes='priv4',
                                          mpu=(i % 8 >= 4), cfg=over,
                                          words=S.random_words(random.Random(ctx.seed * 31 + i), nw, classes=cw))))
    for i in range(8):
        name, over = CONFIGS[i % len(CONFIGS)]
        tasks.append((program_task, dict(name='prog-%s-%d' % (name, i), seed=ctx.seed + 200 + i, modes='priv4',
                                         cfg=over, programs=20 if q else 300)))
    for i in range(4):
        name, over = CONFIGS[i % len(CONFIGS)]
        tasks.append((top_exception_task, dict(name='top-%s-%d' % (name, i), seed=ctx.seed + 400 + i, cfg=over, n=250 if q else 6000)))
    # memory accesses that go through an enabled MMU / MPU: every descriptor kind of the short- and long-descriptor walks,
    # MPU region tables, faulting and non-faulting - the translation code must not die on any of them either
    from . import c14, c15
    for i in range(4):
        tasks.append((c15.vmsa_task, dict(name='xl-vmsa-%d' % i, seed=ctx.seed + 300 + i, tables=2 if q else 40, per_table=40)))
        tasks.append((c15.vmsa_ld_task, dict(name='xl-lpae-%d' % i, seed=ctx.seed + 320 + i, tables=2 if q else 30, per_table=40)))
        tasks.append((c15.vmsa_s2_task, dict(name='xl-s2-%d' % i, seed=ctx.seed + 360 + i, tables=2 if q else 30, per_table=40)))
        tasks.append((c15.vmsa_hyp_task, dict(name='xl-hyp-%d' % i, seed=ctx.seed + 380 + i, tables=1 if q else 20, per_table=40)))
        tasks.append((c14.instr_task, dict(name='xl-mpu-instr-%d' % i, seed=ctx.seed + 340 + i, n=300 if q else 8000, modes='all',
                                           cfg={'arch_version': 6 + i % 2})))
    groups = C.parallel(_dispatch, tasks)
    ctx.extra['translated_access_events'] = sum(len(g.events) for g in groups if g.name.startswith('xl-'))
    res = C.judge_groups(ctx, groups, clause_filter, rnd=rnd, chunk=1500,
                         site_of=lambda e, v: (e.get('tb', '').split(' ')[0] or e.get('cls') or v['path']),
                         tags_of=lambda g, e, v: dict(D.tags_of(g, e, v), cfg=g.name.split('-')[1] if '-' in g.name else g.name,
                                                      tb=e.get('tb', ''), out=e['out']))
    t16 = sum(len(g.events) for g in groups if g.name.startswith('t16-'))
    ctx.exhaustive = False
    ctx.extra['exhaustive_subspaces'] = ['all 2^16 16-bit Thumb words (x IT positions per tier)']
    ctx.extra['t16_words_x_itpos_events'] = t16
    ctx.extra['rule'] = ('all 2^16 16-bit Thumb words (quick: one IT position per word, thorough: outside / inside / '
                         'last), random + pattern-filled ARM and 32-bit Thumb words, random programs; modes usr/svc/'
                         'fiq/mon; configurations %s; MPU off and permissive-on; translate_address() and LDR/STR through random short- and '
                         'long-descriptor page tables, two-stage (HCR.VM) and Hyp-regime translations, load/store words against random MPU region tables; every event judged by Trace_Step '
                         '(clauses hosterror, outcome)' % [c[0] for c in CONFIGS])
    outs = {}
    for g, e, v in res:
        outs[e['out'].split(':')[0]] = outs.get(e['out'].split(':')[0], 0) + 1
    ctx.extra['outcome_classes'] = outs
    for g, e, v in res[:2] + res[-1:]:
        ctx.sample({'group': g.name, 'word': g.meta.get(e['id']), 'out': e['out'], 'cls': e['cls'], 'verdict': v})
    ctx.distinct = {(g.name, e['id']) for g, e, v in res}


def _dispatch(arg):
    fn, task = arg
    return fn(task)


def replay(ctx, path):
    from ..replay import replay_step
    return replay_step(ctx, path)
