"""C17 - bit-vector primitives and register field views.

TLC on the spec: MC_BV (bit-string transcription = arithmetic formulation, widths 1..8, all operands,
all amounts) and MC_W32 (limb library = reference, exhaustive at limb width 4).
Code -> spec: every helper of bits_ops.py / shift.py is called on every operand tuple at widths 1..8
(quick 1..6), all 2^12 x 2 modified immediates, all (type, imm5), and K32/random x every amount 0..255 at
width 32; each call is one event judged by Trace_BV.tla.  Field views: Trace_Fields.tla.
"""
import itertools
import random

from .. import tlc
from ..tlc import MachineryError
from ..core import log
from ..words import K32, limbs, unlimbs, rand32


def _call(fn, *a):
    try:
        r = fn(*a)
    except Exception as ex:                       # host error: reported as clause "hosterror"
        return None, 'exc:' + type(ex).__name__
    return r, 'ok'


def _canon(r):
    if isinstance(r, tuple):
        return [_canon1(x) for x in r]
    return [_canon1(r)]


def _canon1(x):
    if isinstance(x, bool):
        return int(x)
    if hasattr(x, 'name'):
        return x.name
    return x


def gen_small(ctx, wmax, amounts):
    """Exhaustive operand tuples at widths 1..wmax (plain ints)."""
    from armulator.armv6 import bits_ops as bo, shift as sh
    T = {t.name: t for t in sh.SRType}
    for w in range(1, wmax + 1):
        full = range(2 ** w)
        for x in full:
            for s in amounts:
                if s >= 1:
                    for op, fn in (('lsl_c', sh.lsl_c), ('lsr_c', sh.lsr_c), ('asr_c', sh.asr_c), ('ror_c', sh.ror_c)):
                        yield op, w, [x, s], _call(fn, x, w, s)
                for op, fn in (('lsl', sh.lsl), ('lsr', sh.lsr), ('asr', sh.asr), ('ror', sh.ror)):
                    yield op, w, [x, s], _call(fn, x, w, s)
                for c in (0, 1):
                    for t in ('LSL', 'LSR', 'ASR', 'ROR'):
                        yield 'shift_c', w, [x, t, s, c], _call(sh.shift_c, x, w, T[t], s, c)
            for c in (0, 1):
                yield 'rrx_c', w, [x, c], _call(sh.rrx_c, x, w, c)
                yield 'rrx', w, [x, c], _call(sh.rrx, x, w, c)
                yield 'shift_c', w, [x, 'RRX', 1, c], _call(sh.shift_c, x, w, T['RRX'], 1, c)
                yield 'shift', w, [x, 'RRX', 1, c], _call(sh.shift, x, w, T['RRX'], 1, c)
            for y in full:
                for c in (0, 1):
                    yield 'add_with_carry', w, [x, y, c], _call(bo.add_with_carry, x, y, c, w)
                yield 'add', w, [x, y], _call(bo.add, x, y, w)
                yield 'sub', w, [x, y], _call(bo.sub, x, y, w)
            for m in range(w, w + 5):
                yield 'sign_extend', w, [x, m], _call(bo.sign_extend, x, w, m)
            yield 'to_signed', w, [x], _call(bo.to_signed, x, w)
            yield 'bit_not', w, [x], _call(bo.bit_not, x, w)
            yield 'is_ones', w, [x], _call(bo.is_ones, x, w)
            yield 'lowest_set_bit_ref', w, [x], _call(bo.lowest_set_bit_ref, x, w)
            for b in (0, 1):
                yield 'bit_count', w, [x, b], _call(bo.bit_count, x, b, w)
            for hi in range(w):
                yield 'bit_at', w, [x, hi], _call(bo.bit_at, x, hi)
                for b in (0, 1):
                    yield 'set_bit_at', w, [x, hi, b], _call(bo.set_bit_at, x, hi, b)
                for lo in range(hi + 1):
                    yield 'substring', w, [x, hi, lo], _call(bo.substring, x, hi, lo)
                    fw = hi - lo + 1
                    for v in sorted({0, 1, 2 ** fw - 1, (2 ** fw) // 3}):
                        if v < 2 ** fw:
                            yield 'set_substring', w, [x, hi, lo, v], _call(bo.set_substring, x, hi, lo, v)
            for y in (1, 2, 4, 8):
                yield 'align', w, [x, y], _call(bo.align, x, y)
            for ll in range(0, 5):
                for lo in (0, 2 ** ll - 1):
                    yield 'chain', w, [x, lo, ll], _call(bo.chain, x, lo, ll)
        # integers (signed) into saturation / to_unsigned at width w
        lim = 2 ** (w + 1) + 2
        for i in range(-lim, lim + 1):
            yield 'signed_sat_q', w, [i], _call(bo.signed_sat_q, i, w)
            yield 'unsigned_sat_q', w, [i], _call(bo.unsigned_sat_q, i, w)
            yield 'signed_sat', w, [i], _call(bo.signed_sat, i, w)
            yield 'unsigned_sat', w, [i], _call(bo.unsigned_sat, i, w)
            for u in (0, 1):
                yield 'sat_q', w, [i, u], _call(bo.sat_q, i, w, bool(u))
                yield 'sat', w, [i, u], _call(bo.sat, i, w, bool(u))
            yield 'to_unsigned', w, [i], _call(bo.to_unsigned, i, w)
            if i >= 0:
                yield 'lower_chunk', w, [i], _call(bo.lower_chunk, i, w)
    for x in range(256):
        yield 'big_endian_reverse', 8, [x], _call(bo.big_endian_reverse, x, 1)
    for x in list(range(0, 65536, 97)) + [0xff00, 0x00ff, 0xffff, 0x1234]:
        yield 'big_endian_reverse', 16, [x], _call(bo.big_endian_reverse, x, 2)
    for ty in range(4):
        for imm5 in range(32):
            yield 'decode_imm_shift', 32, [ty, imm5], _call(sh.decode_imm_shift, ty, imm5)
        yield 'decode_reg_shift', 32, [ty], _call(sh.decode_reg_shift, ty)


def _l(r):
    """result canonicalisation for width-32 ops: first component is a word"""
    return r


def gen_32(ctx, rnd, nrand, amounts):
    from armulator.armv6 import bits_ops as bo, shift as sh
    T = {t.name: t for t in sh.SRType}
    for imm12 in range(4096):
        for c in (0, 1):
            yield 'arm_expand_imm_c', 32, [imm12, c], _w1(_call(sh.arm_expand_imm_c, imm12, c))
            yield 'thumb_expand_imm_c', 32, [imm12, c], _w1(_call(sh.thumb_expand_imm_c, imm12, c))
    vals = list(K32) + [rand32(rnd) for _ in range(nrand)]
    for x in vals:
        X = limbs(x)
        for s in amounts:
            if s >= 1:
                for op, fn in (('lsl_c32', sh.lsl_c), ('lsr_c32', sh.lsr_c), ('asr_c32', sh.asr_c), ('ror_c32', sh.ror_c)):
                    yield op, 32, [X, s], _w1(_call(fn, x, 32, s))
            for c in (0, 1):
                for t in ('LSL', 'LSR', 'ASR', 'ROR'):
                    yield 'shift_c32', 32, [X, t, s, c], _w1(_call(sh.shift_c, x, 32, T[t], s, c))
        for c in (0, 1):
            yield 'rrx_c32', 32, [X, c], _w1(_call(sh.rrx_c, x, 32, c))
            yield 'shift_c32', 32, [X, 'RRX', 1, c], _w1(_call(sh.shift_c, x, 32, T['RRX'], 1, c))
        yield 'big_endian_reverse32', 32, [X], _w1(_call(bo.big_endian_reverse, x, 4))
        yield 'bit_not32', 32, [X], _w1(_call(bo.bit_not, x, 32))
        yield 'lowest_set_bit_ref32', 32, [X], _call(bo.lowest_set_bit_ref, x, 32)
        for b in (0, 1):
            yield 'bit_count32', 32, [X, b], _call(bo.bit_count, x, b, 32)
        for i in (0, 1, 15, 16, 30, 31):
            yield 'bit_at32', 32, [X, i], _call(bo.bit_at, x, i)
        for hi, lo in ((31, 28), (31, 16), (15, 0), (19, 16), (23, 8), (11, 0), (27, 20), (7, 4), (31, 31), (16, 15)):
            yield 'substring32', 32, [X, hi, lo], _call(bo.substring, x, hi, lo)
    pairs = list(itertools.product(K32, K32)) + [(rand32(rnd), rand32(rnd)) for _ in range(nrand * 8)]
    for x, y in pairs:
        for c in (0, 1):
            yield 'add_with_carry32', 32, [limbs(x), limbs(y), c], _w1(_call(bo.add_with_carry, x, y, c, 32))
        yield 'add32', 32, [limbs(x), limbs(y)], _w1(_call(bo.add, x, y, 32))
        yield 'sub32', 32, [limbs(x), limbs(y)], _w1(_call(bo.sub, x, y, 32))
    for n in range(1, 17):
        for x in sorted({0, 1, 2 ** (n - 1), 2 ** (n - 1) - 1, 2 ** n - 1, rnd.randrange(2 ** n)}):
            yield 'sign_extend32', 32, [x, n], _w1(_call(bo.sign_extend, x, n, 32))
    k64 = [0, 1, 2 ** 63, 2 ** 63 - 1, 2 ** 64 - 1, 2 ** 32, 2 ** 32 - 1, 0x0123456789abcdef, 0x8000000080000000]
    k64 += [rnd.getrandbits(64) for _ in range(nrand)]
    for x in k64:
        yield 'big_endian_reverse64', 64, [quad(x)], _q1(_call(bo.big_endian_reverse, x, 8))
    for x, y in itertools.product(k64[:12], k64[:12]):
        for c in (0, 1):
            yield 'add_with_carry64', 64, [quad(x), quad(y), c], _q1(_call(bo.add_with_carry, x, y, c, 64))


def quad(x):
    if not isinstance(x, int) or isinstance(x, bool) or x < 0 or x >= 2 ** 64:
        return [-1, 0, 0, 0]
    return [(x >> 48) & 0xffff, (x >> 32) & 0xffff, (x >> 16) & 0xffff, x & 0xffff]


def _w1(rs):
    r, st = rs
    if st != 'ok':
        return rs
    if isinstance(r, tuple):
        return (limbs(r[0]),) + tuple(r[1:]), st
    return limbs(r), st


def _q1(rs):
    r, st = rs
    if st != 'ok':
        return rs
    if isinstance(r, tuple):
        return (quad(r[0]),) + tuple(r[1:]), st
    return quad(r), st


def events(ctx, gen):
    k = 0
    for op, w, args, (r, st) in gen:
        k += 1
        if st == 'ok' and r is None:
            st = 'exc:None'
        yield [k, op, w, args, _canon(r) if st == 'ok' else [], st]


def run(ctx):
    rnd = random.Random(ctx.seed)
    q = ctx.quick
    # ---- TLC on the spec ----
    ctx.mc('MC_BV', constants={'NMAX': '6' if q else '8', 'SMAX': '40' if q else '255'})
    ctx.mc('MC_W32', constants={'SMAX': '40' if q else '255', 'YSTEP': '9' if q else '1'})
    # ---- Apalache: the limb operators TLC runs = the mathematical definition, for ALL 32-bit operands ----
    from .. import apalache
    lem = apalache.run_lemmas(['AddInv', 'SubInv', 'CmpInv', 'LslInv', 'LsrInv', 'BitInv', 'TopMaskInv', 'CanaryFalseInv'])
    bad = [r['inv'] for r in lem if r['ok'] != (r['inv'] != 'CanaryFalseInv')]
    if bad:
        raise MachineryError('Apalache lemmas of spec/apa/APA_W32.tla: unexpected result for %s (the limb library W32.tla '
                             'disagrees with the integer definition, or the false canary lemma was accepted)' % bad)
    ctx.extra['apalache_lemmas'] = {r['inv']: ('refuted (expected: canary)' if not r['ok'] else 'proved for all 2^32 x 2^32 operands, %.0fs' % r['seconds'])
                                    for r in lem}
    log('  Apalache: %s' % ', '.join('%s %s' % (r['inv'], 'ok' if r['ok'] else 'refuted') for r in lem))
    # ---- code -> spec ----
    amounts = (list(range(0, 20)) + [31, 32, 33, 63, 64, 65, 127, 128, 255]) if q else list(range(256))
    wmax = 6 if q else 8
    evs = list(events(ctx, itertools.chain(gen_small(ctx, wmax, amounts),
                                           gen_32(ctx, rnd, 8 if q else 64, amounts if q else list(range(256))))))
    log('  %d helper-call events' % len(evs))
    # binding canaries: corrupt the result of a few real events
    can = []
    picks = rnd.sample(range(len(evs)), 24)
    for j, ix in enumerate(picks):
        e = [len(evs) + j + 1] + [x if not isinstance(x, list) else list(x) for x in evs[ix][1:]]
        if e[5] != 'ok':
            continue
        r0 = e[4][0]
        if isinstance(r0, list):
            e[4] = [[r0[0], r0[1] ^ 1]] + e[4][1:]
        elif isinstance(r0, int):
            e[4] = [r0 ^ 1] + e[4][1:]
        else:
            e[4] = ['ASR' if r0 != 'ASR' else 'LSL'] + e[4][1:]
        can.append(e)
    verdicts = tlc.validate('Trace_BV', evs + can, chunk=60000)
    ctx.events += len(evs)
    ctx.exhaustive = False
    ctx.extra['exhaustive_subspaces'] = ['every helper on every operand tuple at widths 1..%d' % wmax, 'all 4096 x 2 modified immediates', 'all (type, imm5)']
    ctx.extra['rule'] = ('every helper of bits_ops.py/shift.py on EVERY operand tuple at widths 1..%d and amounts %s; '
                         'all 4096x2 ARM and Thumb modified immediates; all 128 (type,imm5); width 32: K32 corners + '
                         'seeded random x every amount; a case is one (helper, width, argument tuple), all distinct'
                         % (wmax, '0..255' if not q else '0..19,31..33,63..65,127,128,255'))
    byid = {v['id']: v for v in verdicts}
    for e in evs:
        v = byid[e[0]]
        ctx.paths[e[1]] = ctx.paths.get(e[1], 0) + 1
        if v['v']:
            tags = {'op': e[1], 'w': e[2]}
            if e[1] == 'thumb_expand_imm_c':
                tags['rotated'] = e[3][0] >= 1024
            ctx.judge(e[1], v['v'], tags, {'event': e}, what='args=%s got=%s' % (e[3], e[4]))
    for e in can:
        ctx.canary(bool(byid[e[0]]['v']))
    for e in (evs[0], evs[len(evs) // 2], evs[-1]):
        ctx.sample({'event [id, helper, width, args, result, status]': e, 'verdict': byid[e[0]]['v']})
    ctx.distinct = set(range(len(evs)))
    from . import c17_fields
    c17_fields.run(ctx, rnd)
    ctx.assumptions += [
        'BV.tla is a faithful transcription of the ARM ARM pseudocode library (two independent formulations per '
        'primitive are compared by TLC; W32.tla is linked to it exhaustively at limb width 4)',
        'width-32/64 operands are corner + seeded random samples, not enumerated',
    ]


def replay(ctx, path):
    """re-execute the recorded helper call / field access on /repo's current tree (the generators are re-run with the
    recorded seed and tier until the same (helper, width, arguments) comes up) and have TLC judge the fresh result"""
    import json
    from ..core import out
    rec = json.load(open(path))
    case = rec['case']
    old = case['event']
    rnd = random.Random(rec.get('seed', ctx.seed))
    q = rec.get('tier', 'quick') == 'quick'
    fresh = None
    if 'cls' in case:
        from . import c17_fields
        for e in c17_fields.gen(ctx, rnd):
            if e[1:6] == old[1:6]:
                fresh, mod = e[:8], 'Trace_Fields'
                break
    else:
        amounts = (list(range(0, 20)) + [31, 32, 33, 63, 64, 65, 127, 128, 255]) if q else list(range(256))
        gens = itertools.chain(gen_small(ctx, 6 if q else 8, amounts), gen_32(ctx, rnd, 8 if q else 64, amounts if q else list(range(256))))
        for e in events(ctx, gens):
            if e[1:4] == old[1:4]:
                fresh, mod = e, 'Trace_BV'
                break
    if fresh is None:
        raise tlc.MachineryError('the recorded case %s was not regenerated' % old[1:4])
    v = tlc.validate(mod, [fresh])
    out(json.dumps({'recorded': old, 'now': fresh, 'verdict': v}, indent=1))
    still = [c for c in v[0]['v'] if c in rec['clauses'] or rec['clauses'] == ['hosterror']]
    if still or (len(fresh) > 8 and rec['clauses'] == ['hosterror']):
        out('VIOLATION property=C17 replay=%s' % path)
        return 1
    return 0
