"""C13 - memory access model: endianness, alignment policy, exact byte footprint.
MC_Mem (TLC): Mem.tla against the property's decision table on the whole matrix.  Conformance: the same matrix
(size x offset x E x A x U x arch x MemA/MemU x get/set x priv, several data values) is executed through the real
mem_a_get/set, mem_u_get/set, mem_u_unpriv_get/set and judged by TLC (Trace_Step!MemApiVerdict) incl. the RAM diff;
loads/stores through instructions are C02; instruction fetch under CPSR.E = 1 is exercised by Step events."""
import random

from .. import campaign as C
from .. import isa_gen as G
from .. import sweeps as S
from ..words import limbs
from .c18 import _dispatch


def matrix_task(task):
    rnd = random.Random(task['seed'])
    g = S.mk_group(dict(task, randmem=task['seed']))
    ops = ['MemAGet', 'MemUGet', 'MemUUnprivGet', 'MemASet', 'MemUSet', 'MemUUnprivSet']
    for size in (1, 2, 4, 8):
        for off in range(8):
            for e in (0, 1):
                for a in (0, 1):
                    for u in (0, 1):
                        for op in ops:
                            for rep in range(task['reps']):
                                st = g.fresh()
                                mode = rnd.choice([16, 19, 31, 17])
                                C.randomize(st, rnd, mode=mode, thumb=rnd.random() < 0.5, e=e)
                                sct = C.unlimbs(g.base['sys']['SCTLR']) & ~((1 << 22) | 2 | 1)
                                st['sys']['SCTLR'] = limbs(sct | (u << 22) | (a << 1))
                                base = rnd.choice([40, 104, 200, 0, 240, 0xFFFFFFF8 if rep % 3 == 2 else 72]) if not task.get('seam') else \
                                    rnd.choice([task['seam'], task['seam'], task['seam'] - 8, task['seam'] - 16, 40, task['seam'] + 8])
                                addr = (base + off) & 0xFFFFFFFF
                                act = {'n': op, 'addr': limbs(addr), 'size': size}
                                if op.endswith('Set'):
                                    act['val'] = [rnd.getrandbits(8) for _ in range(size)]
                                g.add(st, act, meta={'size': size, 'off': off, 'e': e, 'a': a, 'u': u, 'op': op, 'addr': addr})
    return [g]


def fetch_task(task):
    """instruction fetch with CPSR.E = 1: MOV/ADD immediates must still decode from little-endian bytes"""
    rnd = random.Random(task['seed'])
    g = S.mk_group(task)
    for k in range(task['n']):
        thumb = rnd.random() < 0.5
        st, pc = S.prep(g, rnd, task, thumb, 0, k)
        st['cpsr'] = limbs(C.unlimbs(st['cpsr']) | 0x200)
        r = rnd.random()
        if not thumb:
            w = (0xE3A00000 | (rnd.getrandbits(4) << 12) | rnd.getrandbits(8)) if r < 0.5 else \
                ((G.fill(rnd.choice(G.ARM_DP)[1], rnd) & 0x0FFFFFFF) | 0xE0000000)
        elif r < 0.4:
            w = 0x2000 | rnd.getrandbits(11)
        elif r < 0.7:
            # 32-bit Thumb: both halfwords are fetched as instruction halfwords (MOVW: every bit of hw2 matters)
            imm = rnd.getrandbits(16)
            w = ((0xF240 | ((imm >> 11) & 1) << 10 | (imm >> 12)) << 16) | (((imm >> 8) & 7) << 12) | (rnd.randrange(13) << 8) | (imm & 0xFF)
        else:
            w = G.fill(rnd.choice(G.T32_DP)[1], rnd)
        C.put_instr(st, pc, w, thumb)
        g.add(st, {'n': 'Step'}, meta={'word': w, 'op': 'fetchE1'})
    return [g]


def clause_filter(c, v, e):
    return v['path'].startswith('memapi') or v['path'].startswith('exact') or c == 'hosterror'


def run(ctx):
    rnd = random.Random(ctx.seed)
    q = ctx.quick
    ctx.mc('MC_Mem', coverage=False)
    tasks = []
    for i, arch in enumerate((5, 6, 7)):
        tasks.append((matrix_task, dict(name='mem-v%d' % arch, seed=ctx.seed + i, reps=2 if q else 12, cfg={'arch_version': arch})))
        tasks.append((matrix_task, dict(name='mem-v%d-hi' % arch, seed=ctx.seed + 10 + i, reps=1 if q else 6,
                                        cfg={'arch_version': arch, 'memory_list': [
                                            {'mem_type': 'RAM', 'beginning': 0, 'end': 256},
                                            {'mem_type': 'RAM', 'beginning': 0xFFFFFF00, 'end': 0x100000000}]})))
    # two directly adjacent devices: accesses that end at, start at and sit on either side of the seam, in random order
    # (whatever the hub remembers about the device of the previous access must not matter)
    for i, arch in enumerate((6, 7)):
        tasks.append((matrix_task, dict(name='mem-v%d-seam' % arch, seed=ctx.seed + 20 + i, reps=2 if q else 10, seam=128,
                                        cfg={'arch_version': arch, 'memory_list': [
                                            {'mem_type': 'RAM', 'beginning': 0, 'end': 128},
                                            {'mem_type': 'RAM', 'beginning': 128, 'end': 256}]})))
    tasks.append((fetch_task, dict(name='fetch-e1', seed=ctx.seed + 50, n=400 if q else 5000, modes='all')))
    groups = C.parallel(_dispatch, tasks)
    res = C.judge_groups(ctx, groups, clause_filter, rnd=rnd,
                         site_of=lambda e, v: e['act']['n'],
                         tags_of=lambda g, e, v: dict(g.meta.get(e['id'], {}), grp=g.name))
    ctx.exhaustive = True
    ctx.extra['rule'] = ('size {1,2,4,8} x offset 0..7 x CPSR.E x SCTLR.A x SCTLR.U x arch {5,6,7} x {mem_a,mem_u,mem_u_unpriv} '
                         'x {get,set} x random modes/data/base addresses (incl. the top of the address space); value read, '
                         'every RAM byte, DFSR/DFAR and the outcome (completed / data abort) judged by TLC against Mem.tla')
    for g, e, v in res[:2] + res[-1:]:
        ctx.sample({'group': g.name, 'meta': g.meta.get(e['id']), 'act': e['act'], 'out': e['out'], 'res': e.get('res'),
                    'delta': e['d'], 'verdict': {k: v[k] for k in ('v', 'path')}})
    ctx.distinct = {(g.name, e['id']) for g, e, v in res}


def replay(ctx, path):
    from ..replay import replay_step
    return replay_step(ctx, path)
