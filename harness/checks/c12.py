"""C12 - system instructions: PSR write masks, exception return, hints (coprocessor gating: see evidence).

MC_PSR (TLC): CPSRWriteByInstr/SPSRWriteByInstr against the property over mask x return flag x mode x new mode x
security state x NMFI x AW/FW x RFR x extensions.  MC_Return (TLC): exception entry followed by the standard return
resumes the interrupted program.  Conformance: (1) the real cpsr_write_by_instr / spsr_write_by_instr on the same
matrix with random values; (2) MSR/MRS/CPS/SETEND/hints/SUBS PC,LR/RFE/SRS/LDM^/STM^/SVC/SMC words through
emulate_cycle(); (3) entry + return programs executed step by step; every step judged by TLC on the full state."""
import random

from .. import campaign as C
from .. import isa_gen as G
from .. import sweeps as S
from .. import tlc
from ..tlc import MachineryError
from ..words import limbs, rand32
from .c11 import EXT_CFG, bit
from .c18 import _dispatch

MODES_BY_EXT = {(False, False): [16, 17, 18, 19, 23, 27, 31], (True, False): [16, 17, 18, 19, 22, 23, 27, 31],
                (True, True): [16, 17, 18, 19, 22, 23, 26, 27, 31]}


def psr_api_task(task):
    rnd = random.Random(task['seed'])
    ext = task['ext']
    g = S.mk_group(dict(task, cfg=EXT_CFG[ext]))
    for mode in MODES_BY_EXT[ext]:
        for mask in range(16):
            for ret in (False, True):
                for rep in range(task['reps']):
                    st = g.fresh()
                    C.randomize(st, rnd, mode=mode, thumb=rnd.random() < 0.5, it=rnd.choice([0, 0x48, 0x64]))
                    ns = 1 if mode == 26 else (rnd.getrandbits(1) if ext[0] else 0)
                    scr = (rnd.getrandbits(10) & ~0x31) | ns | (rnd.getrandbits(1) << 5) | (rnd.getrandbits(1) << 4)
                    st['sys']['SCR'] = limbs(scr if ext[0] else 0)
                    sct = C.unlimbs(g.base['sys']['SCTLR']) & ~(1 << 27)
                    st['sys']['SCTLR'] = limbs(sct | (rnd.getrandbits(1) << 27))
                    st['sys']['NSACR'] = limbs(rnd.getrandbits(1) << 19)
                    old = C.unlimbs(st['cpsr'])
                    r = rnd.random()
                    if r < 0.4:
                        val = (~old) & 0xFFFFFFFF
                    elif r < 0.7:
                        val = rand32(rnd)
                    else:
                        val = ((~old) & 0xFFFFFFE0) | rnd.choice([16, 17, 18, 19, 22, 23, 26, 27, 31, 0, 20, 21, 24, 25, 28, 30])
                    if rnd.random() < 0.5:
                        val = (val & ~31) | rnd.randrange(32)
                    api = 'CpsrWrite' if rep % 3 else 'SpsrWrite'
                    act = {'n': api, 'val': limbs(val), 'mask': mask}
                    if api == 'CpsrWrite':
                        act['ret'] = ret
                    g.add(st, act, meta={'mode': mode, 'mask': mask, 'ret': ret, 'ns': ns})
    return [g]


def sys_instr_task(task):
    rnd = random.Random(task['seed'])
    ext = task['ext']
    g = S.mk_group(dict(task, cfg=EXT_CFG[ext], randmem=task['seed']))
    for k in range(task['n']):
        thumb = rnd.random() < 0.45
        st, pc = S.prep(g, rnd, dict(task, modes='all'), thumb, rnd.choice([0, 0, 0, 2]) if thumb else 0, k)
        mode = rnd.choice(MODES_BY_EXT[ext])
        st['cpsr'] = limbs((C.unlimbs(st['cpsr']) & ~31) | mode)
        ns = 1 if mode == 26 else (rnd.getrandbits(1) if ext[0] else 0)
        st['sys']['SCR'] = limbs(((rnd.getrandbits(10) & ~1) | ns) if ext[0] else 0)
        st['sys']['SCTLR'] = limbs((C.unlimbs(g.base['sys']['SCTLR']) & ~(1 << 27)) | (rnd.getrandbits(1) << 27) | (1 << 22))
        if ext[1]:
            # HCR.TWI / TWE / TSC: WFI, WFE and SMC executed in Non-secure PL1&0 are trapped to Hyp mode
            st['sys']['HCR'] = limbs((rnd.getrandbits(1) << 13) | (rnd.getrandbits(1) << 14) | (rnd.getrandbits(1) << 19))
        for m in st['spsr']:
            v = rand32(rnd)
            st['spsr'][m] = limbs((v & ~0x1F) | rnd.choice(MODES_BY_EXT[ext] + [0, 21]))
        for r in st['R']:
            if r != 'PC' and rnd.random() < 0.5:
                st['R'][r] = limbs(rnd.randrange(8, 56) * 4)
        st['ev']['evreg'] = rnd.getrandbits(1)
        if not thumb:
            name, pat = rnd.choice(G.ARM_SYS)
            fixed = {'c': rnd.choice(G.COND_BIAS)} if 'c' in pat else {}
            if 'mmmmm' in pat:
                fixed['m'] = rnd.choice(MODES_BY_EXT[ext] + [rnd.randrange(32)])
            if name == 'msr_imm' and rnd.random() < 0.5:
                fixed['i'] = rnd.choice(MODES_BY_EXT[ext]) | (rnd.getrandbits(3) << 5)
            w = G.fill(pat, rnd, fixed=fixed)
        elif rnd.random() < 0.3:
            name, pat = rnd.choice(G.T16_SYS)
            w = G.fill(pat, rnd)
        else:
            name, pat = rnd.choice(G.T32_SYS)
            fixed = {}
            if 'mmmmm' in pat:
                fixed['m'] = rnd.choice(MODES_BY_EXT[ext] + [rnd.randrange(32)])
            w = G.fill(pat, rnd, fixed=fixed)
        C.put_instr(st, pc, w, thumb)
        g.add(st, {'n': 'Step'}, meta={'gen': name, 'word': w, 'thumb': thumb, 'mode': mode})
    return [g]


COPROC_PATS = [('cdp', '1110ooooNNNNDDDDppppooo0MMMM'), ('mcr', '1110ooo0NNNNttttppppooo1MMMM'),
               ('mrc', '1110ooo1NNNNttttppppooo1MMMM'), ('mcrr', '11000100uuuuttttppppooooMMMM'),
               ('mrrc', '11000101uuuuttttppppooooMMMM'), ('stc', '110xxxx0nnnnDDDDppppiiiiiiii'),
               ('ldc', '110xxxx1nnnnDDDDppppiiiiiiii')]


def coproc_task(task):
    """generic coprocessor instructions (CDP/MCR/MRC/MCRR/MRRC/LDC/STC, A1/A2/T1/T2) x coprocessor number x CPACR.cp<n> x
    NSACR.cp<n> x security state x mode: UNDEFINED exactly when access control denies, else the not-implemented hooks"""
    rnd = random.Random(task['seed'])
    ext = task['ext']
    g = S.mk_group(dict(task, cfg=EXT_CFG[ext], randmem=task['seed']))
    for k in range(task['n']):
        thumb = rnd.random() < 0.45
        st, pc = S.prep(g, rnd, dict(task, modes='all'), thumb, rnd.choice([0, 0, 0, 2]) if thumb else 0, k)
        mode = rnd.choice([16, 16, 16] + MODES_BY_EXT[ext])
        st['cpsr'] = limbs((C.unlimbs(st['cpsr']) & ~31) | mode)
        ns = 1 if mode == 26 else (rnd.getrandbits(1) if ext[0] else 0)
        st['sys']['SCR'] = limbs(((rnd.getrandbits(10) & ~1) | ns) if ext[0] else 0)
        cp = rnd.choice([0, 1, 2, 3, 4, 5, 6, 7, 8, 9, 12, 13] * 4 + [10, 11] + [14, 15] * 8)
        # every CPACR.cp<n> field value and NSACR.cp<n> bit for the addressed coprocessor; the other fields random
        cpacr = rnd.getrandbits(28) & ~(3 << (2 * cp)) if cp < 14 else rnd.getrandbits(28)
        if cp < 14:
            cpacr |= rnd.choice([0, 1, 3, 3, 2]) << (2 * cp)
        st['sys']['CPACR'] = limbs(cpacr)
        st['sys']['NSACR'] = limbs(rnd.getrandbits(14) | (rnd.getrandbits(3) << 16))
        st['sys']['HCPTR'] = limbs(rnd.getrandbits(14) if rnd.random() < 0.3 else 0)
        st['sys']['HSTR'] = limbs((rnd.getrandbits(16) & ~(1 << 14)) if rnd.random() < 0.35 else 0)      # HSTR.T<CRn>: CP15 accesses trapped to Hyp
        for r in st['R']:
            if r != 'PC' and rnd.random() < 0.6:
                st['R'][r] = limbs(rnd.randrange(8, 56) * 4)
        name, pat = rnd.choice(COPROC_PATS)
        body = G.fill(pat, rnd, fixed={'p': cp})
        if cp == 14:
            # steer into the populated corners of the CP14 space: opc1 in {0 debug, 1 trace, 6 ThumbEE, 7 Jazelle},
            # LDC/STC with CRd = c5, MRRC with opc1 = 0
            if name in ('mcr', 'mrc') and rnd.random() < 0.7:
                opc1 = rnd.choice([0, 1, 6, 7])
                body = (body & ~(7 << 21)) | (opc1 << 21)
                if opc1 == 6 and rnd.random() < 0.6:
                    body &= ~0xEE
            elif name in ('ldc', 'stc') and rnd.random() < 0.6:
                body = (body & ~0xF000) | 0x5000
            elif name == 'mrrc' and rnd.random() < 0.5:
                body &= ~0xF0
        if not thumb:
            cond = rnd.choice([14, 14, 15, 15, rnd.randrange(14)])
            w = (cond << 28) | body
        else:
            w = ((0b1110 | rnd.getrandbits(1)) << 28) | body
        C.put_instr(st, pc, w, thumb)
        g.add(st, {'n': 'Step'}, meta={'gen': 'coproc-' + name, 'word': w, 'thumb': thumb, 'mode': mode, 'cp': cp, 'ns': ns})
    return [g]


RET_ARM = {'SVC': 0xE1B0F00E, 'Undef': 0xE1B0F00E, 'IRQ': 0xE25EF004, 'FIQ': 0xE25EF004, 'DAbort': 0xE25EF008}
RET_THUMB = {'SVC': 0xF3DE8F00, 'Undef': 0xF3DE8F00, 'IRQ': 0xF3DE8F04, 'FIQ': 0xF3DE8F04, 'DAbort': 0xF3DE8F08}


def roundtrip_task(task):
    """exception entry (real take_*_exception) followed by the standard return instruction executed from the vector"""
    rnd = random.Random(task['seed'])
    g = S.mk_group(task)
    for k in range(task['n']):
        kind = rnd.choice(['SVC', 'Undef', 'IRQ', 'FIQ', 'DAbort'])
        thumb = rnd.random() < 0.5
        te = rnd.getrandbits(1)
        st, pc = S.prep(g, rnd, dict(task, modes='all'), thumb, rnd.choice([0, 1, 2]) if thumb else 0, k)
        mode = rnd.choice([16, 31, 19, 18, 23])
        st['cpsr'] = limbs((C.unlimbs(st['cpsr']) & ~0x1DF) | mode)          # A/I/F clear
        sct = C.unlimbs(g.base['sys']['SCTLR']) & ~((1 << 30) | (1 << 13) | (1 << 24))
        st['sys']['SCTLR'] = limbs(sct | (te << 30) | (1 << 22))
        st['sys']['VBAR'] = limbs(0x80)
        st['sys']['SCR'] = limbs(0)
        off = {'SVC': 8, 'Undef': 4, 'IRQ': 24, 'FIQ': 28, 'DAbort': 16}[kind]
        C.put_instr(st, 0x80 + off, RET_THUMB[kind] if te else RET_ARM[kind], bool(te))
        act = {'n': kind}
        if kind == 'SVC':
            act['len'] = 16 if thumb else 32
        if kind == 'DAbort':
            act['alignment'] = False
            act['secondstage'] = False
        e1, _ = g.add(st, act, meta={'gen': 'entry', 'kind': kind})
        cur = C.M.project(g.arm)
        cur = {k2: cur[k2] for k2 in ('R', 'cpsr', 'spsr', 'elr', 'sys', 'mem', 'ev')}
        g.add(cur, {'n': 'Step'}, meta={'gen': 'return', 'kind': kind, 'te': te})
    return [g]


def sys_schedule_replay(ctx, printed, keep):
    """spec -> code: MC_Sys schedules (Step / IRQ / FIQ interleavings of a small program with an SVC) replayed on a real
    instance: Step = emulate_cycle(), IRQ / FIQ = take_physical_irq/fiq_exception(); every action is one event judged by TLC"""
    inits = {x['v']: x for x in printed if x['kind'] == 'init'}
    scheds = sorted((x for x in printed if x['kind'] == 'sched'), key=repr)
    scheds = [x for i, x in enumerate(scheds) if keep(i)]
    groups = {}
    for vname, ini in inits.items():
        g = S.mk_group(dict(name='mcsys-' + vname, cfg={'arch_version': 7}))
        st = g.fresh()
        for r in st['R']:
            st['R'][r] = ini['R'][r]
        st['cpsr'] = ini['cpsr']
        for m in st['spsr']:
            st['spsr'][m] = limbs(0)
        st['elr'] = limbs(0)
        for k in st['sys']:
            st['sys'][k] = limbs(0)
        st['sys']['SCTLR'], st['sys']['VBAR'] = ini['sctlr'], ini['vbar']
        st['mem']['base'][0] = list(ini['mem'])
        st['ev'] = {'evreg': 0, 'wfe': 0, 'wfi': 0}
        C.M.inject(g.arm, dict(st, osys={}, memsz=[]))
        g.base = C.M.project(g.arm)
        groups[vname] = (g, st)
    for si, sc in enumerate(scheds):
        g, st0 = groups[sc['v']]
        cur = st0
        for k, a in enumerate(sc['sched']):
            e, post = g.add(cur, {'n': a}, meta={'gen': 'mcsys', 'schedule': si, 'k': k, 'a': a, 'mode': None})
            cur = {kk: post[kk] for kk in ('R', 'cpsr', 'spsr', 'elr', 'sys', 'mem', 'ev')}
        ctx.behaviours += 1
    return [g.data() for g, _ in groups.values()], len(scheds)


def clause_filter(c, v, e):
    if c == 'hosterror':
        return True
    if v['path'].startswith(('envelope:notimpl:', 'envelope:unimplemented:')) and c == 'outcome':
        return True                                   # accepted coprocessor instruction must reach the coprocessor hooks
    return v['path'].startswith(('psrapi', 'exact', 'exc')) and c not in ('range', 'confine', 'nop-on-condfail')


def run(ctx):
    rnd = random.Random(ctx.seed)
    q = ctx.quick
    ctx.mc('MC_PSR', constants={'FULL': 'FALSE' if q else 'TRUE'}, coverage=False, timeout=3000)
    ctx.mc('MC_Return', coverage=False)
    ctx.mc('MC_Coproc', coverage=False)
    tasks = []
    for i, ext in enumerate(EXT_CFG):
        tasks.append((psr_api_task, dict(name='psrapi-%d' % i, seed=ctx.seed + i, ext=ext, reps=6 if q else 60)))
        for j in range(2 if q else 4):
            tasks.append((sys_instr_task, dict(name='sysinstr-%d-%d' % (i, j), seed=ctx.seed + 20 + 4 * i + j, ext=ext,
                                               n=1200 if q else 15000)))
        tasks.append((coproc_task, dict(name='coproc-%d' % i, seed=ctx.seed + 90 + i, ext=ext, n=1500 if q else 20000)))
    for i in range(3):
        tasks.append((roundtrip_task, dict(name='roundtrip-%d' % i, seed=ctx.seed + 60 + i, n=300 if q else 6000,
                                           cfg={'arch_version': 7})))
    groups = C.parallel(_dispatch, tasks)
    # whole-machine interleavings: MC_Sys checks interrupt transparency on the spec; its schedules are replayed on the real code
    ctx.mc('MC_Sys', constants={'GEN': 'FALSE', 'MAXI': '2' if q else '3'}, coverage=False, timeout=3000)
    rs = ctx.mc('MC_Sys', constants={'GEN': 'TRUE', 'MAXI': '2'}, coverage=False, timeout=3000)
    printed = tlc.printed_json(rs['out'])
    if sum(1 for x in printed if x['kind'] == 'sched') < 500:
        raise MachineryError('MC_Sys printed only %d schedules' % len(printed))
    sysg, nsched = sys_schedule_replay(ctx, printed, (lambda i: (i + ctx.seed) % 3 == 0) if q else (lambda i: True))
    groups += sysg
    ctx.extra['mc_sys_schedules_replayed'] = nsched

    def tags(g, e, v):
        m = g.meta.get(e['id'], {})
        return dict(m, grp=g.name.rsplit('-', 1)[0], enc=v['path'].split(':')[-1], out=e['out'],
                    priv=(C.pre_value(g, e, 'cpsr')[1] & 31) != 16)
    res = C.judge_groups(ctx, groups, clause_filter, rnd=rnd, tags_of=tags,
                         site_of=lambda e, v: e['act']['n'] if e['act']['n'] not in ('Step',) else (e.get('cls') or v['path']))
    ctx.extra['psr_api_events'] = sum(len(g.events) for g in groups if g.name.startswith('psrapi'))
    cop = [(g, e, v) for g, e, v in res if g.name.startswith('coproc')]
    ctx.extra['coproc_events'] = {'denied_undef_exact': sum(1 for g, e, v in cop if v['path'].startswith('exact:exc:')),
                                  'accepted_notimpl': sum(1 for g, e, v in cop if v['path'].startswith('envelope:notimpl')),
                                  'other': sum(1 for g, e, v in cop if not v['path'].startswith(('exact:exc:', 'envelope:notimpl')))}
    if min(ctx.extra['coproc_events']['denied_undef_exact'], ctx.extra['coproc_events']['accepted_notimpl']) < 50:
        raise MachineryError('coprocessor gating: one of the two sides is hardly exercised: %s' % ctx.extra['coproc_events'])
    ctx.extra['not_covered'] = ('coprocessor gating is specified for generic coprocessors (CP0-9, 12, 13) and for the CP14 / CP15 '
                                'system spaces (which forms exist; UNDEFINED otherwise); CP10/11 (VFP / Advanced SIMD), traps to Hyp '
                                'mode (HCPTR, HSTR, HCR.TIDCP) and User-mode ThumbEE register accesses are envelope-only')
    ctx.extra['coproc_cp14_cp15_events'] = {
        'undef_exact': sum(1 for g, e, v in cop if g.meta[e['id']]['cp'] in (14, 15) and v['path'].startswith('exact:exc:')),
        'hook_notimpl': sum(1 for g, e, v in cop if g.meta[e['id']]['cp'] in (14, 15) and v['path'].startswith('envelope:notimpl'))}
    ctx.extra['rule'] = ('cpsr/spsr_write_by_instr over every mode x 16 masks x return flag x secure/non-secure x NMFI x AW/FW x RFR '
                         'x 3 extension configurations with values differing from the old PSR in every field; random system '
                         'instruction words in every mode; entry+return programs for SVC/Undef/IRQ/FIQ/DAbort from ARM, Thumb and '
                         'mid-IT states with ARM and Thumb handlers; generic coprocessor instructions x CPACR / NSACR / security state / mode')
    for g, e, v in res[:2] + res[-1:]:
        ctx.sample({'group': g.name, 'meta': g.meta.get(e['id']), 'act': e['act'], 'out': e['out'], 'delta': e['d'],
                    'verdict': {k: v[k] for k in ('v', 'path')}})
    ctx.distinct = {(g.name, e['id']) for g, e, v in res}


def replay(ctx, path):
    from ..replay import replay_step
    return replay_step(ctx, path)
