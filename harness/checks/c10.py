"""C10 - register file integrity: every register value stays in 0..2^32-1 (range invariant evaluated on every
event of wide sweeps) and banking across modes (MC_Regs on the spec; every TLC-generated behaviour replayed on the
real Registers object, all 34 + 7 cells compared after each action)."""
import random

from .. import campaign as C
from .. import machine as M
from .. import sweeps as S
from .. import tlc
from ..core import log
from .c18 import CONFIGS, _dispatch, program_task

MODE_OF = {'usr': 16, 'fiq': 17, 'irq': 18, 'svc': 19, 'mon': 22, 'abt': 23, 'hyp': 26, 'und': 27}


def replay_behaviours(ctx, behaviours, tag):
    """spec -> code: step each TLC behaviour through a real Registers object"""
    path, cfg = M.make_config(have_virt_ext=True, have_security_ext=True, arch_version=7)
    arm = M.new_arm(path)
    from armulator.armv6.registers import RName
    n_bad = 0
    for bi, beh in enumerate(behaviours):
        regs = arm.registers
        # the spec's initial value 0 means "never written" (writes use 1..DEPTH): give every cell its own token instead,
        # so that a read served from the wrong physical cell is visible even for cells no action wrote
        tokR = {k.name: 0x1000 + i for i, k in enumerate(regs._R)}
        tokS = {m: 0x2000 + i for i, m in enumerate(M.SPSR)}
        for k in regs._R:
            regs._R[k] = tokR[k.name]
        for m in M.SPSR:
            setattr(regs, 'spsr_' + m, tokS[m])

        def relabel(post):
            return {'R': {n: (v if v else tokR[n]) for n, v in post['R'].items()},
                    'spsr': {m: (v if v else tokS[m]) for m, v in post['spsr'].items()}, 'mode': post['mode']}
        regs.cpsr.m = 19
        regs.scr.ns = 0
        failing = []
        for si, st in enumerate(beh):
            a = st['a']
            try:
                if a == 'WriteRmode':
                    regs.set_rmode(st['n'], st['m'], st['v'])
                elif a == 'Write':
                    regs.set(st['n'], st['v'])
                elif a == 'WriteSPSR':
                    regs.set_spsr(st['v'])
                elif a == 'SwitchMode':
                    regs.cpsr.m = st['m']
            except Exception as ex:
                failing.append('hosterror:%s@%d' % (type(ex).__name__, si))
                break
            post = relabel(st['post'])
            for name, v in post['R'].items():
                if regs._R[RName[name]] != v:
                    failing.append('R.%s@%d' % (name, si))
            for m, v in post['spsr'].items():
                if getattr(regs, 'spsr_' + m) != v:
                    failing.append('spsr.%s@%d' % (m, si))
            if regs.cpsr.m != post['mode']:
                failing.append('mode@%d' % si)
            # reads through the public API must agree with the cells (get / get_rmode)
            for n in range(15):
                if regs.get(n) != post['R'][_lookup(n, post['mode'])]:
                    failing.append('get(%d)@%d' % (n, si))
            bank = _BANK[post['mode']]
            if bank != 'usr' and regs.get_spsr() != post['spsr'][bank]:
                failing.append('get_spsr@%d' % si)
            # reads of another mode's registers through get_rmode
            om = (16, 17, 18, 19, 22, 23, 27)[(si + bi) % 7]
            for n in (8, 12, 13, 14):
                if regs.get_rmode(n, om) != post['R'][_lookup(n, om)]:
                    failing.append('get_rmode(%d,%d)@%d' % (n, om, si))
            if failing:
                break
        if not failing and beh:
            # tail: the spec's SwitchMode action (MC_Regs: changes no cell) into every mode; all reads of that mode
            post = relabel(beh[-1]['post'])
            for m2 in (16, 17, 18, 19, 22, 23, 27, 31):
                regs.cpsr.m = m2
                for n in range(15):
                    if regs.get(n) != post['R'][_lookup(n, m2)]:
                        failing.append('get(%d)@tail-mode%d' % (n, m2))
                b2 = _BANK[m2]
                if b2 != 'usr' and regs.get_spsr() != post['spsr'][b2]:
                    failing.append('get_spsr@tail-mode%d' % m2)
                for name, v in post['R'].items():
                    if regs._R[RName[name]] != v:
                        failing.append('R.%s@tail-mode%d' % (name, m2))
        ctx.behaviours += 1
        if failing:
            n_bad += 1
            ctx.judge('Registers', [f.split('@')[0] for f in failing], {'src': tag},
                      {'behaviour': beh, 'failing': failing}, what='behaviour %d of %s' % (bi, tag))
    return n_bad


_BANK = {16: 'usr', 17: 'fiq', 18: 'irq', 19: 'svc', 22: 'mon', 23: 'abt', 26: 'hyp', 27: 'und', 31: 'usr'}


def _lookup(n, mode):
    # only used to pick which recorded cell a public read must return (the table itself is the spec's)
    b = _BANK[mode]
    if n < 8:
        return 'R%dusr' % n
    if n < 13:
        return 'R%d%s' % (n, 'fiq' if b == 'fiq' else 'usr')
    if n == 13:
        return 'SP' + b
    return 'LR' + ('usr' if b == 'hyp' else b)


def clause_filter(c, v, e):
    return c == 'range'


def run(ctx):
    rnd = random.Random(ctx.seed)
    q = ctx.quick
    ctx.mc('MC_Regs', constants={'DEPTH': '2' if q else '3', 'GEN': 'FALSE'})
    # spec -> code: all behaviours of depth 2 (BFS), plus simulated deeper ones
    r = tlc.run_mc('MC_Regs', constants={'DEPTH': '2', 'GEN': 'TRUE'}, workers=1, coverage=False)
    behs = tlc.printed_json(r['out'])
    if len(behs) < 1000:
        raise tlc.MachineryError('MC_Regs generated only %d behaviours' % len(behs))
    replay_behaviours(ctx, behs, 'bfs-depth2')
    n_sim = 400 if q else 6000
    r2 = tlc.run_mc('MC_Regs', constants={'DEPTH': '8', 'GEN': 'TRUE'}, workers=1, coverage=False,
                    simulate='num=%d' % n_sim, depth=10, seed=ctx.seed)
    behs2 = tlc.printed_json(r2['out'])
    if len(behs2) < n_sim // 2:
        raise tlc.MachineryError('MC_Regs simulation produced only %d behaviours' % len(behs2))
    replay_behaviours(ctx, behs2, 'simulate-depth8')
    ctx.sample({'spec behaviour replayed on Registers': behs2[0][:3]})
    # a corrupted behaviour must be rejected (binding canary for the replay direction)
    bad = [dict(s, post=dict(s['post'], R=dict(s['post']['R'], SPirq=s['post']['R']['SPirq'] + 1))) for s in behs[0]]
    before = len(ctx.violations)
    saved, ctx.violations = ctx.violations, []
    import io
    from .. import core
    real = core.REAL_STDOUT
    core.REAL_STDOUT = io.StringIO()
    ctx.mute = True
    nb = replay_behaviours(ctx, [bad], 'canary')
    ctx.mute = False
    core.REAL_STDOUT = real
    ctx.violations = saved
    ctx.behaviours -= 1
    ctx.canary(nb == 1)
    # range invariant on wide sweeps (every register a 32-bit value after any step), addresses pushed to the edges
    tasks = []
    nw = 1500 if q else 30000
    cw = S.class_word_list(ctx.seed, 3 if q else 30)
    for i in range(16):
        name, over = CONFIGS[i % len(CONFIGS)]
        over = dict(over)
        if i % 2:
            over['memory_list'] = [{'mem_type': 'RAM', 'beginning': 0, 'end': 256},
                                   {'mem_type': 'RAM', 'beginning': 0xFFFFFF00, 'end': 0x100000000}]
        tasks.append((sweep_edges, dict(name='edge-%s-%d' % (name, i), seed=ctx.seed + 100 + i, modes='all', cfg=over,
                                        hi=bool(i % 2), words=S.random_words(random.Random(ctx.seed * 41 + i), nw, classes=cw))))
    for i in range(4):
        tasks.append((S.sweep_t16, dict(name='t16-%d' % i, seed=ctx.seed + i, lo=i * 16384, hi=(i + 1) * 16384,
                                         itpos='rotate', modes='all')))
    groups = C.parallel(_dispatch, tasks)
    res = C.judge_groups(ctx, groups, clause_filter, rnd=rnd,
                         tags_of=lambda g, e, v: {'out': e['out'], 'hi': g.name.startswith('edge') and 'hi' in g.name})
    ctx.extra['rule'] = ('banking: every MC_Regs behaviour of depth 2 (BFS) + simulated depth-8 behaviours replayed on '
                         'the real Registers; range: every event of wide sweeps (code at 0x0.. and at 0xFFFFFF00.., '
                         'registers biased to 0/2^32 edges) must leave all 34 registers, CPSR, SPSRs, ELR in 0..2^32-1; bank-crossing '
                         'instructions (RFE/SRS with write-back, LDM/STM user registers, LDM exception return, CPS/MSR mode '
                         'changes, SUBS PC,LR) from every mode with distinct values in all banks, all 34 registers compared exactly')
    for g, e, v in res[:2]:
        ctx.sample({'group': g.name, 'word': g.meta.get(e['id']), 'out': e['out'], 'verdict': v})
    ctx.distinct = {(g.name, e['id']) for g, e, v in res}
    # banking at instruction level: instructions that cross banks / change mode, judged exactly on all 34 registers
    btasks = [(bank_instr_task, dict(name='bank-%d' % i, seed=ctx.seed + 700 + i, n=250 if q else 6000,
                                     ext=[(False, False), (True, False), (True, True)][i % 3])) for i in range(12)]
    bgroups = C.parallel(_dispatch, btasks)
    bres = C.judge_groups(ctx, bgroups, bank_clause_filter, rnd=rnd,
                          tags_of=lambda g, e, v: dict(g.meta.get(e['id'], {}), enc=v['path'].split(':')[-1]))
    nexact = sum(1 for g, e, v in bres if v['path'].startswith('exact') and not v['path'].startswith('exact:condfail'))
    ctx.extra['bank_instruction_events'] = len(bres)
    ctx.extra['bank_instruction_events_exact'] = nexact
    if nexact < len(bres) // 4:
        raise tlc.MachineryError('bank-crossing instruction task: only %d of %d events judged exactly' % (nexact, len(bres)))
    ctx.distinct |= {(g.name, e['id']) for g, e, v in bres}


BANK_PATS_ARM = [('rfe', '1111100pu0w1nnnn0000101000000000'), ('srs', '1111100pu1w0110100000101000mmmmm'),
                 ('ldm_excret', 'cccc100pu1w1nnnn1rrrrrrrrrrrrrrr'), ('ldm_user', 'cccc100pu101nnnn0rrrrrrrrrrrrrrr'),
                 ('stm_user', 'cccc100pu100nnnnrrrrrrrrrrrrrrrr'), ('cps', '111100010000' + '0010' + '0000000' + '000' + '0' + 'mmmmm'),
                 ('msr_c', 'cccc00010010' + '0001' + '1111' + '00000000' + 'nnnn'), ('movs_pc_lr', 'cccc0001101100001111000000001110'),
                 ('subs_pc_lr', 'cccc00100101111011110000000iii00')]
BANK_PATS_T32 = [('rfe_db', '1110100000w1nnnn1100000000000000'), ('rfe_ia', '1110100110w1nnnn1100000000000000'),
                 ('srs_db', '1110100000w0110111000000000mmmmm'), ('srs_ia', '1110100110w0110111000000000mmmmm'),
                 ('cps', '1111001110101111' + '10000' + '00' + '1' + '000' + 'mmmmm'), ('subs_pc_lr', '11110011110111101000111100000i00')]


def bank_instr_task(task):
    """instructions that read or write registers of ANOTHER bank, or change the mode and then touch registers: RFE / SRS
    with write-back on every base register, LDM/STM (user registers), LDM (exception return), CPS / MSR mode changes,
    SUBS PC,LR.  Every physical register holds its own value; the CPSR image loaded from memory / held in the SPSR
    names a legal mode, so the specification pins the step down exactly and TLC compares all 34 registers."""
    from .c12 import MODES_BY_EXT
    from .c11 import EXT_CFG
    from .. import isa_gen as G
    rnd = random.Random(task['seed'])
    ext = task['ext']
    g = S.mk_group(dict(task, cfg=EXT_CFG[ext]))
    modes = MODES_BY_EXT[ext]
    regs = [0, 3, 7, 8, 10, 12, 13, 13, 13, 14, 14]
    for k in range(task['n']):
        thumb = rnd.random() < 0.35
        st, pc = S.prep(g, rnd, dict(task, modes='all'), thumb, 0, k)
        mode = rnd.choice(modes)
        ns = 1 if mode == 26 else (rnd.getrandbits(1) if ext[0] and mode != 22 else 0)
        st['sys']['SCR'] = C.limbs(ns | 0x30 if ext[0] else 0)
        st['cpsr'] = C.limbs((C.unlimbs(st['cpsr']) & ~0x1F & ~0x0600FC00) | mode)       # IT = 0
        newmode = rnd.choice([m for m in modes if m not in (22, 26)] + [mode])
        newpsr = (rnd.getrandbits(4) << 28) | (rnd.getrandbits(3) << 6) | newmode
        newthumb = rnd.getrandbits(1)
        newpsr |= newthumb << 5
        for m in st['spsr']:
            st['spsr'][m] = C.limbs(newpsr)
        # every register its own small word-aligned pointer into the RAM (distinct so that a wrong bank is visible)
        names = sorted(st['R'])
        slots = rnd.sample(range(6, 58), len(names))
        for r, sl in zip(names, slots):
            if r != 'PC':
                st['R'][r] = C.limbs(sl * 4)
        if rnd.random() < 0.25:
            # stacks at the edges of the address space: base +/- 8 must wrap modulo 2^32 in whichever bank it lands
            for r in rnd.sample([x for x in names if x.startswith(('SP', 'LR', 'R1'))], 4):
                st['R'][r] = C.limbs(rnd.choice([0xFFFFFFF8, 0xFFFFFFFC, 0, 4]))
        name, pat = rnd.choice(BANK_PATS_T32 if thumb else BANK_PATS_ARM)
        fixed = {'c': 14, 'n': rnd.choice(regs), 'm': newmode}
        if name.startswith('ldm') or name.startswith('stm'):
            fixed['r'] = rnd.getrandbits(15) | (0x6000 if rnd.random() < 0.6 else 0)
        if name.startswith('srs') and rnd.random() < 0.3:
            # the banked SP that SRS uses and writes back sits at the very top / bottom of the address space
            bank = {16: 'usr', 31: 'usr', 17: 'fiq', 18: 'irq', 19: 'svc', 22: 'mon', 23: 'abt', 27: 'und', 26: 'hyp'}[newmode]
            st['R']['SP' + bank] = C.limbs(rnd.choice([0xFFFFFFF8, 0xFFFFFFFC, 0, 4]))
        if name == 'msr_c':
            fixed['n'] = rnd.choice([0, 3, 7])
            st['R']['R%dusr' % fixed['n']] = C.limbs((rnd.getrandbits(2) << 6) | newmode)
        w = G.fill(pat, rnd, fixed=fixed, regfields='')
        # memory: PC-like words at even word slots, CPSR images at odd ones - whichever pair RFE / LDM^ picks up is legal
        mem = st['mem']['base'][0]
        for a in range(0, len(mem) - 3, 4):
            v = newpsr if (a // 4) % 2 == rnd.getrandbits(1) else (rnd.randrange(4, 60) * 4)
            mem[a:a + 4] = [(v >> (8 * i)) & 0xFF for i in range(4)]
        C.put_instr(st, pc, w, thumb)
        g.add(st, {'n': 'Step'}, meta={'gen': name, 'word': w, 'thumb': thumb, 'mode': mode, 'newmode': newmode})
    return [g]


def bank_clause_filter(c, v, e):
    if c == 'hosterror':
        return True
    return v['path'].startswith('exact') and (c.startswith(('R.', 'spsr.', 'cpsr.M')) or c in ('elr', 'range'))


def sweep_edges(task):
    """words executed with the PC and data pointers near 0 and near 2^32"""
    rnd = random.Random(task['seed'])
    g = S.mk_group(task)
    edge = [0, 1, 2, 3, 4, 8, 0xFFFFFFFF, 0xFFFFFFFE, 0xFFFFFFFC, 0xFFFFFFF8, 0xFFFFFFF0, 0x7FFFFFFF, 0x80000000]
    for k, (thumb, w) in enumerate(task['words']):
        itpos = rnd.choice([0, 0, 0, 1, 2]) if thumb else 0
        st, pc = S.prep(g, rnd, task, thumb, itpos, k)
        for r in st['R']:
            if rnd.random() < 0.4:
                st['R'][r] = C.limbs(rnd.choice(edge))
        if task['hi'] and rnd.random() < 0.7:
            off = rnd.choice([0xF0, 0xF4, 0xF8, 0xFC, 0xE0, 0x80, 0x10]) if not thumb else rnd.choice([0xFC, 0xFE, 0xF8, 0xFA, 0x80])
            if thumb and w >> 16 and off == 0xFE:
                off = 0xFC
            st['R']['PC'] = C.limbs(0xFFFFFF00 + off)
            C.put_instr(st, off, w, thumb, dev=1)
        else:
            pc = rnd.choice([0, 4, 8, pc])
            st['R']['PC'] = C.limbs(pc)
            C.put_instr(st, pc, w, thumb)
        g.add(st, {'n': 'Step'}, meta={'word': w, 'thumb': thumb})
    return [g]


def replay(ctx, path):
    import json
    case = json.load(open(path))['case']
    if 'behaviour' in case:
        n = replay_behaviours(ctx, [case['behaviour']], 'replay')
        return 1 if n else 0
    from ..replay import replay_step
    return replay_step(ctx, path)
