"""C08 - IT blocks.  MC_IT (TLC): the whole specified machine runs IT + five instructions for every legal
(firstcond, mask) x NZCV x instruction menu x IRQ position and must end with exactly the registers the IT
instruction's declarative description predicts (deadlock-checked: the spec can always step).  The scenarios TLC
reached are replayed on the real emulate_cycle()/take_physical_irq_exception() from RAM, and TLC judges every
single step on the full state (so SPSR.IT on entry, CPSR.IT = 0 in the handler and the restored IT state after
SUBS PC,LR are all compared).  Plus random longer Thumb programs with IT blocks."""
import random

from .. import campaign as C
from .. import sweeps as S
from .. import tlc
from ..words import limbs
from .c18 import _dispatch

MENU = {0: 'aaaaa', 1: 'wawaa', 2: 'acaaa', 3: 'asaaa', 4: 'saasa', 5: 'alaaa', 6: 'aalsa', 7: 'amaaa', 8: 'maama'}
HANDLERS = [14, 240, 176, 225, 0, 0, 0, 0, 192, 112, 160, 227, 8, 240, 94, 226, 4, 240, 94, 226]     # MC_IT!Handlers (136..155)


def slot_bytes(form, k):
    if form == 'a':
        return [1, 48 + k]
    if form == 'w':
        return [k, 241, 1, k]
    if form == 's':
        return [0, 223]
    if form == 'l':
        return [56, 104]
    if form == 'm':
        return [136, 243, 0, 136]
    return [0, 46]


def scenario_task(task):
    rnd = random.Random(task['seed'])
    g = S.mk_group(dict(task, cfg={'arch_version': 7}))
    for sc in task['scs']:
        st = g.fresh()
        for r in st['R']:
            st['R'][r] = limbs(0)
        st['R']['R6usr'] = limbs(1)
        st['R']['R7usr'] = limbs(1)
        st['R']['R8usr'] = limbs(0x66000000)
        st['R']['PC'] = limbs(64)
        st['cpsr'] = limbs((sc['fl'] << 28) | 0x20 | 16)
        for m in st['spsr']:
            st['spsr'][m] = limbs(0)
        st['elr'] = limbs(0)
        st['sys']['SCTLR'] = limbs((1 << 22) | (2 if 'l' in MENU[sc['m']] else 0))
        st['sys']['SCR'] = limbs(0)
        st['sys']['VBAR'] = limbs(128)
        mem = st['mem']['base'][0]
        for i in range(len(mem)):
            mem[i] = 0
        prog = [sc['fc'] * 16 + sc['mask'], 191]
        for k in range(1, 6):
            prog += slot_bytes(MENU[sc['m']][k - 1], k)
        mem[64:64 + len(prog)] = prog
        mem[136:156] = HANDLERS
        end = 64 + len(prog)
        steps, irqdone, first = 0, False, True
        cur = st
        for _ in range(24):
            pc = C.unlimbs(cur['R']['PC'])
            if pc == end and (C.unlimbs(cur['cpsr']) & 31) == 16:
                break
            inprog = 64 <= pc < end
            if sc['irqat'] and not irqdone and steps == sc['irqat'] - 1 and inprog:
                act = {'n': 'IRQ'}
                irqdone = True
            else:
                act = {'n': 'Step'}
                if inprog:
                    steps += 1
            e, post = g.add(cur, act, meta={'sc': sc, 'pc': pc})
            cur = {k2: post[k2] for k2 in ('R', 'cpsr', 'spsr', 'elr', 'sys', 'mem', 'ev')}
            if e['out'] not in ('completed', 'svc', 'dabort'):
                break
        # the run must end where the specification's run ends, with the block retired
        g.meta[len(g.events)]['final'] = {'pc': C.unlimbs(cur['R']['PC']), 'end': end,
                                          'regs': [C.unlimbs(cur['R']['R%dusr' % k]) for k in range(1, 6)]}
    return [g]


def random_it_programs(task):
    """random Thumb programs: IT blocks over random 16-bit data-processing instructions"""
    rnd = random.Random(task['seed'])
    g = S.mk_group(dict(task, cfg={'arch_version': 7}))
    from .c01 import t16_dp_word
    for p in range(task['n']):
        st, pc = S.prep(g, rnd, dict(task, modes='all'), True, 0, p)
        pc = 32
        st['R']['PC'] = limbs(pc)
        off = pc
        while off < 200:
            if rnd.random() < 0.3:
                fc = rnd.randrange(14)
                mask = rnd.randrange(1, 16)
                C.put_instr(st, off, 0xBF00 | (fc << 4) | mask, True)
                off += 2
            w = t16_dp_word(rnd)
            if (w >> 10) == 0b010001 and ((w >> 7) & 1) * 8 + (w & 7) == 15:
                w &= ~0x80                      # keep the PC out of the data-processing destination
            C.put_instr(st, off, w, True)
            off += 2
        cur = st
        for k in range(rnd.randrange(8, 30)):
            e, post = g.add(cur, {'n': 'Step'}, meta={'prog': p, 'step': k})
            cur = {k2: post[k2] for k2 in ('R', 'cpsr', 'spsr', 'elr', 'sys', 'mem', 'ev')}
            pcv = C.unlimbs(cur['R']['PC'])
            if e['out'] != 'completed' or pcv >= 220:
                break
    return [g]


def clause_filter(c, v, e):
    if c == 'hosterror':
        return True
    return v['path'].startswith(('exact', 'exc')) and c not in ('range', 'confine', 'nop-on-condfail')


def run(ctx):
    rnd = random.Random(ctx.seed)
    q = ctx.quick
    consts = {'GEN': 'TRUE', 'FLAGSET': '{0, 2, 6, 9}' if q else '{%s}' % ', '.join(str(i) for i in range(16)), 'MENUS': '{0, 2, 3, 5, 7}' if q else '{0, 1, 2, 3, 4, 5, 6, 7, 8}'}
    r = ctx.mc('MC_IT', constants=consts, coverage=False, timeout=3000)
    scs = tlc.printed_json(r['out'])
    if len(scs) < 5000:
        raise tlc.MachineryError('MC_IT printed only %d finished scenarios' % len(scs))
    scs.sort(key=lambda s: repr(sorted(s.items())))
    step = 6 if q else 2
    scs = [s for i, s in enumerate(scs) if (i + ctx.seed) % step == 0]
    n = 12
    tasks = [(scenario_task, dict(name='it-%d' % j, seed=ctx.seed + j, scs=scs[j::n])) for j in range(n)]
    for j in range(4):
        tasks.append((random_it_programs, dict(name='itprog-%d' % j, seed=ctx.seed + 50 + j, n=60 if q else 1500)))
    groups = C.parallel(_dispatch, tasks)
    res = C.judge_groups(ctx, groups, clause_filter, rnd=rnd,
                         tags_of=lambda g, e, v: dict(g.meta.get(e['id'], {}).get('sc', {}), grp=g.name.rsplit('-', 1)[0],
                                                      enc=v['path'].split(':')[-1]))
    # every replayed scenario must have ended at the end of the program in User mode
    bad_end = 0
    for g in groups:
        for eid, m in g.meta.items():
            f = m.get('final')
            if f and f['pc'] != f['end']:
                bad_end += 1
                ctx.judge('it-program-end', ['final-pc'], {'sc': m.get('sc')}, {'final': f, 'sc': m.get('sc')},
                          what='replayed scenario did not reach the end of the program')
    ctx.behaviours += sum(1 for g in groups for m in g.meta.values() if m.get('final'))
    ctx.extra['scenarios_from_tlc'] = len(scs)
    ctx.extra['rule'] = ('MC_IT scenarios (legal (fc, mask) x NZCV x 5 (thorough: 9) menus incl. SVC, aborting-LDR and MSR APSR slots x IRQ position; quick: every 6th, 4 flag values) '
                         'assembled into RAM and single-stepped on the real code, the IRQ taken by take_physical_irq_exception '
                         'and returned from by SUBS PC, LR, #4; every step judged by TLC; plus random IT-block programs')
    for g, e, v in res[:3]:
        ctx.sample({'group': g.name, 'meta': g.meta.get(e['id']), 'act': e['act'], 'delta': e['d'],
                    'verdict': {k: v[k] for k in ('v', 'path')}})
    ctx.distinct = {(g.name, e['id']) for g, e, v in res}


def replay(ctx, path):
    from ..replay import replay_step
    return replay_step(ctx, path)
