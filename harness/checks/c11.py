"""C11 - exception entry.  MC_Exc (TLC): the Exc.tla pseudocode against the property's statement over the routing
matrix.  The scenarios TLC enumerates are then built on the real object, take_*_exception()/emulate_cycle() is
called, and TLC judges every result against Exc.tla on the full state (Trace_Step!ExcVerdict / ResetVerdict)."""
import random

from .. import campaign as C
from .. import sweeps as S
from .. import tlc
from ..words import limbs, rand32
from .c18 import _dispatch

EXT_CFG = {(False, False): {'have_security_ext': False, 'have_virt_ext': False, 'have_thumbee': True},
           (True, False): {'have_security_ext': True, 'have_virt_ext': False, 'have_thumbee': True},
           (True, True): {'have_security_ext': True, 'have_virt_ext': True, 'arch_version': 7, 'have_thumbee': True}}


def bit(v, i, b):
    return (v & ~(1 << i)) | (b << i)


def scenario_task(task):
    rnd = random.Random(task['seed'])
    g = S.mk_group(dict(task, cfg=EXT_CFG[task['ext']]))
    for sc in task['scs']:
        st = g.fresh()
        thumb = sc['t'] >= 1
        C.randomize(st, rnd, mode=sc['mode'], thumb=thumb, it=sc['it'] if thumb else 0,
                    pc=(sc['pc'][0] << 16) | sc['pc'][1])
        c = C.unlimbs(st['cpsr']) | ((1 << 24) if sc['t'] == 2 else 0)            # t = 2: ThumbEE state (J = 1, T = 1)
        for i in (6, 7, 8):
            c = bit(c, i, sc['aif'] if sc['kind'] in ('Undef', 'SVC', 'SMC') else rnd.getrandbits(1))
        st['cpsr'] = limbs(c)
        sctlr = C.unlimbs(g.base['sys']['SCTLR']) & ~1
        for i, k in ((13, 'v'), (24, 've'), (30, 'te'), (25, 'ee')):
            sctlr = bit(sctlr, i, sc[k])
        st['sys']['SCTLR'] = limbs(sctlr)
        scr = rnd.getrandbits(10) & ~0x3F
        for i, k in ((0, 'ns'), (3, 'ea'), (1, 'irq'), (2, 'fiq'), (5, 'aw'), (4, 'fw')):
            scr = bit(scr, i, sc[k])
        st['sys']['SCR'] = limbs(scr)
        hcr = 0
        for i, k in ((27, 'tge'), (4, 'imo'), (3, 'fmo')):
            hcr = bit(hcr, i, sc[k])
        st['sys']['HCR'] = limbs(hcr)
        st['sys']['HSCTLR'] = limbs(bit(bit(0, 30, 1 - sc['te']), 25, rnd.getrandbits(1)))
        st['sys']['VBAR'] = limbs(rnd.choice([0x10000020, 0xFFFFFFE0, 0]))
        st['sys']['MVBAR'] = limbs(rnd.choice([0x20000040, 0xFFFFFFE0]))
        st['sys']['HVBAR'] = limbs(rnd.choice([0x30000060, 0xFFFFFFE0]))
        k = sc['kind']
        act = {'n': k}
        if k == 'SVC':
            act['len'] = 16 if thumb else 32
        if k == 'DAbort':
            act['alignment'] = bool(sc['align'])
            act['secondstage'] = False
        g.add(st, act, meta={'sc': sc})
    return [g]


def reset_task(task):
    rnd = random.Random(task['seed'])
    g = S.mk_group(task)
    for k in range(task['n']):
        st = g.fresh()
        mode = rnd.choice([16, 17, 18, 19, 23, 27, 31] + ([22] if g.cfg['have_security_ext'] else []))
        C.randomize(st, rnd, mode=mode, thumb=rnd.random() < 0.5, it=rnd.choice([0, 0x48, 0x64]))
        st['sys']['SCTLR'] = limbs(rand32(rnd))
        st['sys']['SCR'] = limbs(rnd.getrandbits(10))
        st['sys']['VBAR'] = limbs(rand32(rnd) & ~31)
        g.add(st, {'n': 'Reset'}, meta={'k': k})
    return [g]


def clause_filter(c, v, e):
    return True


def run(ctx):
    rnd = random.Random(ctx.seed)
    q = ctx.quick
    # one TLC run both checks the invariants of MC_Exc and prints every scenario (one JSON line each)
    r = ctx.mc('MC_Exc', constants={'GEN': 'TRUE', 'FULL': 'FALSE' if q else 'TRUE'}, coverage=False, timeout=3000)
    scs = tlc.printed_json(r['out'])
    kinds = {s['kind'] for s in scs}
    if kinds != {'Undef', 'SVC', 'SMC', 'DAbort', 'HypTrap', 'IRQ', 'FIQ'}:
        raise tlc.MachineryError('vacuity: MC_Exc did not reach every exception kind: %s' % sorted(kinds))
    if len(scs) < 50000:
        raise tlc.MachineryError('MC_Exc printed only %d scenarios' % len(scs))
    scs.sort(key=lambda s: sorted(s.items()).__repr__())
    if q:
        scs = [s for i, s in enumerate(scs) if (i + ctx.seed) % 5 == 0]
    else:
        scs = [s for i, s in enumerate(scs) if (i + ctx.seed) % 2 == 0]
    by_ext = {}
    for s in scs:
        by_ext.setdefault(tuple(s['ext']), []).append(s)
    tasks = []
    for ext, lst in by_ext.items():
        n = max(1, len(lst) // 6000 + 1)
        for j in range(n):
            tasks.append((scenario_task, dict(name='exc-%s%s-%d' % ('S' if ext[0] else 's', 'V' if ext[1] else 'v', j),
                                              seed=ctx.seed + j, ext=ext, scs=lst[j::n])))
    for i, over in enumerate([{}, {'have_security_ext': False}, {'has_imp_def_reset_vector': True, 'impdef_reset_vector': 0x1001}]):
        tasks.append((reset_task, dict(name='reset-%d' % i, seed=ctx.seed + 900 + i, cfg=over, n=300 if q else 3000)))
    groups = C.parallel(_dispatch, tasks)
    res = C.judge_groups(ctx, groups, clause_filter, rnd=rnd,
                         site_of=lambda e, v: 'take_%s' % e['act']['n'],
                         tags_of=lambda g, e, v: dict(g.meta.get(e['id'], {}).get('sc', {}), grp=g.name))
    ctx.behaviours += 0
    ctx.extra['scenarios_from_tlc'] = len(scs)
    ctx.extra['rule'] = ('every scenario of MC_Exc (kind x source mode x T x IT x A/I/F x SCTLR.{V,VE,TE,EE} x '
                         'SCR.{NS,EA,IRQ,FIQ,AW,FW} x HCR.{TGE,IMO,FMO} x extensions x PC; quick: every 5th) built on the '
                         'real object with random other registers and vector bases incl. 0xFFFFFFE0, '
                         'take_*_exception() called, full post-state judged by TLC; plus take_reset()')
    ctx.exhaustive = not q
    for g, e, v in res[:2] + res[-1:]:
        ctx.sample({'group': g.name, 'scenario': g.meta.get(e['id']), 'act': e['act'], 'delta': e['d'], 'verdict': v})
    ctx.distinct = {(g.name, e['id']) for g, e, v in res}


def replay(ctx, path):
    from ..replay import replay_step
    return replay_step(ctx, path)
