"""C06 - ARM decode: every 32-bit word maps to the architectural instruction and operands."""
import random

from .. import campaign as C
from .. import decodecheck as D
from .. import sweeps as S
from .. import suite_trace as ST


def run(ctx):
    rnd = random.Random(ctx.seed)
    q = ctx.quick
    # the spec's decode is total and every executable result can be executed (operand fields present and in range)
    ctx.mc('MC_Decode', constants={'MODES': '{19}' if q else '{16, 19}'}, coverage=False)
    leaves = D.partition('arm', rnd, 20000 if q else 200000)
    words, ngroups = D.select_words(leaves, rnd, leaves_per_group=10 if q else 120, nrand=1 if q else 4,
                                    basis_leaves=1 if q else 6)
    # plus uniform words (weighted by cube size rather than by group)
    words += [(rnd.getrandbits(32), None, 'uniform') for _ in range(4000 if q else 150000)]
    # one known-good word per encoding class from the repository's tests + class-preserving variants: the cube members
    # above mostly violate should-be-one/zero fields (UNPREDICTABLE, envelope only); these are judged exactly
    cw = S.class_word_list(ctx.seed, 4 if q else 40)
    words += [(w, None, 'classword') for th, w in cw if not th]
    groups, res = D.run_words(ctx, rnd, words, thumb=False)
    D.check_cube_class(res, ctx)
    # the repository's own tests as a trace source: every emulate_cycle() they perform, judged on the complete state
    sg, summary = ST.groups(thumb=False)
    sres = C.judge_groups(ctx, sg, D.clause_filter, rnd=rnd, tags_of=D.tags_of, site_of=lambda e, v: (e.get('cls') or v['path']))
    ctx.extra['repo_test_suite_events'] = {'events': len(sres), 'exact': sum(1 for g, e, v in sres if v['path'].startswith('exact')),
                                           'pytest': summary}
    if len(sres) < 100:
        raise D.MachineryError('only %d events recorded from the repository test suite' % len(sres))
    D.summarize(ctx, res, 'arm')
    classes = sorted({l[2] for l in leaves})
    ctx.exhaustive = False
    ctx.extra['exhaustive_subspaces'] = ['class selection of the implementation: cube partition tiling all 2^32 words']
    ctx.extra.update({'arm_cubes': len(leaves), 'arm_classes': len(classes), 'arm_class_path_groups': ngroups,
                      'arm_space_tiled': '2^32 (sum of cube sizes checked)',
                      'groups_executed': len({k for w, c, k in words})})
    ctx.extra['rule'] = ('the ARM decoder tree is partitioned exhaustively into %d cubes (tracked-integer execution; the cubes '
                         'tile 2^32 exactly; cross-checked on random words against the untracked decoder); every one of '
                         'the %d (class, path) groups is executed on members of its cubes (representative, all-ones, one '
                         'flip per free bit of the widest cubes, random) under random state on 6 configurations and each '
                         'step is judged by TLC against the spec: full post-state where the encoding is specified exactly, '
                         'outcome class (undef / notimpl / completed) elsewhere' % (len(leaves), ngroups))
    ctx.assumptions.append('class selection is exhaustive over 2^32 for the implementation (cube partition); agreement of '
                           'the spec\'s decode with the implementation is decided on the sampled members of every cube '
                           'group, not on every word of the cube')
    for g, e, v in res[:2] + res[-1:]:
        ctx.sample({'group': g.name, 'meta': g.meta.get(e['id']), 'out': e['out'], 'cls': e['cls'],
                    'verdict': {k: v[k] for k in ('v', 'path')}})
    ctx.distinct = {g.meta[e['id']]['word'] for g, e, v in res}


def replay(ctx, path):
    from ..replay import replay_step
    return replay_step(ctx, path)
