"""C09 - multiply, divide, saturating, packed-SIMD, bit-field instructions are bit-exact."""
import random

from .. import families as F
from ..words import K32, limbs


def run(ctx):
    ctx.mc('MC_W32', constants={'SMAX': '40', 'YSTEP': '5' if ctx.quick else '1'}, coverage=False)
    n = 8000 if ctx.quick else 200000
    cfgs = [('v5', dict(arch_version=5)), ('v6', dict(arch_version=6)), ('v7', dict(arch_version=7)),
            ('v7r', dict(arch_version=7, is_armv7r_profile=True))]
    F.run_family(ctx, 'media', n, {'lanes': True}, F.exact_filter, configs=cfgs)
    ctx.extra['rule'] = ('random words of MUL/MLA/MLS, long/halfword/dual/most-significant-word multiplies, SDIV/UDIV, QADD.., '
                         'SSAT/USAT(16), the 36 parallel add/sub forms, SEL, USAD8/USADA8, SXT*/UXT*(+A), BFC/BFI/SBFX/UBFX, PKH, '
                         'REV*/RBIT/CLZ in ARM, 16- and 32-bit Thumb encodings; operands biased to lane boundaries '
                         '(0x7F/0x80/0xFF, 0x7FFF/0x8000), 0, 0x80000000, 0xFFFFFFFF and random; prior Q/GE random; the '
                         'arithmetic is the TLC-checked limb library (MC_W32 links it to the reference)')


def replay(ctx, path):
    from ..replay import replay_step
    return replay_step(ctx, path)
