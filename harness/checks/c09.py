"""C09 - multiply, divide, saturating, packed-SIMD, bit-field instructions are bit-exact."""
import random

from .. import campaign as C
from .. import families as F
from ..tlc import MachineryError
from ..words import K32, limbs


def run(ctx):
    ctx.mc('MC_W32', constants={'SMAX': '40', 'YSTEP': '5' if ctx.quick else '1'}, coverage=False)
    n = 8000 if ctx.quick else 200000
    cfgs = [('v5', dict(arch_version=5)), ('v6', dict(arch_version=6)), ('v7', dict(arch_version=7)),
            ('v7r', dict(arch_version=7, is_armv7r_profile=True))]
    items = F.boundary_items(random.Random(ctx.seed), ctx.quick)
    grid = C.parallel(F.grid_task, [dict(name='grid-%d' % i, seed=ctx.seed + i, cfg=dict(arch_version=7), items=items[i::16])
                                    for i in range(16)])
    res = F.run_family(ctx, 'media', n, {'lanes': True}, F.exact_filter, configs=cfgs, extra_groups=grid)
    ctx.extra['boundary_grid_events'] = len(items)
    notexact = sorted({g.meta[e['id']]['gen'] for g, e, v in res if g.name.startswith('grid-') and not v['path'].startswith('exact:')})
    if notexact:
        raise MachineryError('boundary-grid words not judged exactly (generator encodes them wrongly?): %s' % notexact)
    ctx.extra['rule'] = ('random words of MUL/MLA/MLS, long/halfword/dual/most-significant-word multiplies, SDIV/UDIV, QADD.., '
                         'SSAT/USAT(16), the 36 parallel add/sub forms, SEL, USAD8/USADA8, SXT*/UXT*(+A), BFC/BFI/SBFX/UBFX, PKH, '
                         'REV*/RBIT/CLZ in ARM, 16- and 32-bit Thumb encodings; a directed grid of every boundary lane pair at every lane '
                         'placement for the 36 parallel forms, boundary operand pairs for QADD../multiplies, saturation bounds +-1; operands biased to lane boundaries '
                         '(0x7F/0x80/0xFF, 0x7FFF/0x8000), 0, 0x80000000, 0xFFFFFFFF and random; prior Q/GE random; the '
                         'arithmetic is the TLC-checked limb library (MC_W32 links it to the reference)')


def replay(ctx, path):
    from ..replay import replay_step
    return replay_step(ctx, path)
