"""C16 - memory hub: accesses touch exactly the mapped device bytes, never resize a device, never fail.

MC_Hub (TLC): all histories of reads/writes around small device layouts, the operational Hub.tla model against the
property's device/flat reading.  Spec -> code: every TLC behaviour is replayed on a real MemoryControllerHub with RAM
devices; after each call the device sizes, every byte of every device and the value read are compared.
Code -> spec: random long histories through Trace_Hub."""
import random

from .. import tlc
from ..core import log


class _PA:
    pass


def _desc(addr):
    from armulator.armv6.address_descriptor import AddressDescriptor
    d = AddressDescriptor()
    d.paddress.physicaladdress = addr
    return d


def build_hub(hi, devs):
    from armulator.armv6.memory_controller_hub import MemoryControllerHub
    hub = MemoryControllerHub()
    off = (1 << 32) - 16 if hi else 0
    for b, n in devs:
        hub.add_memory('RAM', off + b, off + b + n)
    return hub, off


def replay_one(beh):
    """returns list of failing clause names for one behaviour"""
    lay = beh[0]
    hub, off = build_hub(lay['hi'], lay['devs'])
    sizes = [n for b, n in lay['devs']]
    for si, st in enumerate(beh[1:], 1):
        addr = off + st['addr']
        try:
            if st['a'] == 'write':
                hub[_desc(addr), st['sz']] = int.from_bytes(bytes(st['bytes']), 'little')
                val = None
            else:
                val = hub[_desc(addr), st['sz']]
        except Exception as ex:
            return ['hosterror:%s' % type(ex).__name__], si
        bad = []
        for d, mc in enumerate(hub.memories):
            arr = mc.mem.memory_array
            if len(arr) != sizes[d]:
                bad.append('size')
                continue
            dc = {tuple(c) for c in st.get('dc', [])} if st['a'] == 'write' else set()
            for j, exp in enumerate(st['post'][d]):
                if (d + 1, j) in dc:
                    continue
                if arr[j] != exp:
                    bad.append('bytes')
                    break
        if st['a'] == 'read' and not st['crossed']:
            if val != int.from_bytes(bytes(st['bytes']), 'little'):
                bad.append('value')
        if bad:
            return sorted(set(bad)), si
        # a crossing write leaves the in-range bytes unspecified: continue from what the implementation did
        # only if it agrees with the spec's choice; otherwise stop comparing this behaviour (not a failure)
        if st['a'] == 'write' and st.get('dc'):
            for d, mc in enumerate(hub.memories):
                if list(mc.mem.memory_array) != st['post'][d]:
                    return [], si
    # physical addresses are 40 bits wide (supersection / long-descriptor outputs): an address with PA<39:32> # 0 is covered
    # by no controller (Mem!PhysRead / PhysWrite: ext # 0 addresses nothing) - it reads zero and a write changes no device
    before = [bytes(mc.mem.memory_array) for mc in hub.memories]
    last = beh[-1]
    for ext in (1, 0x80, 0xFF):
        for sz in (1, 4, 8):
            a = (ext << 32) | ((off + last['addr']) & 0xFFFFFFFF)
            try:
                v = hub[_desc(a), sz]
                hub[_desc(a), sz] = (1 << (8 * sz)) - 1
            except Exception as ex:
                return ['hosterror:%s' % type(ex).__name__], len(beh) - 1
            if v != 0:
                return ['ext-alias-read'], len(beh) - 1
            if [bytes(mc.mem.memory_array) for mc in hub.memories] != before:
                return ['ext-alias-write'], len(beh) - 1
    return [], len(beh) - 1


def run(ctx):
    rnd = random.Random(ctx.seed)
    q = ctx.quick
    ctx.mc('MC_Hub', constants={'DEPTH': '2' if q else '3', 'GEN': 'FALSE'})
    r = tlc.run_mc('MC_Hub', constants={'DEPTH': '2', 'GEN': 'TRUE'}, workers=1, coverage=False, timeout=1200)
    behs = tlc.printed_json(r['out'])
    if len(behs) < 10000:
        raise tlc.MachineryError('MC_Hub generated only %d behaviours' % len(behs))
    n_sim = 2000 if q else 40000
    r2 = tlc.run_mc('MC_Hub', constants={'DEPTH': '8', 'GEN': 'TRUE'}, workers=1, coverage=False,
                    simulate='num=%d' % n_sim, depth=10, seed=ctx.seed, timeout=1200)
    behs2 = tlc.printed_json(r2['out'])
    if len(behs2) < n_sim // 2:
        raise tlc.MachineryError('MC_Hub simulation produced only %d behaviours' % len(behs2))
    for tag, bs in (('bfs-depth2', behs), ('simulate-depth8', behs2)):
        for beh in bs:
            failing, at = replay_one(beh)
            ctx.behaviours += 1
            if failing:
                st = beh[at]
                dev = None
                crossing = False
                for d, (b, n) in enumerate(beh[0]['devs']):
                    if b <= st['addr'] < b + n:
                        dev, crossing = d, st['addr'] + st['sz'] > b + n
                        break
                ctx.judge('MemoryControllerHub.__%sitem__' % ('set' if st['a'] == 'write' else 'get'),
                          [f.split(':')[0] for f in failing],
                          {'crossing_device_end': crossing, 'op': st['a'], 'err': failing[0]},
                          {'behaviour': beh, 'failing_step': at}, what='%s at step %d of %s' % (failing, at, tag))
    # binding canary: a corrupted expected post-state must be rejected
    bad = [dict(s) for s in behs[len(behs) // 2]]
    for s in bad[1:]:
        if s['a'] == 'write' and not s.get('dc'):
            post = [list(x) for x in s['post']]
            post[0][0] ^= 1
            s['post'] = post
            break
    f, _ = replay_one(bad)
    ctx.canary(bool(f) or not any(s.get('a') == 'write' and not s.get('dc') for s in bad[1:]))
    ctx.sample({'spec behaviour replayed on MemoryControllerHub': behs2[0][:3]})
    ctx.extra['rule'] = ('all MC_Hub behaviours of depth 2 (7 layouts x every address 6..20 x sizes 1/2/4/8 x read/write) '
                         'and simulated depth-8 behaviours replayed on a real hub: device sizes, every byte, values read, '
                         'no host error; after each behaviour the same address with PA<39:32> = 1 / 0x80 / 0xFF reads zero and ignores writes')
    ctx.exhaustive = True


def replay(ctx, path):
    import json
    case = json.load(open(path))['case']
    f, at = replay_one(case['behaviour'])
    from ..core import out
    out(json.dumps({'failing': f, 'at_step': at}))
    if f:
        out('VIOLATION property=C16 replay=%s' % path)
        return 1
    return 0
