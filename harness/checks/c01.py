"""C01 - data-processing instructions: result, flags, PC; nothing else changes."""
import random

from .. import campaign as C
from .. import isa_gen as G
from ..core import log


def t16_dp_word(rnd):
    r = rnd.random()
    if r < 0.45:
        return rnd.getrandbits(14)                     # 00xxxxxx: shift/add/sub/mov/cmp immediate forms
    if r < 0.75:
        return 0x4000 | rnd.getrandbits(10)            # 010000: data processing
    if r < 0.9:
        return 0x4400 | rnd.getrandbits(10) & 0x2FF    # 010001 00xx/01xx/10xx: ADD/CMP/MOV high registers
    return rnd.choice([0xA000, 0xA800, 0xB000]) | rnd.getrandbits(8) | (rnd.getrandbits(3) << 8 if r < 0.97 else 0)


def gen_task(task):
    """random data-processing words on one architecture version (runs in a worker process)"""
    rnd = random.Random(task['seed'])
    arch = task['arch']
    g = C.Group(task['name'], arch_version=arch)
    modes = [16, 17, 18, 19, 22, 23, 27, 31]
    for k in range(task['n']):
        thumb = rnd.random() < 0.5
        st = g.fresh()
        pc = rnd.randrange(0, 60) * 4
        it = 0
        if thumb and rnd.random() < 0.4:
            fc = rnd.randrange(0, 14)
            it = (fc << 4) | rnd.choice([8, 4, 12, 2, 6, 10, 14, 1, 3, 5, 7, 9, 11, 13, 15])
        C.randomize(st, rnd, mode=rnd.choice(modes), thumb=thumb, it=it, pc=pc)
        if not thumb:
            name, pat = rnd.choice(G.ARM_DP)
            w = G.fill(pat, rnd, fixed={'c': rnd.choice(G.COND_BIAS)})
        elif rnd.random() < 0.5:
            name, w = 't16', t16_dp_word(rnd)
        else:
            name, pat = rnd.choice(G.T32_DP)
            w = G.fill(pat, rnd)
        C.put_instr(st, pc, w, thumb)
        g.add(st, {'n': 'Step'}, meta={'gen': name, 'word': w})
    return [g]


def grid_task(task):
    """spec -> code: the grid points TLC enumerated in MC_DP (word, Rn, Rm, Rs, carry), executed by emulate_cycle()"""
    g = C.Group(task['name'], arch_version=7)
    for sc in task['items']:
        st = g.fresh()
        C.randomize(st, random.Random(0), mode=19, thumb=False, pc=64)
        st['R']['R0usr'] = [23130, 42405]
        st['R']['R1usr'], st['R']['R2usr'], st['R']['R3usr'] = sc['x'], sc['y'], sc['rs']
        st['cpsr'] = [sc['c'] * 8192 + 16384 + 4096, 19]
        w = (sc['w'][0] << 16) | sc['w'][1]
        C.put_instr(st, 64, w, False)
        g.add(st, {'n': 'Step'}, meta={'gen': 'mc_dp', 'word': w})
    return [g]


DP_PATH_PREFIXES = ('exact:',)


def clause_filter(c, v, e):
    # C01 is about the exact post-state of specified data-processing encodings
    return v['path'].startswith('exact') and c not in ('range', 'confine', 'nop-on-condfail')


def _dispatch(t):
    return t[0](t[1])


def run(ctx):
    from .. import tlc
    from ..tlc import MachineryError
    rnd = random.Random(ctx.seed)
    q = ctx.quick
    ctx.mc('MC_Cond', workers=4)
    # the data-processing semantics of the specification against the property's wording (no AddWithCarry), on the grid
    # opcode x S x carry x operand-2 form x boundary operands; then the same grid is executed by the real code
    nv = '3' if q else '6'
    # one run: the invariants are checked and (GEN) every scenario is printed
    rs = ctx.mc('MC_DP', constants={'GEN': 'TRUE', 'NV': nv}, coverage=False, timeout=3000)
    grid = [x for x in tlc.printed_json(rs['out']) if isinstance(x, dict) and 'w' in x]
    if len(grid) < 15000:
        raise MachineryError('MC_DP printed only %d grid points' % len(grid))
    n = 1500 if q else 12000
    tasks = [(gen_task, dict(name='pmsa-v%d-%d' % (arch, j), arch=arch, seed=ctx.seed + 10 * arch + j, n=n))
             for arch in (4, 5, 6, 7) for j in range(4)]
    tasks += [(grid_task, dict(name='mcdp-%d' % i, items=grid[i::16])) for i in range(16)]
    groups = C.parallel(_dispatch, tasks)
    ctx.behaviours += len(grid)
    res = C.judge_groups(ctx, groups, clause_filter, rnd=rnd,
                         tags_of=lambda g, e, v: {'arch': g.cfg['arch_version'], 'enc': v['path'].split(':')[-1]})
    notexact = sum(1 for g, e, v in res if g.name.startswith('mcdp-') and not v['path'].startswith('exact:'))
    if notexact:
        raise MachineryError('%d MC_DP grid points were not judged exactly' % notexact)
    exact = sum(1 for g, e, v in res if v['path'].startswith('exact'))
    ctx.extra['exact_events'] = exact
    ctx.extra['envelope_only_events'] = len(res) - exact
    ctx.extra['mc_dp_grid_points_replayed'] = len(grid)
    ctx.extra['rule'] = ('MC_DP (TLC): 16 opcodes x S x carry-in x {immediate rotations, LSL/LSR/ASR/ROR #0/#1/#31/#32, RRX, register-'
                         'shifted with Rs in 0,1,31,32,33,255,256} x boundary operands: result / N Z C V against the prose '
                         '(carry as an unsigned comparison, overflow by signs, logical ops take C from the shifter and keep V), '
                         'frame; every grid point then executed by emulate_cycle() and judged on the complete state; plus seeded '
                         'random ARM / 16-bit / 32-bit Thumb data-processing words on ARMv4..v7 in 8 modes, inside and outside IT blocks')
    for g, e, v in res[:3]:
        ctx.sample({'group': g.name, 'event': e, 'verdict': v})
    ctx.distinct = {(g.name, e['id']) for g, e, v in res if v['path'].startswith('exact')}


def replay(ctx, path):
    from ..replay import replay_step
    return replay_step(ctx, path)
