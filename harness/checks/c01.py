"""C01 - data-processing instructions: result, flags, PC; nothing else changes."""
import random

from .. import campaign as C
from .. import isa_gen as G
from ..core import log


def t16_dp_word(rnd):
    r = rnd.random()
    if r < 0.45:
        return rnd.getrandbits(14)                     # 00xxxxxx: shift/add/sub/mov/cmp immediate forms
    if r < 0.75:
        return 0x4000 | rnd.getrandbits(10)            # 010000: data processing
    if r < 0.9:
        return 0x4400 | rnd.getrandbits(10) & 0x2FF    # 010001 00xx/01xx/10xx: ADD/CMP/MOV high registers
    return rnd.choice([0xA000, 0xA800, 0xB000]) | rnd.getrandbits(8) | (rnd.getrandbits(3) << 8 if r < 0.97 else 0)


def gen(ctx, rnd, n_per_group):
    groups = []
    for arch in (4, 5, 6, 7):
        g = C.Group('pmsa-v%d' % arch, arch_version=arch)
        groups.append(g)
        modes = [16, 17, 18, 19, 22, 23, 27, 31]
        for k in range(n_per_group):
            thumb = rnd.random() < 0.5
            st = g.fresh()
            pc = rnd.randrange(0, 60) * 4
            it = 0
            if thumb and rnd.random() < 0.4:
                fc = rnd.randrange(0, 14)
                it = (fc << 4) | rnd.choice([8, 4, 12, 2, 6, 10, 14, 1, 3, 5, 7, 9, 11, 13, 15])
            C.randomize(st, rnd, mode=rnd.choice(modes), thumb=thumb, it=it, pc=pc)
            if not thumb:
                name, pat = rnd.choice(G.ARM_DP)
                w = G.fill(pat, rnd, fixed={'c': rnd.choice(G.COND_BIAS)})
            elif rnd.random() < 0.5:
                name, w = 't16', t16_dp_word(rnd)
            else:
                name, pat = rnd.choice(G.T32_DP)
                w = G.fill(pat, rnd)
            C.put_instr(st, pc, w, thumb)
            g.add(st, {'n': 'Step'}, meta={'gen': name, 'word': w})
    return groups


DP_PATH_PREFIXES = ('exact:',)


def clause_filter(c, v, e):
    # C01 is about the exact post-state of specified data-processing encodings
    return v['path'].startswith('exact') and c not in ('range', 'confine', 'nop-on-condfail')


def run(ctx):
    rnd = random.Random(ctx.seed)
    ctx.mc('MC_Cond', workers=4)
    n = 1500 if ctx.quick else 40000
    groups = gen(ctx, rnd, n)
    res = C.judge_groups(ctx, groups, clause_filter, rnd=rnd,
                         tags_of=lambda g, e, v: {'arch': g.cfg['arch_version'], 'enc': v['path'].split(':')[-1]})
    exact = sum(1 for g, e, v in res if v['path'].startswith('exact'))
    ctx.extra['exact_events'] = exact
    ctx.extra['envelope_only_events'] = len(res) - exact
    for g, e, v in res[:3]:
        ctx.sample({'group': g.name, 'event': e, 'verdict': v})
    ctx.distinct = {(g.name, e['id']) for g, e, v in res if v['path'].startswith('exact')}


def replay(ctx, path):
    from ..replay import replay_step
    return replay_step(ctx, path)
