"""C05 - conditional execution: the 16-row condition table; a failed condition makes the instruction a no-op;
a passed condition behaves as the unconditional instruction."""
import random

from .. import campaign as C
from .. import sweeps as S
from .. import isa_gen as G
from ..words import limbs
from .c18 import _dispatch


def holds(cond, f):
    n, z, c, v = (f >> 3) & 1, (f >> 2) & 1, (f >> 1) & 1, f & 1
    r = [z, c, n, v, c and not z, n == v, n == v and not z, True][cond >> 1]
    return bool(r) if (cond == 15 or not cond & 1) else not r      # test-input selection only; TLC judges


FAILING = [(c, f) for c in range(14) for f in range(16) if not holds(c, f)]
PASSING = [(c, f) for c in range(14) for f in range(16) if holds(c, f)]


def set_flags(st, f):
    c = C.unlimbs(st['cpsr'])
    st['cpsr'] = limbs((c & 0x0FFFFFFF) | (f << 28))


def set_it(st, it):
    c = C.unlimbs(st['cpsr']) & ~0x0600FC00
    st['cpsr'] = limbs(c | ((it >> 2) & 0x3F) << 10 | (it & 3) << 25)


ARM_ARMING = [0xEF000000, 0xE7F000F0, 0xE5900000, 0xE1200070]       # SVC, UDF, LDR r0,[r0] (may abort), BKPT: leave execute() by exception


def arm_the_instance(g, rnd, task, thumb):
    """history: an instruction whose condition PASSES and which leaves execute() through an exception, on the same
    object, just before a condition-failed one (state left behind by the first must not leak into the second)"""
    st, pc = S.prep(g, rnd, task, thumb, 0, rnd.randrange(8))
    if thumb:
        C.put_instr(st, pc, rnd.choice([0xDF00, 0xDE00, 0x6800, 0xBE00]), True)
    else:
        C.put_instr(st, pc, rnd.choice(ARM_ARMING), False)
    g.add(st, {'n': 'Step'}, meta={'word': 0, 'cond': 14, 'flags': 0, 'arming': True})


def neg_arm(task):
    rnd = random.Random(task['seed'])
    g = S.mk_group(task)
    for k, w in enumerate(task['words']):
        cond, f = task['pairs'][k % len(task['pairs'])]
        if k % 5 == 0:
            arm_the_instance(g, rnd, task, False)
        st, pc = S.prep(g, rnd, task, False, 0, k)
        set_flags(st, f)
        C.put_instr(st, pc, (w & 0x0FFFFFFF) | (cond << 28), False)
        g.add(st, {'n': 'Step'}, meta={'word': (w & 0x0FFFFFFF) | (cond << 28), 'cond': cond, 'flags': f})
    return [g]


def neg_thumb(task):
    """Thumb words inside an IT block whose condition fails"""
    rnd = random.Random(task['seed'])
    g = S.mk_group(task)
    for k, w in enumerate(task['words']):
        cond, f = task['pairs'][k % len(task['pairs'])]
        if k % 5 == 0:
            arm_the_instance(g, rnd, task, True)
        st, pc = S.prep(g, rnd, task, True, 0, k)
        set_flags(st, f)
        set_it(st, (cond << 4) | (8 if k % 2 else rnd.choice(S.IT_MID)))
        C.put_instr(st, pc, w, True)
        if not w >> 16:
            C.put_code(st, 0, pc + 2, rnd.getrandbits(16), 2)
        g.add(st, {'n': 'Step'}, meta={'word': w, 'cond': cond, 'flags': f})
    return [g]


def pos_pairs(task):
    """positive path: (word under passing cond X) vs (same word under AL) from the same pre-state"""
    rnd = random.Random(task['seed'])
    g = S.mk_group(dict(task, fetchless=True))
    for k, (thumb, w) in enumerate(task['words']):
        cond, f = task['pairs'][k % len(task['pairs'])]
        st, pc = S.prep(g, rnd, task, thumb, 0, k)
        set_flags(st, f)
        st2 = {kk: (dict(v) if isinstance(v, dict) and kk != 'mem' else v) for kk, v in st.items()}
        st2['mem'] = {'devs': st['mem']['devs'], 'base': [list(b) for b in st['mem']['base']]}
        if thumb:
            set_it(st, (cond << 4) | 8)
            set_it(st2, (14 << 4) | 8)
            C.put_instr(st, pc, w, True)
            C.put_instr(st2, pc, w, True)
        else:
            if w >> 28 == 15:
                continue
        if thumb:
            a1 = a2 = {'n': 'Step'}
        else:
            # fetch-less execution (what the repository's own test fixture does): identical memory in both runs
            a1 = {'n': 'Exec', 'w': limbs((w & 0x0FFFFFFF) | (cond << 28)), 'len': 32}
            a2 = {'n': 'Exec', 'w': limbs((w & 0x0FFFFFFF) | (14 << 28)), 'len': 32}
        e1, _ = g.add(st, a1, meta={'word': w, 'cond': cond, 'flags': f, 'pair': 'X'})
        e2, _ = g.add(st2, a2, meta={'word': w, 'cond': 14, 'flags': f, 'pair': 'AL'})
        if e1['nunp'] or e2['nunp']:
            continue                       # UNPREDICTABLE as flagged by the implementation: envelope only
        eid = len(g.events) + 1
        g.events.append({'id': eid, 'pre': {}, 'act': {'n': 'SameDelta'}, 'out': e1['out'], 'out2': e2['out'],
                         'cls': e1['cls'], 'nunp': 0, 'd': e1['d'], 'd2': e2['d'],
                         'full': (not thumb) or (e1['out'] == 'completed' and e2['out'] == 'completed')})
        g.meta[eid] = {'word': w, 'cond': cond, 'flags': f, 'pair': 'cmp', 'thumb': thumb}
    return [g]


def thumb_cond_branches(task):
    """the Thumb instructions that carry their own condition: B<c> T1 and B<c>.W T3 outside IT blocks, every
    (cond, NZCV) - failing ones must be a no-op, passing ones must branch (both are exactly specified)"""
    rnd = random.Random(task['seed'])
    g = S.mk_group(task)
    k = 0
    for cond in range(14):
        for f in range(16):
            for imm8 in (0x00, 0x7F, 0x80, 0xFE, rnd.getrandbits(8)):
                st, pc = S.prep(g, rnd, task, True, 0, k)
                k += 1
                set_flags(st, f)
                C.put_instr(st, pc, 0xD000 | (cond << 8) | imm8, True)
                g.add(st, {'n': 'Step'}, meta={'word': 0xD000 | (cond << 8) | imm8, 'cond': cond, 'flags': f})
            for _ in range(2):
                w = (0xF000 | (rnd.getrandbits(1) << 10) | (cond << 6) | rnd.getrandbits(6)) << 16 | \
                    0x8000 | (rnd.getrandbits(1) << 13) | (rnd.getrandbits(1) << 11) | rnd.getrandbits(11)
                st, pc = S.prep(g, rnd, task, True, 0, k)
                k += 1
                set_flags(st, f)
                C.put_instr(st, pc, w, True)
                g.add(st, {'n': 'Step'}, meta={'word': w, 'cond': cond, 'flags': f})
    return [g]


def excret_into_it(task):
    """two-step histories: an exception return (MOVS PC,LR / SUBS PC,LR,#imm / RFE) from an ARM-state handler into Thumb code
    in the MIDDLE of an IT block - the SPSR holds a random legal ITSTATE - and then, on the same object without re-preparing it,
    the instruction returned to, which must execute (or not) under exactly the restored IT condition"""
    rnd = random.Random(task['seed'])
    g = S.mk_group(dict(task, randmem=task['seed']))
    for k in range(task['n']):
        st, pc = S.prep(g, rnd, dict(task, modes='all'), False, 0, k)
        pc = 8 + 4 * rnd.randrange(28)                       # the handler's instruction: below the return target (0x80..) and the RFE frame (0xC0)
        st['R']['PC'] = limbs(pc)
        mode = rnd.choice([19, 18, 23, 27, 17])
        bank = {19: 'svc', 18: 'irq', 23: 'abt', 27: 'und', 17: 'fiq'}[mode]
        st['cpsr'] = limbs((C.unlimbs(st['cpsr']) & ~0x1F & ~0x0600FC20) | mode)
        cond, f = rnd.randrange(14), rnd.randrange(16)
        it = (cond << 4) | rnd.randrange(1, 16)
        target = 0x80 + 2 * rnd.randrange(24)
        spsr = (f << 28) | 0x20 | 16 | ((it >> 2) & 0x3F) << 10 | (it & 3) << 25
        st['spsr'][bank] = limbs(spsr)
        kind = rnd.randrange(3)
        if kind == 0:
            w = 0xE1B0F00E                                                   # MOVS pc, lr
            st['R']['LR' + bank] = limbs(target)
        elif kind == 1:
            imm = rnd.choice([4, 8, 2])
            w = 0xE25EF000 | imm                                             # SUBS pc, lr, #imm
            st['R']['LR' + bank] = limbs(target + imm)
        else:
            w = 0xF89D0A00 | (rnd.getrandbits(1) << 21)                      # RFEIA sp{!}
            st['R']['SP' + bank] = limbs(0xC0)
            mem = st['mem']['base'][0]
            mem[0xC0:0xC8] = [(target >> (8 * i)) & 0xFF for i in range(4)] + [(spsr >> (8 * i)) & 0xFF for i in range(4)]
        C.put_instr(st, pc, w, False)
        h = 0x3000 | (rnd.randrange(8) << 8) | rnd.getrandbits(8)              # ADDS Rd, #imm8 (no flags inside the block)
        C.put_instr(st, target, h, True)
        e, post = g.add(st, {'n': 'Step'}, meta={'word': w, 'excret': 1, 'it': it, 'flags': f})
        if e['out'] == 'completed':
            cur = C.M.project(g.arm)
            cur = {k2: cur[k2] for k2 in ('R', 'cpsr', 'spsr', 'elr', 'sys', 'mem', 'ev')}
            g.add(cur, {'n': 'Step'}, meta={'word': h, 'excret': 2, 'it': it, 'flags': f, 'cond': cond})
    return [g]


def clause_filter(c, v, e):
    if c in ('nop-on-condfail', 'cond-pass-differs'):
        return True
    if v['path'].startswith('exact:') and c == 'cpsr.IT':
        return True                                           # the IT state is what conditions are read from
    if v['path'] in ('exact:B_T1', 'exact:B_T3'):
        return c not in ('range', 'confine')                  # a conditional branch whose condition passes must branch
    return v['path'].startswith('exact:condfail') and c not in ('hosterror', 'range', 'confine')


def run(ctx):
    rnd = random.Random(ctx.seed)
    q = ctx.quick
    ctx.mc('MC_Cond', workers=4)
    tasks = []
    n = 1200 if q else 20000
    # every encoding class known from the repository's tests (+ class-preserving variants) under failing conditions
    cw = S.class_word_list(ctx.seed, 6 if q else 40)
    arm_cw = [w for th, w in cw if not th and w >> 28 != 15]
    t16_cw = [w for th, w in cw if th and not w >> 16]
    t32_cw = [w for th, w in cw if th and w >> 16]
    for i in range(2):
        tasks.append((neg_arm, dict(name='neg-armcls-%d' % i, seed=ctx.seed + 300 + i, words=arm_cw[i::2], pairs=FAILING[i::2],
                                    modes='all', cfg={'arch_version': 7} if i else {})))
        tasks.append((neg_thumb, dict(name='neg-t32cls-%d' % i, seed=ctx.seed + 310 + i, words=t32_cw[i::2] + t16_cw[i::2],
                                      pairs=FAILING[i::2], modes='all', cfg={'arch_version': 7} if i else {})))
    tasks.append((pos_pairs, dict(name='pos-cls', seed=ctx.seed + 320, words=[(th, w) for th, w in cw[::2]], pairs=PASSING,
                                  modes='all')))
    for i in range(6):
        ws = [w for th, w in S.random_words(random.Random(ctx.seed + i), 3 * n) if not th][:n]
        tasks.append((neg_arm, dict(name='neg-arm-%d' % i, seed=ctx.seed + i, words=ws, pairs=FAILING, modes='all',
                                    cfg={'arch_version': 7} if i % 2 else {})))
    # every 16-bit Thumb word inside an IT block with a failing condition (quick: every 4th word)
    step = 4 if q else 1
    for i in range(8):
        ws = list(range(i * 8192 + (ctx.seed % step), (i + 1) * 8192, step))
        tasks.append((neg_thumb, dict(name='neg-t16-%d' % i, seed=ctx.seed + 50 + i, words=ws, pairs=FAILING,
                                      modes='all')))
    for i in range(2):
        tasks.append((thumb_cond_branches, dict(name='tbcond-%d' % i, seed=ctx.seed + 400 + i, modes='all',
                                                cfg={'arch_version': 7} if i else {})))
    for i in range(4):
        ws = [w for th, w in S.random_words(random.Random(ctx.seed + 70 + i), 4 * n) if th][:n]
        tasks.append((neg_thumb, dict(name='neg-t32-%d' % i, seed=ctx.seed + 80 + i, words=ws, pairs=FAILING,
                                      modes='all', cfg={'arch_version': 7} if i % 2 else {})))
    for i in range(6):
        ws = S.random_words(random.Random(ctx.seed + 90 + i), n // 2)
        ws += [(True, rnd.getrandbits(16)) for _ in range(n // 4)]
        tasks.append((pos_pairs, dict(name='pos-%d' % i, seed=ctx.seed + 120 + i, words=ws, pairs=PASSING, modes='all')))
    for i in range(4):
        tasks.append((excret_into_it, dict(name='excret-it-%d' % i, seed=ctx.seed + 500 + i, n=150 if q else 4000,
                                           cfg={'arch_version': 7} if i % 2 else {})))
    groups = C.parallel(_dispatch, tasks)
    res = C.judge_groups(ctx, groups, clause_filter, rnd=rnd,
                         tags_of=lambda g, e, v: dict(g.meta.get(e['id'], {}), grp=g.name.rsplit('-', 1)[0]))
    pairs_seen = {(g.meta[e['id']]['cond'], g.meta[e['id']]['flags']) for g, e, v in res
                  if g.name.startswith('neg') and e['id'] in g.meta}
    ctx.extra['failing_cond_flag_pairs_exercised'] = len(pairs_seen)
    ctx.extra['failing_cond_flag_pairs_total'] = len(FAILING)
    ctx.extra['positive_pairs_compared'] = sum(1 for g, e, v in res if v['path'] == 'pair:cond-pass')
    ctx.extra['encoding_class_words'] = len(cw)
    ctx.extra['rule'] = ('negative path: every encoding class word harvested from the repository tests (+ class-preserving variants),  ARM words with every failing (cond, NZCV) pair, every 16-bit Thumb word '
                         '(quick: every 4th) and random 32-bit Thumb words inside an IT block whose condition fails '
                         '-> post must be exactly PC += len, IT advanced (or UNDEFINED/not-implemented); positive '
                         'path: same word under a passing condition and under AL from the same state must have the '
                         'same delta; exception returns (MOVS PC,LR / SUBS PC,LR / RFE) into the middle of an IT block followed by the '
                         'instruction returned to on the same object (restored IT state = the condition it executes under)')
    for g, e, v in res[:2] + res[-1:]:
        ctx.sample({'group': g.name, 'meta': g.meta.get(e['id']), 'out': e['out'], 'cls': e['cls'], 'delta': e['d'],
                    'verdict': v})
    ctx.distinct = {(g.name, e['id']) for g, e, v in res}


def replay(ctx, path):
    from ..replay import replay_step
    return replay_step(ctx, path)
