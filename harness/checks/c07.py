"""C07 - Thumb decode: every 16/32-bit encoding maps to the right instruction and operands."""
import random

from .. import campaign as C
from .. import decodecheck as D
from .. import suite_trace as ST
from .. import sweeps as S


def run(ctx):
    rnd = random.Random(ctx.seed)
    q = ctx.quick
    ctx.mc('MC_Decode', constants={'MODES': '{19}' if q else '{16, 19}', 'T16ALL': 'FALSE' if q else 'TRUE'}, coverage=False,
           timeout=3000)
    ctx.mc('MC_Cond', workers=4)
    # ---- all 2^16 halfwords as the first halfword of an instruction: 16-bit encodings judged (exactly where specified),
    #      32-bit prefixes (top five bits 11101 / 11110 / 11111) consume a random second halfword
    tasks = []
    cfgs = [D.CONFIGS[0][1], D.CONFIGS[1][1], D.CONFIGS[0][1], D.CONFIGS[3][1]]
    for i in range(16):
        tasks.append(dict(name='t16-%d' % i, seed=ctx.seed * 131 + i, lo=i * 4096, hi=(i + 1) * 4096,
                          itpos='rotate' if q else [0, 1, 2], modes='all', cfg=cfgs[i % 4], randmem=ctx.seed + i))
    g16 = C.parallel(S.sweep_t16, tasks)
    res16 = C.judge_groups(ctx, g16, D.clause_filter, rnd=rnd, tags_of=D.tags_of,
                           site_of=lambda e, v: (e.get('cls') or v['path']))
    D.summarize(ctx, res16, 't16')
    # instruction length is decided by the top five bits only: clause `ilen` of every event compares the
    # implementation's opcode_len with the spec's fetch (and the PC advance is part of every exact judgement)
    ctx.extra['ilen_events'] = sum(1 for g, e, v in res16 if 'ilen' in e)
    # ---- 32-bit encodings: cube partition of the implementation's decoder
    leaves = D.partition('t32', rnd, 20000 if q else 200000)
    words, ngroups = D.select_words(leaves, rnd, leaves_per_group=10 if q else 120, nrand=1 if q else 4,
                                    basis_leaves=1 if q else 6)
    words += [((rnd.choice([0b11101, 0b11110, 0b11111]) << 27) | rnd.getrandbits(27), None, 'uniform')
              for _ in range(4000 if q else 150000)]
    cw = S.class_word_list(ctx.seed, 4 if q else 40)
    words += [(w, None, 'classword') for th, w in cw if th]
    groups, res = D.run_words(ctx, rnd, words, thumb=True)
    D.check_cube_class(res, ctx)
    # every 32-bit class word (incl. MSR, the hint and barrier space, CLREX) inside an IT block whose condition FAILS, every
    # failing (cond, NZCV) pair in turn: the condition of a 32-bit Thumb instruction comes from the IT state, never from its own bits
    from .c05 import neg_thumb, FAILING
    t32cw = [w for th, w in cw if th and w >> 16]
    ngr = C.parallel(neg_thumb, [dict(name='t32cls-condfail-%d' % i, seed=ctx.seed * 17 + i, words=t32cw[i::4], pairs=FAILING[i::4],
                                      modes='all', cfg={'arch_version': 7}) for i in range(4)])
    nres = C.judge_groups(ctx, ngr, lambda c, v, e: D.clause_filter(c, v, e) or c == 'nop-on-condfail', rnd=rnd, tags_of=D.tags_of,
                          site_of=lambda e, v: (e.get('cls') or v['path']))
    ctx.extra['t32_class_words_in_failing_it_blocks'] = len(nres)
    # the repository's own tests as a trace source: every emulate_cycle() they perform, judged on the complete state
    sg, summary = ST.groups(thumb=True)
    sres = C.judge_groups(ctx, sg, D.clause_filter, rnd=rnd, tags_of=D.tags_of, site_of=lambda e, v: (e.get('cls') or v['path']))
    ctx.extra['repo_test_suite_events'] = {'events': len(sres), 'exact': sum(1 for g, e, v in sres if v['path'].startswith('exact')),
                                           'pytest': summary}
    if len(sres) < 100:
        raise D.MachineryError('only %d events recorded from the repository test suite' % len(sres))
    D.summarize(ctx, res, 't32')
    ctx.exhaustive = False
    ctx.extra['exhaustive_subspaces'] = ['all 2^16 first halfwords (x IT positions per tier)', 'class selection of the 32-bit decoder: cube partition tiling 3*2^27 words']
    ctx.extra.update({'t16_events': len(res16), 't32_cubes': len(leaves), 't32_classes': len({l[2] for l in leaves}),
                      't32_class_path_groups': ngroups, 't32_space_tiled': '3 * 2^27 (sum of cube sizes checked)'})
    ctx.extra['rule'] = ('all 2^16 halfwords executed as the first halfword in Thumb state (quick: one IT position per word '
                         'rotating outside / inside / last; thorough: all three), each judged by TLC - exact post-state for '
                         'specified encodings incl. PC advance by 2 or 4; the 32-bit decoder tree partitioned exhaustively '
                         'into %d cubes tiling 3*2^27 words, every one of the %d (class, path) groups executed on cube '
                         'members (representative, all-ones, per-free-bit flips, random) inside and outside IT blocks' %
                         (len(leaves), ngroups))
    ctx.assumptions.append('class selection of the 32-bit decoder is exhaustive for the implementation (cube partition); '
                           'agreement with the spec\'s decode is decided on the sampled members of every cube group; the '
                           'second halfword of 16-bit sweeps\' 32-bit prefixes is random')
    for g, e, v in res16[:1] + res[:1] + res[-1:]:
        ctx.sample({'group': g.name, 'meta': g.meta.get(e['id']), 'out': e['out'], 'cls': e['cls'],
                    'verdict': {k: v[k] for k in ('v', 'path')}})
    ctx.distinct = {(g.meta[e['id']]['word'], g.meta[e['id']].get('itpos')) for g, e, v in res16 + res}


def replay(ctx, path):
    from ..replay import replay_step
    return replay_step(ctx, path)
