"""C04 - control flow: PC advance, branch targets, link values, interworking, PC alignment."""
from .. import families as F
from .c02 import HI_MEM


def clause_filter(c, v, e):
    # every exactly-specified step is checked for PC, LR, T (and the rest of the state) here
    return v['path'].startswith('exact') and c not in ('range', 'confine', 'nop-on-condfail')


def grid_task(task):
    """spec -> code: the scenarios TLC enumerated in MC_BR (branch word, instruction address, Rm / Rn value, flags), executed by
    emulate_cycle() with a real fetch from RAM at 0x0.. / 0xFFFFFF00.. (fetch stubbed only at 0x80000000, where there is no RAM)"""
    import random
    from .. import campaign as C
    g = C.Group(task['name'], arch_version=7, memory_list=HI_MEM)
    for sc in task['items']:
        st = g.fresh()
        C.randomize(st, random.Random(0), mode=19, thumb=sc['len'] == 16 or sc['k'].endswith(('_t1', '_t2', '_t3', '_t4')) or sc['k'] in ('cbz', 'tb'), pc=0)
        for r in st['R']:
            st['R'][r] = [0, 96]
        st['R']['PC'] = sc['ia']
        st['R']['R1usr'], st['R']['R2usr'] = sc['r1'], sc['x']
        st['R']['LRsvc'] = [4660, 22136]
        st['R']['R0usr'] = [23130, 42405]
        thumb = bool(C.unlimbs(st['cpsr']) & 0x20)
        st['cpsr'] = [sc['fl'] * 4096, (32 if thumb else 0) + 19]
        st['sys']['SCTLR'] = [64, 0]
        mem = st['mem']['base'][0]
        for j in range(len(mem)):
            mem[j] = (j * 7 + 3) % 256
        w = (sc['w'][0] << 16) | sc['w'][1]
        ia = C.unlimbs(sc['ia'])
        if ia < 250:
            C.put_instr(st, ia, w, thumb)
            act = {'n': 'Step'}
        elif ia >= 0xFFFFFF00:
            C.put_instr(st, ia - 0xFFFFFF00, w, thumb, dev=1)
            act = {'n': 'Step'}
        else:
            act = {'n': 'Exec', 'w': sc['w'], 'len': sc['len']}
        g.add(st, act, meta={'gen': 'mc_br:' + sc['k'], 'word': w, 'thumb': thumb})
    return [g]


def _dispatch(t):
    return t[0](t[1])


def run(ctx):
    from .. import campaign as C
    from .. import tlc
    ctx.mc('MC_Cond', workers=4)
    # the branch semantics of the specification against the property's wording (offsets as signed integers by field weights,
    # targets = address + 8 / 4 + offset mod 2^32, link values, instruction-set selection, alignment, frame); then the same
    # scenarios are executed by the real code
    full = 'FALSE' if ctx.quick else 'TRUE'
    # one run: the invariants are checked and (GEN) every scenario is printed
    rs = ctx.mc('MC_BR', constants={'GEN': 'TRUE', 'FULL': full}, coverage=False, timeout=3000)
    grid = [x for x in tlc.printed_json(rs['out']) if isinstance(x, dict) and 'ia' in x]
    if len(grid) < 15000:
        raise tlc.MachineryError('MC_BR printed only %d scenarios' % len(grid))
    grid.sort(key=repr)
    if len(grid) > 40000:
        # thorough tier: TLC checks every scenario; a seeded third of them is also executed on the real code
        grid = [x for i, x in enumerate(grid) if (i + ctx.seed) % 3 == 0]
    ggroups = C.parallel(_dispatch, [(grid_task, dict(name='mcbr-%d' % i, items=grid[i::16])) for i in range(16)])
    ctx.behaviours += len(grid)
    ctx.extra['mc_br_scenarios_replayed'] = len(grid)
    n = 6000 if ctx.quick else 150000
    cfgs = [('v4', dict(arch_version=4)), ('v5', dict(arch_version=5)), ('v6', dict(arch_version=6, memory_list=HI_MEM)),
            ('v7', dict(arch_version=7, memory_list=HI_MEM))]

    def tags(g, e, v):
        m = g.meta.get(e['id'], {})
        w = m.get('word', 0)
        t = {'arch': g.cfg['arch_version'], 'enc': v['path'].split(':')[-1], 'gen': m.get('gen')}
        if t['enc'] == 'CBZ_T1':
            t['imm_nonzero'] = bool(((w >> 9) & 1) << 5 | ((w >> 3) & 31))
        return t
    res = F.run_family(ctx, 'br', n, {'data_ptrs': True, 'hi': True}, clause_filter, configs=cfgs, tags_of=tags, extra_groups=ggroups)
    notexact = sum(1 for g, e, v in res if g.name.startswith('mcbr-') and not v['path'].startswith('exact:'))
    if notexact:
        raise tlc.MachineryError('%d MC_BR scenarios were not judged exactly' % notexact)
    ctx.extra['rule'] = ('MC_BR (TLC): every branch encoding x affine basis of its offset fields x instruction addresses 0 / 0x40 / 0x42 / '
                         '0x80000000 / just below 2^32: target, link value, instruction set, alignment, frame against the arithmetic wording; '
                         'every scenario then executed by emulate_cycle(); plus random B/BL/BLX/BX/CBZ/CBNZ/TBB/TBH and PC-writing ALU words over all sign/size combinations of '
                         'the offset fields, instruction addresses in low RAM and at 0xFFFFFFxx (wrap), arch 4..7, both '
                         'instruction sets; PC advance by 2/4 is additionally checked by every exact event of C01-C03')


def replay(ctx, path):
    from ..replay import replay_step
    return replay_step(ctx, path)
