"""C04 - control flow: PC advance, branch targets, link values, interworking, PC alignment."""
from .. import families as F
from .c02 import HI_MEM


def clause_filter(c, v, e):
    # every exactly-specified step is checked for PC, LR, T (and the rest of the state) here
    return v['path'].startswith('exact') and c not in ('range', 'confine', 'nop-on-condfail')


def run(ctx):
    ctx.mc('MC_Cond', workers=4)
    n = 6000 if ctx.quick else 150000
    cfgs = [('v4', dict(arch_version=4)), ('v5', dict(arch_version=5)), ('v6', dict(arch_version=6, memory_list=HI_MEM)),
            ('v7', dict(arch_version=7, memory_list=HI_MEM))]

    def tags(g, e, v):
        m = g.meta.get(e['id'], {})
        w = m.get('word', 0)
        t = {'arch': g.cfg['arch_version'], 'enc': v['path'].split(':')[-1], 'gen': m.get('gen')}
        if t['enc'] == 'CBZ_T1':
            t['imm_nonzero'] = bool(((w >> 9) & 1) << 5 | ((w >> 3) & 31))
        return t
    res = F.run_family(ctx, 'br', n, {'data_ptrs': True, 'hi': True}, clause_filter, configs=cfgs, tags_of=tags)
    ctx.extra['rule'] = ('random B/BL/BLX/BX/CBZ/CBNZ/TBB/TBH and PC-writing ALU words over all sign/size combinations of '
                         'the offset fields, instruction addresses in low RAM and at 0xFFFFFFxx (wrap), arch 4..7, both '
                         'instruction sets; PC advance by 2/4 is additionally checked by every exact event of C01-C03')


def replay(ctx, path):
    from ..replay import replay_step
    return replay_step(ctx, path)
