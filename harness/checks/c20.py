"""C20 - determinism and isolation.  MC_Multi (TLC): two instances with their own configuration, every interleaving
of creation and steps; each instance's state after its k-th step equals its solo run.  Every complete schedule TLC
prints is replayed on real ArmV6 objects living in ONE Python process (no re-loading of the configuration between
steps); every step of every instance is judged by TLC against the specification under THAT instance's configuration.
Determinism: an instance is deep-copied after each step and both copies continued - the traces must be identical
(pair events judged by TLC) - also after differing prior histories (left-over opcode / executed_opcode fields)."""
import copy
import random

from .. import campaign as C
from .. import machine as M
from .. import tlc
from ..words import limbs

# the four configurations also differ in what a reset does: VBAR reset value / an IMPLEMENTATION DEFINED reset vector
_RV = dict(SCTLR="0b01000000000001010000000001111001", MIDR="0b01000001000011111010011101100000", ACTLR="0b00000000000000000000000000000111")
CFGS = {1: dict(arch_version=6, reset_values=dict(_RV, VBAR="0b00000000000000000000000001000000")),
        2: dict(arch_version=7, reset_values=dict(_RV, VBAR="0b00000000000000000000000000000000"), has_imp_def_reset_vector=True,
                impdef_reset_vector=0x60),
        3: dict(arch_version=7, memory_system_architecture='VMSA', reset_values=dict(_RV, VBAR="0b00000000000000000000000010100000")),
        4: dict(arch_version=6, have_security_ext=False)}
PROGS = {1: [1, 240, 160, 225, 0, 0, 160, 225, 0, 0, 160, 225],
         2: [0, 32, 147, 229, 4, 48, 131, 226, 0, 32, 147, 229],
         3: [0, 0, 0, 239, 0, 0, 160, 225, 0, 0, 160, 225],
         4: [178, 32, 211, 225, 1, 16, 129, 226, 4, 240, 31, 229],
         5: [3, 32, 131, 229, 0, 0, 160, 225, 0, 0, 160, 225],      # runs with SCTLR.M = 1 (see MC_Multi.tla)
         # determinism-only program (not in MC_Multi): flag-setting immediates whose carry-out is the incoming C flag
         6: [1, 0, 176, 227, 240, 16, 145, 227, 3, 32, 18, 226],    # MOVS r0,#1 ; ORRS r1,r1,#0xF0 ; ANDS r2,r2,#3
         # determinism-only: a result the architecture leaves UNKNOWN (STM with write-back storing a base that is not the lowest
         # listed register) may be any value - but the same value every time the same snapshot is stepped
         7: [128, 80, 160, 227, 112, 0, 165, 232, 8, 48, 21, 229]}   # MOV r5,#128 ; STMIA r5!,{r4,r5,r6} ; LDR r3,[r5,#-8]


def init_state(base, c, p):
    st = copy.deepcopy({k: base[k] for k in ('R', 'cpsr', 'spsr', 'elr', 'sys', 'mem', 'ev')})
    for r in st['R']:
        st['R'][r] = limbs(7)
    st['R']['PC'] = limbs(16)
    st['R']['R1usr'] = limbs(65)
    st['R']['R3usr'] = limbs(129)
    st['cpsr'] = [24576, 467]
    for m in st['spsr']:
        st['spsr'][m] = limbs(0)
    st['elr'] = limbs(0)
    for k in st['sys']:
        st['sys'][k] = limbs(0)
    st['sys']['SCTLR'] = limbs((1 << 22) if CFGS[c]['arch_version'] >= 7 else 0)
    st['sys']['VBAR'] = limbs(160)
    st['mem']['base'][0] = [(j * 13) % 256 for j in range(1, 257)]
    if p == 5:
        st['sys']['SCTLR'] = limbs(C.unlimbs(st['sys']['SCTLR']) | 1 | (1 << 28))
        st['sys']['MPUIR'] = limbs(256)
        st['sys']['DACR'] = limbs(1)
        st['sys']['PRRR'] = limbs(0xAAAA)
        st['sys']['DRSR0'] = limbs(63)
        st['sys']['DRACR0'] = limbs(0x608)
        st['mem']['base'][0][0:4] = [2, 12, 0, 0]
    st['mem']['base'][0][16:28] = PROGS[p]
    return st


class Inst:
    """one live processor instance + the (header, events) group its steps are recorded in"""
    paths = {}

    def __init__(self, c, p):
        if c not in Inst.paths:
            Inst.paths[c] = M.make_config(**CFGS[c])
        self.path, self.cfg = Inst.paths[c]
        self.arm = M.new_arm(self.path)             # loads the configuration (process-wide in the implementation!)
        self.c, self.p = c, p
        self.arm.take_reset()
        self.arm.registers.sctlr.m = 0
        base = M.project(self.arm)
        M.inject(self.arm, init_state(base, c, p))
        self.base = M.project(self.arm)
        self.events = []

    def step(self, gd):
        pre = M.project(self.arm)
        out, cls, nunp = M.run_action(self.arm, {'n': 'Step'})
        post = M.project(self.arm)
        e = {'id': len(gd.events) + 1, 'pre': M.diff(gd.base, pre), 'act': {'n': 'Step'}, 'out': out, 'cls': cls, 'nunp': nunp,
             'd': M.post_delta(pre, post)}
        if getattr(self.arm, '_last_tb', None):
            e['tb'] = self.arm._last_tb
        gd.events.append(e)
        return e


    def reset(self, gd):
        """warm reset of this instance (take_reset()), recorded as a Reset event"""
        pre = M.project(self.arm)
        out, cls, nunp = M.run_action(self.arm, {'n': 'Reset'})
        post = M.project(self.arm)
        e = {'id': len(gd.events) + 1, 'pre': M.diff(gd.base, pre), 'act': {'n': 'Reset'}, 'out': out, 'cls': cls, 'nunp': nunp,
             'd': M.post_delta(pre, post)}
        gd.events.append(e)
        return e


class GD:
    def __init__(self, name, cfg, base):
        self.name, self.cfg, self.base, self.events, self.meta = name, cfg, base, [], {}

    def header(self):
        return M.header(self.cfg, self.base)


def run(ctx):
    rnd = random.Random(ctx.seed)
    q = ctx.quick
    r = ctx.mc('MC_Multi', constants={'GEN': 'TRUE', 'STEPS': '2' if q else '3'}, coverage=False, timeout=3000)
    scheds = tlc.printed_json(r['out'])
    if len(scheds) < 200:
        raise tlc.MachineryError('MC_Multi printed only %d schedules' % len(scheds))
    scheds.sort(key=repr)
    if q:
        scheds = [s for i, s in enumerate(scheds) if (i + ctx.seed) % 4 == 0]
    groups = {}
    pair_group = None
    for si, sched in enumerate(scheds):
        insts = {}
        for a in sched:
            if a['a'] == 'create':
                insts[a['i']] = Inst(a['c'], a['p'])
            else:
                it = insts[a['i']]
                key = (it.c, it.p)
                if key not in groups:
                    groups[key] = GD('inst-c%d-p%d' % key, it.cfg, it.base)
                gd = groups[key]
                e = it.step(gd)
                gd.meta[e['id']] = {'schedule': si, 'inst': a['i'], 'c': it.c, 'p': it.p,
                                    'other': [(o.c, o.p) for j, o in insts.items() if j != a['i']]}
        ctx.behaviours += 1
    # determinism: snapshot after k steps, continue both copies; differing prior histories
    detg = {}
    for c in CFGS:
        for p in PROGS:
            a = Inst(c, p)
            # a second instance reaches the same architectural state after executing unrelated instructions first
            b = Inst(c, p)
            junk = Inst(c, rnd.choice(list(PROGS)))
            tmp = GD('junk', junk.cfg, junk.base)
            M.inject(b.arm, init_state(b.base, c, rnd.choice(list(PROGS))))
            from ..core import SINK
            for _ in range(2):
                M.run_action(b.arm, {'n': 'Step'})            # leaves opcode / executed_opcode / changed_registers behind
            M.inject(b.arm, init_state(b.base, c, p))
            # a third instance has executed THE SAME program before, from a state with the opposite flags (anything an
            # instruction word remembers from its first execution must not matter the second time)
            b2 = Inst(c, p)
            flipped = init_state(b2.base, c, p)
            flipped['cpsr'] = [flipped['cpsr'][0] ^ 0xF000, flipped['cpsr'][1]]
            M.inject(b2.arm, flipped)
            for _ in range(3):
                M.run_action(b2.arm, {'n': 'Step'})
            M.inject(b2.arm, init_state(b2.base, c, p))
            key = (c, p)
            gd = detg.setdefault(key, GD('det-c%d-p%d' % key, a.cfg, a.base))
            for k in range(3):
                snap = M.instrument(copy.deepcopy(a.arm))
                # the implementation's configuration is process-wide: all three objects share configuration c here
                ea = a.step(gd)
                sn = Inst.__new__(Inst)
                sn.arm, sn.c, sn.p = snap, c, p
                es = sn.step(gd)
                eb = b.step(gd)
                eb2 = b2.step(gd)
                for other, tag in ((es, 'snapshot'), (eb, 'other-history'), (eb2, 'same-program-other-flags')):
                    eid = len(gd.events) + 1
                    gd.events.append({'id': eid, 'pre': {}, 'act': {'n': 'SameDelta'}, 'out': ea['out'], 'out2': other['out'],
                                      'cls': ea['cls'], 'nunp': 0, 'd': ea['d'], 'd2': other['d'], 'full': True})
                    gd.meta[eid] = {'pair': tag, 'c': c, 'p': p, 'k': k}
    # isolation of take_reset(): an instance reset while ANOTHER instance's configuration was the last one used (created /
    # stepped / reset) must end up exactly where it ends up alone - reset vector, VBAR reset value, SCR.NS
    resg = {}
    for c1 in CFGS:
        solo = Inst(c1, 3)
        gd = resg.setdefault(c1, GD('reset-c%d' % c1, solo.cfg, solo.base))
        e_solo = solo.reset(gd)
        gd.meta[e_solo['id']] = {'reset': 'solo', 'c': c1}
        for c2 in CFGS:
            if c2 == c1:
                continue
            for variant in ('other-created', 'other-stepped', 'other-reset'):
                a = Inst(c1, 3)
                b = Inst(c2, 3)
                if variant == 'other-stepped':
                    M.run_action(b.arm, {'n': 'Step'})
                elif variant == 'other-reset':
                    M.run_action(b.arm, {'n': 'Reset'})
                ea = a.reset(gd)
                gd.meta[ea['id']] = {'reset': variant, 'c': c1, 'other': c2}
                eid = len(gd.events) + 1
                gd.events.append({'id': eid, 'pre': {}, 'act': {'n': 'SameDelta'}, 'out': e_solo['out'], 'out2': ea['out'],
                                  'cls': '', 'nunp': 0, 'd': e_solo['d'], 'd2': ea['d'], 'full': True})
                gd.meta[eid] = {'pair': 'reset-' + variant, 'c': c1, 'other': c2}
                ctx.behaviours += 1
    allg = list(groups.values()) + list(detg.values()) + list(resg.values())

    def clause_filter(c, v, e):
        if c in ('hosterror', 'cond-pass-differs') or v['path'].startswith(('exc:Reset', 'pair:')):
            return True
        return v['path'].startswith('exact') and c not in ('range', 'confine', 'nop-on-condfail')
    res = C.judge_groups(ctx, allg, clause_filter, rnd=rnd, canary=False,
                         site_of=lambda e, v: 'ArmV6.emulate_cycle' if e['act']['n'] == 'Step' else 'snapshot-pair',
                         tags_of=lambda g, e, v: dict(g.meta.get(e['id'], {}), grp=g.name))
    # binding canary: judge one instance's events under ANOTHER configuration's header: must be rejected
    g6 = [g for g in groups.values() if g.cfg['arch_version'] == 6 and g.name.endswith('p1')]
    g7 = [g for g in groups.values() if g.cfg['arch_version'] == 7 and g.cfg['memory_system_architecture'] == 'PMSA' and g.name.endswith('p1')]
    if g6 and g7:
        vs = tlc.validate('Trace_Step', g7[0].events[:4], header=g6[0].header())
        ctx.canary(any(v['v'] for v in vs))
    exact = sum(1 for g, e, v in res if v['path'].startswith('exact'))
    ctx.extra['schedules_replayed'] = len(scheds)
    ctx.extra['exact_steps'] = exact
    ctx.extra['snapshot_pairs'] = sum(1 for g, e, v in res if v['path'] == 'pair:cond-pass')
    ctx.extra['rule'] = ('every complete MC_Multi schedule (2 instances x 4 configurations x 4 programs x all interleavings; '
                         'quick: every 4th, 2 steps each) replayed in one process, each step judged under its own instance\'s '
                         'configuration; deep-copy snapshots and differing prior histories must give identical step deltas')
    for g, e, v in res[:2] + res[-1:]:
        ctx.sample({'group': g.name, 'meta': g.meta.get(e['id']), 'out': e['out'], 'delta': e['d'],
                    'verdict': {k: v[k] for k in ('v', 'path')}})
    ctx.distinct = {(g.name, e['id']) for g, e, v in res}


def replay(ctx, path):
    from ..replay import replay_step
    return replay_step(ctx, path)
