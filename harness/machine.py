"""Binding layer between the live implementation objects and the abstract state of spec/State.tla.

project()  : live ArmV6 -> abstract state (JSON-able, words as [hi, lo] limbs)         (pi)
inject()   : abstract state -> live ArmV6                                                (pi^-1)
Everything that touches implementation attribute names lives here.
"""
import json
import os
import tempfile

from . import tlc
from .core import SINK
from .words import limbs, unlimbs

SPSR = ['fiq', 'irq', 'svc', 'abt', 'und', 'mon', 'hyp']
# modelled system registers: spec name -> (attribute, kind)   kind: 'reg' = AbstractRegister (.value), 'int' = plain int
SYS = {
    'SCTLR': ('sctlr', 'reg'), 'SCR': ('scr', 'reg'), 'HCR': ('hcr', 'reg'), 'HSCTLR': ('hsctlr', 'reg'),
    'VBAR': ('vbar', 'reg'), 'MVBAR': ('mvbar', 'int'), 'HVBAR': ('hvbar', 'int'), 'NSACR': ('nsacr', 'reg'),
    'CPACR': ('cpacr', 'reg'), 'HCPTR': ('hcptr', 'reg'), 'HSTR': ('hstr', 'reg'), 'HSR': ('hsr', 'reg'),
    'DFSR': ('dfsr', 'reg'), 'DFAR': ('dfar', 'int'), 'HDFAR': ('hdfar', 'int'), 'HPFAR': ('hpfar', 'reg'),
    'TTBCR': ('ttbcr', 'reg'), 'DACR': ('dacr', 'reg'), 'PRRR': ('prrr', 'reg'), 'NMRR': ('nmrr', 'reg'),
    'FCSEIDR': ('fcseidr', 'reg'), 'MPUIR': ('mpuir', 'reg'), 'TEECR': ('teecr', 'reg'), 'HDCR': ('hdcr', 'reg'),
    'JMCR': ('jmcr', 'reg'), 'MAIR0': ('mair0', 'int'), 'MAIR1': ('mair1', 'int'),
    'VTCR': ('vtcr', 'reg'), 'HTCR': ('htcr', 'reg'), 'HMAIR0': ('hmair0', 'int'), 'HMAIR1': ('hmair1', 'int'),
}
SYS64 = {'TTBR0': 'ttbr0_64', 'TTBR1': 'ttbr1_64', 'VTTBR': 'vttbr', 'HTTBR': 'httbr'}      # low word modelled, high word must not change
MPU = [('DRSR', 'drsrs', 'reg'), ('DRBAR', 'drbars', 'int'), ('DRACR', 'dracrs', 'reg')]

BASE_CFG = {
    "reset_values": {"SCTLR": "0b01000000000001010000000001111001", "MIDR": "0b01000001000011111010011101100000",
                     "ACTLR": "0b00000000000000000000000000000111", "VBAR": "0b00000000000000000000000000000000"},
    "number_of_mpu_regions": 12, "have_security_ext": True, "have_virt_ext": False, "arch_version": 6,
    "jazelle_accepts_execution": False, "memory_system_architecture": "PMSA", "have_lpae": False,
    "have_mp_ext": False, "have_adv_simd_or_vfp": False, "have_thumbee": False, "have_jazelle": False,
    "implementation_supports_transient": False, "processor_id": 0, "is_armv7r_profile": False,
    "has_imp_def_reset_vector": False, "memory_list": [{"mem_type": "RAM", "beginning": 0, "end": 256}],
    "write_hsr_hsr_value_24": False, "write_hsr_23_22_cond": True, "dfsr_string_12": 1, "data_abort_hsr_9": 0,
    "data_abort_pmsa_change_dfar": True, "translation_walk_sd_l1descaddr_attrs_10": True,
    "translation_walk_sd_l1descaddr_hints_01": True, "coproc_accepted_pl0_undefined": True,
    "impdef_reset_vector": 0, "impdef_irq_vector": 24, "impdef_fiq_vector": 28,
}


def project_attrs(d):
    """memory attributes + paddress.NS of a returned AddressDescriptor -> the record Trace_Step compares (attr.* clauses)"""
    m = d.memattrs
    ty = {'NORMAL': 'NORMAL', 'DEVICE': 'DEV', 'STRONGLY_ORDERED': 'SO'}.get(getattr(m.type, 'name', None), 'BAD:%r' % (m.type,))

    def num(v):
        return int(v) if isinstance(v, (int, bool)) and 0 <= int(v) <= 3 else -1
    return {'ty': ty, 'ia': num(m.innerattrs), 'ih': num(m.innerhints), 'oa': num(m.outerattrs), 'oh': num(m.outerhints),
            'sh': num(m.shareable), 'osh': num(m.outershareable), 'ns': num(d.paddress.ns)}


def make_config(**over):
    """Write a configuration file (the implementation's own JSON format) and return its path."""
    cfg = json.loads(json.dumps(BASE_CFG))
    cfg.update(over)
    fd, path = tempfile.mkstemp(prefix='cfg-', suffix='.json', dir=tlc.scratch())
    with os.fdopen(fd, 'w') as f:
        json.dump(cfg, f)
    return path, cfg


def spec_cfg(cfg):
    """the configuration as the specification sees it (State.tla `cfg`)"""
    return {'arch': cfg['arch_version'], 'pmsa': cfg['memory_system_architecture'] == 'PMSA',
            'sec': bool(cfg['have_security_ext']), 'virt': bool(cfg['have_virt_ext']), 'lpae': bool(cfg['have_lpae']),
            'mp': bool(cfg['have_mp_ext']), 'impdefreset': bool(cfg['has_imp_def_reset_vector']),
            'resetvec': limbs(cfg['impdef_reset_vector']), 'irqvec': limbs(cfg['impdef_irq_vector']),
            'fiqvec': limbs(cfg['impdef_fiq_vector']), 'v7r': bool(cfg['is_armv7r_profile'])}


_OUTCOME = {'take_svc_exception': 'svc', 'take_smc_exception': 'smc', 'take_data_abort_exception': 'dabort',
            'take_hyp_trap_exception': 'hyptrap', 'take_undef_instr_exception': 'undef'}


def new_arm(cfg_path, fetch=True):
    """A fresh processor instance from /repo's working tree, with exception-entry calls observed."""
    from armulator.armv6.arm_v6 import ArmV6

    class ArmUnderTest(ArmV6):
        """action Exec = what the repository's own test fixture does: the word is preset, not fetched"""
        _stub_fetch = False

        def fetch_instruction(self):
            if self._stub_fetch:
                return self.opcode
            return super().fetch_instruction()
    arm = ArmUnderTest(cfg_path)
    instrument(arm)
    return arm


def instrument(arm):
    """observe which exception-entry function a step calls (instance-level wrappers; no source hooks).
    Must be re-applied to a deep copy of an instance (closures are copied by reference)."""
    arm._taken = []
    regs = arm.registers
    for meth, name in _OUTCOME.items():
        regs.__dict__.pop(meth, None)
        orig = getattr(regs, meth)

        def wrapper(*a, _orig=orig, _name=name, _arm=arm, **kw):
            _arm._taken.append(_name)
            return _orig(*a, **kw)
        setattr(regs, meth, wrapper)
    return arm


def _other_sys(regs):
    """every attribute of Registers that is not modelled: name -> comparable value (for 'nothing else changed')"""
    from armulator.armv6.all_registers.abstract_register import AbstractRegister
    skip = {a for a, _ in SYS.values()} | set(SYS64.values()) | {a for _, a, _ in MPU} | \
        {'_R', 'cpsr', 'changed_registers', 'elr_hyp', 'event_register'} | {'spsr_' + m for m in SPSR}
    out = {}
    for k, v in vars(regs).items():
        if k in skip or callable(v):
            continue
        if isinstance(v, AbstractRegister):
            out[k] = v.value
        elif isinstance(v, bool) or isinstance(v, int):
            out[k] = v
        elif isinstance(v, list):
            out[k] = tuple(x.value if isinstance(x, AbstractRegister) else x for x in v)
    return out


def project(arm):
    regs = arm.registers
    st = {'R': {k.name: limbs(v) for k, v in regs._R.items()},
          'cpsr': limbs(regs.cpsr.value),
          'spsr': {m: limbs(getattr(regs, 'spsr_' + m)) for m in SPSR},
          'elr': limbs(regs.elr_hyp)}
    sys = {}
    for name, (attr, kind) in SYS.items():
        v = getattr(regs, attr)
        sys[name] = limbs(v.value if kind == 'reg' else v)
    for name, attr in SYS64.items():
        v = getattr(regs, attr)
        sys[name] = limbs(v & 0xFFFFFFFF) if isinstance(v, int) and 0 <= v < 1 << 64 else limbs(-1)
        sys[name + 'H'] = limbs(v >> 32) if isinstance(v, int) and 0 <= v < 1 << 64 else limbs(-1)
    for pfx, attr, kind in MPU:
        for i, v in enumerate(getattr(regs, attr)):
            sys['%s%d' % (pfx, i)] = limbs(v.value if kind == 'reg' else v)
    st['sys'] = sys
    devs, base, memsz = [], [], []
    for i, mc in enumerate(arm.mem.memories):
        n = mc.end - mc.beginning
        arr = mc.mem.memory_array
        devs.append({'b': limbs(mc.beginning), 'n': n})
        base.append(list(arr[:n]) + [0] * max(0, n - len(arr)))
        if len(arr) != n:
            memsz.append([i, len(arr)])
    st['mem'] = {'devs': devs, 'base': base}
    st['memsz'] = memsz
    st['ev'] = {'evreg': int(bool(regs.event_register)), 'wfe': int(bool(arm.is_wait_for_event)),
                'wfi': int(bool(arm.is_wait_for_interrupt))}
    st['osys'] = _other_sys(regs)
    return st


def inject(arm, st):
    """write an abstract state (full, as produced by project()) into the live object"""
    from armulator.armv6.registers import RName
    regs = arm.registers
    for k, v in st['R'].items():
        regs._R[RName[k]] = unlimbs(v)
    regs.cpsr.value = unlimbs(st['cpsr'])
    for m in SPSR:
        setattr(regs, 'spsr_' + m, unlimbs(st['spsr'][m]))
    regs.elr_hyp = unlimbs(st['elr'])
    sys = st['sys']
    for name, (attr, kind) in SYS.items():
        if kind == 'reg':
            getattr(regs, attr).value = unlimbs(sys[name])
        else:
            setattr(regs, attr, unlimbs(sys[name]))
    for name, attr in SYS64.items():
        setattr(regs, attr, unlimbs(sys[name]) | (unlimbs(sys.get(name + 'H', [0, 0])) << 32))
    for pfx, attr, kind in MPU:
        lst = getattr(regs, attr)
        for i in range(len(lst)):
            if kind == 'reg':
                lst[i].value = unlimbs(sys['%s%d' % (pfx, i)])
            else:
                lst[i] = unlimbs(sys['%s%d' % (pfx, i)])
    for i, mc in enumerate(arm.mem.memories):
        mc.mem.memory_array[:] = bytes(st['mem']['base'][i])
    regs.event_register = bool(st['ev']['evreg'])
    arm.is_wait_for_event = bool(st['ev']['wfe'])
    arm.is_wait_for_interrupt = bool(st['ev']['wfi'])


def project_like(arm, base):
    """inject `base` and project it back: the base state as this tree's implementation represents it"""
    inject(arm, base)
    return project(arm)


def diff(a, b):
    """partial state description of b relative to a (what Trace_Step!Overlay consumes)"""
    d = {}
    r = {k: v for k, v in b['R'].items() if a['R'][k] != v}
    if r:
        d['R'] = r
    if a['cpsr'] != b['cpsr']:
        d['cpsr'] = b['cpsr']
    sp = {k: v for k, v in b['spsr'].items() if a['spsr'][k] != v}
    if sp:
        d['spsr'] = sp
    if a['elr'] != b['elr']:
        d['elr'] = b['elr']
    sy = {k: v for k, v in b['sys'].items() if a['sys'][k] != v}
    if sy:
        d['sys'] = sy
    mem = []
    for i, (x, y) in enumerate(zip(a['mem']['base'], b['mem']['base'])):
        if x != y:
            for off, (p, q) in enumerate(zip(x, y)):
                if p != q:
                    mem.append([i, off, q])
    if mem:
        d['mem'] = mem
    ev = {k: v for k, v in b['ev'].items() if a['ev'][k] != v}
    if ev:
        d['ev'] = ev
    return d


def post_delta(pre, post):
    d = diff(pre, post)
    osys = sorted(k for k in post['osys'] if pre['osys'].get(k) != post['osys'][k])
    if osys:
        d['osys'] = osys
    if post['memsz']:
        d['memsz'] = post['memsz']
    return d


def header(cfg, base):
    b = {k: base[k] for k in ('R', 'cpsr', 'spsr', 'elr', 'sys', 'mem', 'ev')}
    return {'h': {'cfg': spec_cfg(cfg), 'base': b}}


class StepTimeout(Exception):
    """the implementation did not return from one public call (non-termination is a host-level failure)"""


_timeouts = [0]


def _on_alarm(signum, frame):
    raise StepTimeout('no return within the per-call deadline')


def _arm_deadline():
    import signal
    try:
        # CPU time of this process, not wall time: a loaded machine must not turn a slow call into a false alarm
        signal.signal(signal.SIGVTALRM, _on_alarm)
        signal.setitimer(signal.ITIMER_VIRTUAL, 10.0 if _timeouts[0] < 3 else 1.0)
    except ValueError:                       # not in the main thread: no watchdog
        pass


def _disarm_deadline():
    import signal
    try:
        signal.setitimer(signal.ITIMER_VIRTUAL, 0)
    except ValueError:
        pass


def run_action(arm, act):
    """perform one public call; returns (outcome, opcode class name, #unpredictable prints)"""
    _arm_deadline()
    try:
        return _run_action(arm, act)
    finally:
        _disarm_deadline()


def _run_action(arm, act):
    from armulator.armv6.arm_exceptions import DataAbortException
    from armulator.armv6.enums import DAbort
    arm._taken.clear()
    arm.executed_opcode = None
    n0 = SINK.lines
    out = 'completed'
    try:
        n = act['n']
        if n in ('Step', 'Exec'):
            arm._stub_fetch = (n == 'Exec')
            if n == 'Exec':
                arm.opcode = unlimbs(act['w'])
                arm.opcode_len = act['len']
            arm.emulate_cycle()
            if arm._taken:
                out = arm._taken[0] if len(arm._taken) == 1 else 'hosterror:multiple-exceptions'
        elif n == 'Reset':
            arm.take_reset()
        elif n == 'IRQ':
            arm.registers.take_physical_irq_exception()
        elif n == 'FIQ':
            arm.registers.take_physical_fiq_exception()
        elif n == 'Undef':
            arm.registers.take_undef_instr_exception()
        elif n == 'SVC':
            arm.opcode_len = act['len']
            arm.registers.take_svc_exception()
        elif n == 'SMC':
            arm.registers.take_smc_exception()
        elif n == 'HypTrap':
            arm.registers.take_hyp_trap_exception()
        elif n == 'DAbort':
            arm.registers.take_data_abort_exception(
                DataAbortException(DAbort.ALIGNMENT if act['alignment'] else DAbort.PERMISSION, act['secondstage']))
        elif n == 'CpsrWrite':
            arm.registers.cpsr_write_by_instr(unlimbs(act['val']), act['mask'], act['ret'])
        elif n == 'SpsrWrite':
            arm.registers.spsr_write_by_instr(unlimbs(act['val']), act['mask'])
        elif n in ('MemAGet', 'MemUGet', 'MemUUnprivGet', 'MemASet', 'MemUSet', 'MemUUnprivSet', 'Translate'):
            addr, size = unlimbs(act['addr']), act['size']
            val = sum(b << (8 * i) for i, b in enumerate(act.get('val', [])))
            try:
                if n == 'MemAGet':
                    r = arm.mem_a_get(addr, size)
                elif n == 'MemUGet':
                    r = arm.mem_u_get(addr, size)
                elif n == 'MemUUnprivGet':
                    r = arm.mem_u_unpriv_get(addr, size)
                elif n == 'MemASet':
                    r = arm.mem_a_set(addr, size, val)
                elif n == 'MemUSet':
                    r = arm.mem_u_set(addr, size, val)
                elif n == 'MemUUnprivSet':
                    r = arm.mem_u_unpriv_set(addr, size, val)
                else:
                    d = arm.translate_address(addr, act['priv'], act['iswrite'], size, act['aligned'])
                    pa = d.paddress.physicaladdress
                    r = None
                    arm._res = [pa >> 32, limbs(pa & 0xFFFFFFFF)] if isinstance(pa, int) and 0 <= pa < 1 << 40 else [-1, [-1, 0]]
                    arm._attrs = project_attrs(d)
                if n.endswith('Get'):
                    arm._res = [(r >> (8 * i)) & 0xFF for i in range(size)] if isinstance(r, int) and 0 <= r < 1 << (8 * size) else [-1]
            except DataAbortException:
                out = 'dabort'
        else:
            raise ValueError(n)
    except NotImplementedError:
        out = 'notimpl'
    except RecursionError:
        out = 'hosterror:RecursionError'
    except Exception as ex:                                   # noqa: any host-level error is an outcome to judge
        out = 'hosterror:' + type(ex).__name__
        if isinstance(ex, StepTimeout):
            _timeouts[0] += 1
        import traceback
        tb = traceback.extract_tb(ex.__traceback__)
        arm._last_tb = '%s:%d %s: %s' % (os.path.basename(tb[-1].filename), tb[-1].lineno, tb[-1].name, ex)
    cls = type(arm.executed_opcode).__name__ if arm.executed_opcode is not None else ''
    return out, cls, SINK.lines - n0


def step_event(arm, eid, base, pre_state, act):
    """inject pre_state, perform act, return the event (pre as overrides of base, delta as post - pre)"""
    inject(arm, pre_state)
    pre = project(arm)
    arm._last_tb = None
    out, cls, nunp = run_action(arm, act)
    post = project(arm)
    ev = {'id': eid, 'pre': diff(base, pre), 'act': act, 'out': out, 'cls': cls, 'nunp': nunp,
          'd': post_delta(pre, post)}
    if act['n'] == 'Step' and not out.startswith('hosterror') and getattr(arm, 'opcode_len', None) in (16, 32):
        ev['ilen'] = arm.opcode_len
    if arm._last_tb:
        ev['tb'] = arm._last_tb
    if getattr(arm, '_res', None) is not None:
        ev['res'] = arm._res
        arm._res = None
    if getattr(arm, '_attrs', None) is not None:
        ev['attrs'] = arm._attrs
        arm._attrs = None
    return ev, post
