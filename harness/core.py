"""Check context: collects TLC statistics, judges verdicts against known_findings.json,
prints KNOWN-FINDING / VIOLATION lines, writes replay files and the evidence file."""
import json
import os
import sys
import time

from . import tlc
from .tlc import MachineryError

VERIF = tlc.VERIF
REPO = os.environ.get('ARMULATOR_REPO', '/repo')
# evidence/ and replays/ go under /verif unless a mutation trial redirects them (tools/try_seed_wt.sh)
OUTDIR = os.environ.get('VERIF_OUT_DIR') or os.path.dirname(os.path.dirname(os.path.abspath(__file__)))


def load_known():
    p = os.path.join(VERIF, 'known_findings.json')
    if not os.path.exists(p):
        return {'findings': [], 'fixed': []}
    return json.load(open(p))


class Ctx:
    def __init__(self, prop, tier, seed):
        self.prop = prop
        self.tier = tier
        self.quick = tier == 'quick'
        self.seed = seed
        self.t0 = time.time()
        self.states = 0
        self.transitions = 0
        self.mc_runs = []
        self.events = 0
        self.behaviours = 0
        self.samples = []
        self.violations = []
        self.known_seen = {}
        self.known = [f for f in load_known().get('findings', []) if f['property'] == prop or prop in f.get('also', []) or '*' in f.get('also', [])]
        self.canaries = [0, 0]
        self.extra = {}
        self.assumptions = []
        self.exhaustive = None
        self.paths = {}
        self.distinct = set()
        self.notes = []
        self._vgroups = {}
        self.unpredictable_prints = 0

    # ---- TLC on the spec -------------------------------------------------------------
    def mc(self, module, **kw):
        """Run an MC instance; a failure of the spec instance is machinery failure (exit 2)."""
        kw.setdefault('coverage', True)
        t = time.time()
        r = tlc.run_mc(module, **kw)
        if kw.get('coverage') and r.get('uncovered'):
            raise MachineryError('vacuity: actions never taken in %s: %s' % (module, r['uncovered']))
        self.states += r.get('distinct', 0)
        self.transitions += r.get('states', 0)
        self.mc_runs.append({'module': module, 'cfg': r['cfg'], 'constants': kw.get('constants'),
                             'states_generated': r.get('states'), 'distinct': r.get('distinct'),
                             'depth': r.get('depth'), 'wall_s': r['wall_s'],
                             'action_counts': r.get('coverage')})
        log('  TLC %-12s %s generated=%s distinct=%s %.1fs' % (module, kw.get('constants') or '', r.get('states'),
                                                              r.get('distinct'), time.time() - t))
        return r

    # ---- verdict handling ------------------------------------------------------------
    def sample(self, s, cap=6):
        if len(self.samples) < cap:
            self.samples.append(s)

    def judge(self, site, failing, tags, replay, what=None):
        """One judged case.  `failing` = list of failing clause names (empty = conforms).
        Returns 'ok' | 'known' | 'violation'."""
        if not failing:
            return 'ok'
        rest = list(failing)
        hit = []
        for f in self.known:
            if f['site'] != site and not (f['site'].endswith('*') and site.startswith(f['site'][:-1])):
                continue
            if not all(_tag_ok(tags.get(k), v) for k, v in f.get('when', {}).items()):
                continue
            cl = f['clauses']
            covered = [c for c in rest if c in cl or any(x.endswith('*') and c.startswith(x[:-1]) for x in cl)]
            if covered:
                hit.append(f)
                rest = [c for c in rest if c not in covered]
        for f in hit:
            k = f['id']
            self.known_seen[k] = self.known_seen.get(k, 0) + 1
        if not rest:
            return 'known'
        self.violation(site, rest, tags, replay, what)
        return 'violation'

    def violation(self, site, clauses, tags, replay, what=None):
        if getattr(self, 'mute', False):                 # binding canaries: counted by the caller, no file, no output
            self.violations.append({'site': site, 'clauses': clauses, 'tags': tags})
            return
        n = len(self.violations)
        gk = (site, tuple(clauses))
        self._vgroups[gk] = self._vgroups.get(gk, 0) + 1
        if self._vgroups[gk] <= 3 and len(self._vgroups) <= 25:
            rdir = os.path.join(OUTDIR, 'replays')
            os.makedirs(rdir, exist_ok=True)
            path = os.path.join(rdir, '%s-%s-%03d.json' % (self.prop, self.tier, n))
            with open(path, 'w') as f:
                json.dump({'property': self.prop, 'site': site, 'clauses': clauses, 'tags': tags,
                           'what': what, 'case': replay, 'seed': self.seed, 'tier': self.tier}, f, indent=1)
            out('VIOLATION property=%s replay=%s' % (self.prop, path))
            out('  site=%s clauses=%s tags=%s %s' % (site, clauses, tags, what or ''))
        self.violations.append({'site': site, 'clauses': clauses, 'tags': tags})

    def canary(self, rejected_with_expected):
        self.canaries[1] += 1
        if rejected_with_expected:
            self.canaries[0] += 1

    def finish(self):
        if self.canaries[0] != self.canaries[1] and not self.violations:
            # (with violations present the run already fails as a violation; a broken implementation can also break
            #  canaries that rely on it behaving per its configuration)
            raise MachineryError('binding canaries: only %d of %d corrupted events were rejected with the expected '
                                 'clause' % tuple(self.canaries))
        for f in self.known:
            if f['id'] in self.known_seen:
                out('KNOWN-FINDING: property=%s %s [%s; seen %d times]' % (
                    self.prop, f['text'], f['id'], self.known_seen[f['id']]))
        if self.violations:
            by = {}
            for v in self.violations:
                by[v['site']] = by.get(v['site'], 0) + 1
            log('  violations by site: %s' % sorted(by.items(), key=lambda kv: -kv[1])[:40])
        wall = time.time() - self.t0
        cov = {
            'states': max(self.states, 1) if self.mc_runs else self.states,
            'transitions': max(self.transitions, 1) if self.mc_runs else self.transitions,
            'traces_validated_against_impl': self.events + self.behaviours,
            'samples': self.samples or ['(no sample recorded)'],
            'evaluations': self.events + self.behaviours,
            'distinct_nontrivial': len(self.distinct) if self.distinct else self.events + self.behaviours,
            'rule': self.extra.pop('rule', 'each event is one public call on the real code with its full pre/post '
                                           'state, judged by TLC against the TLA+ specification'),
            'events_judged_by_tlc': self.events,
            'spec_behaviours_replayed_on_impl': self.behaviours,
            'mc_runs': self.mc_runs,
            'canaries_rejected': self.canaries[0], 'canaries_total': self.canaries[1],
            'known_findings_seen': self.known_seen,
            'spec_paths': dict(sorted(self.paths.items())),
            'tlc': 'TLC2 2026.09.04 (tla2tools 1.8.0), OpenJDK 17',
        }
        if self.exhaustive is not None:
            cov['exhaustive'] = self.exhaustive
        cov.update(self.extra)
        ev = {'property_id': self.prop, 'tier': self.tier, 'seed': self.seed, 'level': 'model_checking',
              'coverage': cov, 'assumptions': self.assumptions, 'wall_s': round(wall, 2),
              'violations': len(self.violations)}
        os.makedirs(os.path.join(OUTDIR, 'evidence'), exist_ok=True)
        with open(os.path.join(OUTDIR, 'evidence', self.prop + '.json'), 'w') as f:
            json.dump(ev, f, indent=1, default=str)
        log('%s %s: %d TLC states, %d events, %d behaviours, %d violations, known=%s, %.1fs' % (
            self.prop, self.tier, self.states, self.events, self.behaviours, len(self.violations),
            sorted(self.known_seen), wall))
        return 1 if self.violations else 0


def _tag_ok(val, want):
    if isinstance(want, list):
        return val in want
    if isinstance(want, dict):
        if 'min' in want and (val is None or val < want['min']):
            return False
        if 'max' in want and (val is None or val > want['max']):
            return False
        if 'not' in want and val in want['not']:
            return False
        return True
    return val == want


REAL_STDOUT = sys.stdout


class _Sink:
    """The implementation print()s 'unpredictable' on stdout; keep it away from the check's own output."""
    def __init__(self):
        self.lines = 0

    def write(self, s):
        self.lines += s.count('\n')
        return len(s)

    def flush(self):
        pass


SINK = _Sink()


def capture_impl_stdout():
    sys.stdout = SINK


def out(msg):
    REAL_STDOUT.write(msg + '\n')
    REAL_STDOUT.flush()


def log(msg):
    print(msg, file=sys.stderr)
    sys.stderr.flush()
