"""Per-encoding-class instruction words: the repository's own tests contain one hand-picked word for (almost)
every encoding class.  They are harvested at run time (test-input selection only) and varied by flipping bits
while the implementation's decoder still selects the same class, so that every class is reached by the sweeps."""
import os
import re

REPO = os.environ.get('ARMULATOR_REPO', '/repo')
_cache = None


def harvest():
    global _cache
    if _cache is not None:
        return _cache
    out = []
    pat = re.compile(r'def (test_\w+)\((\w+)\):(.*?)(?=\ndef |\Z)', re.S)
    for root, _, files in os.walk(os.path.join(REPO, 'tests')):
        for f in sorted(files):
            if not f.endswith('.py'):
                continue
            src = open(os.path.join(root, f)).read()
            for m in pat.finditer(src):
                fixture, body = m.group(2), m.group(3)
                w = re.search(r'opcode = (0b[01]+)', body)
                ln = re.search(r'opcode_len = (\d+)', body)
                if not w or not ln or 'without_fetch' not in fixture:
                    continue
                out.append((fixture.startswith('thumb'), int(w.group(1), 2), int(ln.group(1))))
    _cache = sorted(set(out))
    return _cache


def _decode_class(arm, thumb, w, length):
    from armulator.armv6.opcodes.decoders import arm_instruction_set, thumb_instruction_set
    try:
        if thumb:
            arm.opcode_len = length
            return thumb_instruction_set.decode_instruction(w, arm)
        return arm_instruction_set.decode_instruction(w)
    except Exception as ex:                 # noqa
        return 'exc:' + type(ex).__name__


def class_words(rnd, per_class, arm):
    """for every harvested word: the word itself plus up to per_class-1 variants that decode to the same class"""
    res = []
    for thumb, w, length in harvest():
        cls = _decode_class(arm, thumb, w, length)
        res.append((thumb, w))
        got, tries = 1, 0
        while got < per_class and tries < per_class * 6:
            tries += 1
            v = w
            for _ in range(rnd.choice([1, 1, 2, 3, 5])):
                v ^= 1 << rnd.randrange(length)
            if length == 32 and thumb and (v >> 27) not in (0b11101, 0b11110, 0b11111):
                continue
            if length == 16 and (v >> 11) in (0b11101, 0b11110, 0b11111):
                continue
            if _decode_class(arm, thumb, v, length) == cls:
                res.append((thumb, v))
                got += 1
    return res
