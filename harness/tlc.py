"""SANY / TLC runner: model-checking instances, batch trace validation, behaviour generation.

Everything TLC-related goes through here so that a TLC crash, a SANY error or a timeout is
always reported as a *machinery* failure (exit 2), never as a property violation.
"""
import atexit
import concurrent.futures
import json
import os
import re
import shutil
import subprocess
import tempfile
import time

VERIF = os.path.dirname(os.path.dirname(os.path.abspath(__file__)))
SPEC = os.path.join(VERIF, 'spec')
JAR = '/opt/veriftools/tla/tla2tools.jar:/opt/veriftools/tla/CommunityModules-deps.jar'
LIBPATH = os.pathsep.join([SPEC, os.path.join(SPEC, 'mc'), os.path.join(SPEC, 'trace')])


class MachineryError(Exception):
    """The verification machinery itself failed (exit code 2)."""


_scratch = None


def scratch():
    global _scratch
    if _scratch is None:
        _scratch = tempfile.mkdtemp(prefix='armverif-')
        atexit.register(shutil.rmtree, _scratch, True)
    return _scratch


def _die_with_parent():
    """child JVMs must not outlive a killed check (PR_SET_PDEATHSIG = 1)"""
    try:
        import ctypes
        import signal
        ctypes.CDLL('libc.so.6').prctl(1, signal.SIGKILL)
    except Exception:
        pass


def _java(args, env=None, timeout=1800, xmx='4g', cwd=SPEC):
    cmd = ['java', '-XX:+UseParallelGC', '-Xmx' + xmx, '-Xss64m', '-DTLA-Library=' + LIBPATH, '-cp', JAR] + args
    e = dict(os.environ)
    e.pop('JAVA_TOOL_OPTIONS', None)
    if env:
        e.update(env)
    t0 = time.time()
    try:
        p = subprocess.run(cmd, cwd=cwd, env=e, stdout=subprocess.PIPE, stderr=subprocess.STDOUT,
                           timeout=timeout, text=True, errors='replace', preexec_fn=_die_with_parent)
    except subprocess.TimeoutExpired as ex:
        raise MachineryError('timeout after %ss: %s' % (timeout, ' '.join(args[:6]))) from ex
    return p.returncode, p.stdout, time.time() - t0


def sany(relpath):
    rc, out, _ = _java(['tla2sany.SANY', relpath], timeout=120, xmx='1g',
                       cwd=os.path.join(SPEC, os.path.dirname(relpath)) if os.path.dirname(relpath) else SPEC)
    if rc != 0 or 'error' in out.lower().replace('errors: 0', ''):
        if 'Semantic errors' in out or 'Fatal' in out or 'Parse Error' in out or rc != 0:
            raise MachineryError('SANY failed on %s:\n%s' % (relpath, out[-3000:]))
    return True


_RE_STATES = re.compile(r'(\d+) states generated, (\d+) distinct states found, (\d+) states left')
_RE_DEPTH = re.compile(r'The depth of the complete state graph search is (\d+)')
_RE_COV = re.compile(r'^<(\w+) line (\d+), col (\d+) to line (\d+), col (\d+) of module (\w+)>: (\d+):(\d+)', re.M)


def run_mc(module, cfg=None, workers=16, timeout=1800, xmx='8g', coverage=False, env=None, constants=None,
           simulate=None, depth=None, seed=None, expect_violation=False):
    """Model-check spec/mc/<module>.tla with <cfg> (default <module>.cfg).

    `constants` (dict name -> TLA+ literal text) rewrites the CONSTANT(S) lines of a copy of the cfg, so the
    same instance serves the quick and the thorough tier.  Returns a dict with states/distinct/depth and,
    with coverage=True, per-action counts; an action with count 0 is reported in 'uncovered'.
    A property violation in an MC instance is a *spec* problem: MachineryError (unless expect_violation).
    """
    mcdir = os.path.join(SPEC, 'mc')
    cfg = cfg or module + '.cfg'
    cfgpath = os.path.join(mcdir, cfg)
    work = tempfile.mkdtemp(prefix='mc-', dir=scratch())
    if constants:
        text = open(cfgpath).read()
        for k, v in constants.items():
            text, n = re.subn(r'(^|\s)%s\s*=\s*[^\n]*' % re.escape(k), r'\g<1>%s = %s' % (k, v), text, count=1)
            if n != 1:
                raise MachineryError('constant %s not found in %s' % (k, cfg))
        cfgpath = os.path.join(work, cfg)
        open(cfgpath, 'w').write(text)
    args = ['tlc2.TLC', '-workers', str(workers), '-metadir', os.path.join(work, 'meta'), '-noGenerateSpecTE',
            '-config', cfgpath]
    if coverage:
        args += ['-coverage', '1']
    if simulate:
        args += ['-simulate', simulate]
    if depth:
        args += ['-depth', str(depth)]
    if seed is not None:
        args += ['-seed', str(seed)]
    args.append(os.path.join(mcdir, module + '.tla'))
    rc, out, wall = _java(args, env=env, timeout=timeout, xmx=xmx, cwd=mcdir)
    shutil.rmtree(os.path.join(work, 'meta'), ignore_errors=True)
    res = {'module': module, 'cfg': cfg, 'rc': rc, 'wall_s': round(wall, 2), 'out': out}
    m = _RE_STATES.findall(out)
    if m:
        res['states'] = int(m[-1][0])
        res['distinct'] = int(m[-1][1])
    d = _RE_DEPTH.search(out)
    if d:
        res['depth'] = int(d.group(1))
    violated = re.findall(r'Error: Invariant (\w+) is violated|Error: Action property (\w+) is violated', out)
    if violated:
        res['violated'] = [a or b for a, b in violated]
    if coverage:
        cov = {}
        for name, l1, c1, l2, c2, mod, a, b in _RE_COV.findall(out):
            cov['%s.%s' % (mod, name)] = cov.get('%s.%s' % (mod, name), 0) + int(b)
        res['coverage'] = cov
        res['uncovered'] = sorted(k for k, v in cov.items() if v == 0 and not k.endswith('.Init'))
    ok = (rc == 0 and ('Model checking completed. No error has been found.' in out or
                       (simulate and 'Error' not in out)))
    if simulate and rc == 0:
        ok = True
    if simulate and rc != 0 and not violated and 'Error:' not in out:
        ok = True
    res['ok'] = ok
    if not ok and not expect_violation:
        raise MachineryError('TLC failed on %s/%s (rc=%s)%s:\n%s' % (
            module, cfg, rc, ' violated=%s' % res.get('violated') if violated else '', out[-4000:]))
    return res


def _validate_chunk(trace_module, in_path, out_path, extra_env, timeout, xmx):
    tdir = os.path.join(SPEC, 'trace')
    work = tempfile.mkdtemp(prefix='tv-', dir=scratch())
    env = {'IN_FILE': in_path, 'OUT_FILE': out_path}
    if extra_env:
        env.update(extra_env)
    args = ['tlc2.TLC', '-workers', '1', '-metadir', os.path.join(work, 'meta'), '-noGenerateSpecTE',
            '-config', os.path.join(tdir, trace_module + '.cfg'), os.path.join(tdir, trace_module + '.tla')]
    rc, out, wall = _java(args, env=env, timeout=timeout, xmx=xmx, cwd=tdir)
    shutil.rmtree(work, ignore_errors=True)
    if rc != 0 or not os.path.exists(out_path):
        raise MachineryError('trace validation TLC failed on %s (rc=%s) input=%s:\n%s' % (
            trace_module, rc, in_path, out[-4000:]))
    verdicts = [json.loads(l) for l in open(out_path) if l.strip()]
    return verdicts, wall


def validate(trace_module, events, chunk=10000, jobs=16, extra_env=None, timeout=1800, xmx='3g', header=None):
    """Have TLC judge `events` (an iterable of JSON-serialisable values, one per line) with
    spec/trace/<trace_module>.tla.  Returns the list of verdict objects in event order.
    Chunks are written, validated by up to `jobs` single-worker JVMs in parallel, and deleted.
    `header` (optional) is written as the first line of every chunk."""
    return validate_groups(trace_module, [(header, events)], chunk, jobs, extra_env, timeout, xmx)[0]


def validate_groups(trace_module, groups, chunk=10000, jobs=16, extra_env=None, timeout=1800, xmx='3g'):
    """groups = [(header or None, iterable of events)]; returns one verdict list per group."""
    base = tempfile.mkdtemp(prefix='ev-', dir=scratch())
    futures = []
    counter = [0]
    with concurrent.futures.ThreadPoolExecutor(max_workers=jobs) as ex:

        def flush(g, hdr, buf):
            if not buf:
                return
            k = counter[0]
            counter[0] += 1
            ip = os.path.join(base, 'in%05d.ndjson' % k)
            op = os.path.join(base, 'out%05d.ndjson' % k)
            with open(ip, 'w') as f:
                if hdr is not None:
                    f.write(json.dumps(hdr, separators=(',', ':')))
                    f.write('\n')
                for e in buf:
                    f.write(json.dumps(e, separators=(',', ':')))
                    f.write('\n')
            futures.append((g, len(buf), ip, op,
                            ex.submit(_validate_chunk, trace_module, ip, op, extra_env, timeout, xmx)))

        for g, (hdr, events) in enumerate(groups):
            buf = []
            for e in events:
                buf.append(e)
                if len(buf) >= chunk:
                    flush(g, hdr, buf)
                    buf = []
            flush(g, hdr, buf)
        out = [[] for _ in groups]
        for g, n, ip, op, fut in futures:
            verdicts, wall = fut.result()
            if len(verdicts) != n:
                raise MachineryError('%s: %d verdicts for %d events' % (trace_module, len(verdicts), n))
            out[g].extend(verdicts)
            for p in (ip, op):
                try:
                    os.unlink(p)
                except OSError:
                    pass
    return out


def tlc_version():
    rc, out, _ = _java(['tlc2.TLC', '-h'], timeout=60, xmx='256m')
    m = re.search(r'TLC2 Version [^\n]*', out)
    return m.group(0) if m else 'unknown'


def printed_json(out):
    """values printed by PrintT(ToJson(x)) in a TLC run: each is a TLA+ string literal holding JSON"""
    vals = []
    for line in out.splitlines():
        line = line.strip()
        if line.startswith('"[') or line.startswith('"{'):
            try:
                vals.append(json.loads(json.loads(line)))
            except ValueError:
                raise MachineryError('cannot parse TLC-printed behaviour: %s' % line[:200])
    return vals
