"""Exhaustive partition of an implementation decoder's input space into cubes on which it provably takes one path.

The decoder is run on a *tracked* integer that records, at every comparison / truth test, which bits of the
instruction word the compared value was derived from and the source line of the test.  A cube is
(fixed mask, value): exploration runs the decoder on the cube's representative; when a test inspects a bit that
is not fixed yet, the cube is split on all assignments of the unfixed bits of that test and the parts are
explored recursively; when every inspected bit is fixed the decoder is constant on the cube (every read of the
word goes through the tracked integer - that is the trusted base) and the cube is a leaf with the class the
decoder returned (or the exception it raised) and the path signature (sequence of test sites and outcomes).
Leaves are disjoint and cover the start cube: sum(2^free) is checked against the size of the space.
"""
import sys
import zlib


class Sym(int):
    """an int derived from the instruction word; src[i] = source bit position of result bit i, or None (constant)"""

    def __new__(cls, val, src, log):
        o = int.__new__(cls, val)
        o.src = src
        o.log = log
        return o

    # ---- derivations that keep provenance
    def __and__(self, other):
        if isinstance(other, Sym):
            self._inspect(other)
            return int(self) & int(other)
        m = int(other)
        return Sym(int(self) & m, tuple(s if (m >> i) & 1 else None for i, s in enumerate(self.src)), self.log)

    __rand__ = __and__

    def __rshift__(self, n):
        n = int(n)
        return Sym(int(self) >> n, self.src[n:], self.log)

    def __lshift__(self, n):
        n = int(n)
        return Sym(int(self) << n, (None,) * n + self.src, self.log)

    def _merge(self, other, val):
        if isinstance(other, Sym):
            n = max(len(self.src), len(other.src))
            a = self.src + (None,) * (n - len(self.src))
            b = other.src + (None,) * (n - len(other.src))
            return Sym(val, tuple(x if x is not None else y for x, y in zip(a, b)), self.log)
        return Sym(val, self.src + (None,) * 8, self.log)

    def __or__(self, other):
        return self._merge(other, int(self) | int(other))

    __ror__ = __or__

    def __add__(self, other):
        # only used to concatenate disjoint fields (chain()); any other arithmetic: give up provenance -> inspect all
        return self._merge(other, int(self) + int(other))

    __radd__ = __add__

    def __mod__(self, m):
        m = int(m)
        if m & (m - 1) == 0:
            k = m.bit_length() - 1
            return Sym(int(self) % m, self.src[:k], self.log)
        self._inspect()
        return int(self) % m

    # ---- tests: record which source bits decide them
    def _inspect(self, other=None):
        bits = [s for s in self.src if s is not None]
        if isinstance(other, Sym):
            bits += [s for s in other.src if s is not None]
        f = sys._getframe(2)
        self.log.append((tuple(sorted(set(bits))), f.f_code.co_filename.rsplit('/', 1)[-1], f.f_lineno))

    def __eq__(self, other):
        self._inspect(other)
        return int(self) == int(other)

    def __ne__(self, other):
        self._inspect(other)
        return int(self) != int(other)

    def __lt__(self, other):
        self._inspect(other)
        return int(self) < int(other)

    def __le__(self, other):
        self._inspect(other)
        return int(self) <= int(other)

    def __gt__(self, other):
        self._inspect(other)
        return int(self) > int(other)

    def __ge__(self, other):
        self._inspect(other)
        return int(self) >= int(other)

    def __bool__(self):
        self._inspect()
        return int(self) != 0

    def __hash__(self):
        self._inspect()
        return hash(int(self))

    def __index__(self):
        # bin(), range(), shifts by a tracked value ...: the whole value is looked at
        self._inspect()
        return int.__int__(self)


def patch_untracked_helpers():
    """bits_ops.bit_count() goes through bin(), which never calls back into an int subclass: give the decoder
    modules a version that reports the inspection (the random-sample cross-check would reveal any other bypass)"""
    import importlib
    import pkgutil
    import armulator.armv6.opcodes.decoders as pkg
    from armulator.armv6 import bits_ops
    orig = bits_ops.bit_count

    def bit_count(bits, bit, length):
        if isinstance(bits, Sym):
            bits._inspect()
            bits = int.__int__(bits)
        return orig(bits, bit, length)
    for m in pkgutil.iter_modules(pkg.__path__):
        mod = importlib.import_module('armulator.armv6.opcodes.decoders.' + m.name)
        if getattr(mod, 'bit_count', None) is orig:
            mod.bit_count = bit_count


def run_tracked(decoder, word, width):
    """-> (class name or 'raise:<Exc>', log)"""
    log = []
    sym = Sym(word, tuple(range(width)), log)
    try:
        r = decoder(sym)
        name = r.__name__ if r is not None else 'None'
    except NotImplementedError:
        name = 'raise:NotImplementedError'
    except Exception as ex:                          # noqa
        name = 'raise:' + type(ex).__name__
    return name, log


def explore(decoder, width, fixed, value, out, budget):
    """depth-first split of the cube (fixed, value); appends leaves (fixed, value, cls, sig) to out"""
    stack = [(fixed, value)]
    while stack:
        fixed, value = stack.pop()
        cls, log = run_tracked(decoder, value, width)
        split = None
        for bits, fn, ln in log:
            unfixed = [b for b in bits if not (fixed >> b) & 1]
            if unfixed:
                split = unfixed
                break
        if split is None:
            sig = zlib.crc32(repr([(fn, ln) for _, fn, ln in log]).encode())      # stable across runs
            out.append((fixed, value, cls, sig))
            continue
        budget[0] -= 1
        if budget[0] < 0:
            raise RuntimeError('cube exploration budget exceeded')
        nf = fixed
        for b in split:
            nf |= 1 << b
        for a in range(1 << len(split)):
            v = value
            for k, b in enumerate(split):
                if (a >> k) & 1:
                    v |= 1 << b
            stack.append((nf, v))


def _arm_task(top):
    sys.setrecursionlimit(10000)
    patch_untracked_helpers()
    from armulator.armv6.opcodes.decoders import arm_instruction_set
    out = []
    fixed = 0xF << 28
    explore(arm_instruction_set.decode_instruction, 32, fixed, top << 28, out, [5_000_000])
    return out


def _t32_task(top):
    """top = (hw1<15:11>, next 2 bits) : 3 x 4 sub-spaces"""
    patch_untracked_helpers()
    from armulator.armv6.opcodes.decoders import thumb_instruction_set_encoding_32_bit as d
    out = []
    p5, p2 = top
    fixed = (0x1F << 27) | (0x3 << 25)
    explore(d.decode_instruction, 32, fixed, (p5 << 27) | (p2 << 25), out, [5_000_000])
    return out


def partition(which, procs=16):
    """-> list of leaves (fixed, value, cls, sig); raises if the leaves do not tile the space"""
    import multiprocessing
    ctx = multiprocessing.get_context('fork')
    if which == 'arm':
        tasks, fn, total = list(range(16)), _arm_task, 1 << 32
    else:
        tasks, fn, total = [(p5, p2) for p5 in (0b11101, 0b11110, 0b11111) for p2 in range(4)], _t32_task, 3 << 27
    with ctx.Pool(min(procs, len(tasks))) as pool:
        res = pool.map(fn, tasks, chunksize=1)
    leaves = [l for r in res for l in r]
    size = sum(1 << (32 - bin(f).count('1')) for f, v, c, s in leaves)
    if size != total:
        raise RuntimeError('cube partition of %s does not tile the space: %d != %d' % (which, size, total))
    return leaves


def verify_disjoint_sample(leaves, rnd, decoder, width, n=20000, gen=None):
    """independent cross-check: random concrete words fall in exactly one leaf and decode (untracked) to its class"""
    # index leaves by their fixed mask
    by_mask = {}
    for f, v, c, s in leaves:
        by_mask.setdefault(f, {})[v] = c
    bad = 0
    for _ in range(n):
        w = gen() if gen else rnd.getrandbits(width)
        hits = [d[w & f] for f, d in by_mask.items() if (w & f) in d]
        try:
            r = decoder(w)
            name = r.__name__ if r is not None else 'None'
        except NotImplementedError:
            name = 'raise:NotImplementedError'
        except Exception as ex:                      # noqa
            name = 'raise:' + type(ex).__name__
        if len(hits) != 1 or hits[0] != name:
            bad += 1
    return bad
