"""Wide sweeps over instruction words (envelope properties C05/C10/C18/C19 and totality).
Each task is run in a worker process and returns one Group."""
import random

from . import campaign as C
from . import isa_gen as G
from .words import limbs

IT_MID = [0x04, 0x0C, 0x02, 0x06, 0x0A, 0x0E, 0x01, 0x05, 0x0B]      # masks with more than one instruction left
MODESETS = {'priv4': [16, 19, 17, 22], 'all': [16, 17, 18, 19, 22, 23, 27, 31], 'usr': [16]}


def it_state(rnd, pos):
    """pos: 0 = outside, 1 = inside not last, 2 = last"""
    if pos == 0:
        return 0
    cond = rnd.randrange(0, 14)
    if pos == 2:
        return (cond << 4) | 0x8
    return (cond << 4) | rnd.choice(IT_MID)


def mk_group(task):
    over = dict(task.get('cfg', {}))
    g = C.Group(task['name'], mpu=False, fetch=not task.get('fetchless'), **over)
    if task.get('mpu'):
        # permissive MPU: region 0 covers 4 GiB, full access
        r = g.arm.registers
        r.sctlr.m = 1
        r.drsrs[0].value = (31 << 1) | 1
        r.drbars[0] = 0
        r.dracrs[0].value = 3 << 8
        r.mpuir.dregion = 12
        g.base = C.M.project(g.arm)
    if task.get('randmem') is not None:
        # random memory contents live in the group's base state (events then only override a few bytes)
        rr = random.Random(task['randmem'])
        for mc in g.arm.mem.memories:
            mc.mem.memory_array[:] = bytes(rr.getrandbits(8) for _ in range(len(mc.mem.memory_array)))
        g.base = C.M.project(g.arm)
    return g


def prep(g, rnd, task, thumb, itpos, k):
    st = g.fresh()
    modes = MODESETS[task.get('modes', 'priv4')]
    mode = modes[k % len(modes)]
    pc = rnd.randrange(2, 58) * 4
    if thumb and rnd.random() < 0.5:
        pc += 2                                  # Thumb code at addresses = 2 mod 4: Align(PC, 4) differs from PC there
    C.randomize(st, rnd, mode=mode, thumb=thumb, it=it_state(rnd, itpos) if thumb else 0, pc=pc)
    if g.cfg['arch_version'] >= 7:
        # SCTLR.U is RAO on ARMv7: a v7 state with U = 0 does not exist
        st['sys']['SCTLR'] = limbs(C.unlimbs(st['sys']['SCTLR']) | (1 << 22))
    if task.get('ns'):
        # security state and the SCR bits that gate CPSR.A / CPSR.F writes (AW, FW)
        scr = C.unlimbs(st['sys']['SCR']) & ~0x31
        st['sys']['SCR'] = limbs(scr | rnd.getrandbits(1) | (rnd.getrandbits(1) << 5) | (rnd.getrandbits(1) << 4))
    # keep data addresses mostly inside the RAM so loads/stores do something
    for r in ('R0usr', 'R1usr', 'R2usr', 'R3usr', 'R4usr', 'R5usr', 'R6usr', 'R7usr', 'SPusr', 'SPsvc', 'SPfiq',
              'SPmon', 'SPirq', 'SPabt', 'SPund'):
        if rnd.random() < 0.5:
            st['R'][r] = limbs(rnd.randrange(0, 64) * 4 + (rnd.randrange(4) if rnd.random() < 0.2 else 0))
    return st, pc


def sweep_t16(task):
    rnd = random.Random(task['seed'])
    g = mk_group(task)
    for k, h in enumerate(range(task['lo'], task['hi'])):
        poss = [h % 3] if task['itpos'] == 'rotate' else list(task['itpos'])
        if task['itpos'] == 'rotate' and h % 8 == 0:
            poss.append((h + 1) % 3)           # the same halfword once more on the same object, other IT position and state
        for itpos in poss:
            st, pc = prep(g, rnd, task, True, itpos, k)
            C.put_instr(st, pc, h, True)
            C.put_code(st, 0, pc + 2, rnd.getrandbits(16), 2)
            g.add(st, {'n': 'Step'}, meta={'word': h, 'itpos': itpos})
    return [g]


def sweep_words(task):
    """explicit list of (thumb, word) pairs; every 6th word is executed a second time on the same object under a new random
    state (same word, other flags / IT position / mode: anything remembered from the first execution must not matter)"""
    rnd = random.Random(task['seed'])
    g = mk_group(task)
    for k, (thumb, w) in enumerate(task['words']):
        for rep in range(2 if k % 6 == 0 else 1):
            itpos = rnd.choice([0, 0, 1, 2]) if thumb else 0
            st, pc = prep(g, rnd, task, thumb, itpos, k + rep)
            C.put_instr(st, pc, w, thumb)
            g.add(st, {'n': 'Step'}, meta={'word': w, 'itpos': itpos, 'thumb': thumb, 'rep': rep})
    return [g]


def class_word_list(seed, per_class):
    """words for every encoding class known from the repository's tests (see testwords.py)"""
    from . import testwords
    g = C.Group('classwords')
    return testwords.class_words(random.Random(seed), per_class, g.arm)


def random_words(rnd, n, classes=None):
    """a third per-class words (if given), the rest structured patterns and uniform words; both instruction sets"""
    out = []
    if classes:
        k = min(len(classes), n // 3)
        out = rnd.sample(classes, k)
        n -= k
    pats = G.ARM_DP + G.ARM_BR
    for _ in range(n):
        r = rnd.random()
        if r < 0.3:
            out.append((False, rnd.getrandbits(32)))
        elif r < 0.45:
            out.append((False, G.fill(rnd.choice(pats)[1], rnd)))
        elif r < 0.5:
            out.append((False, (rnd.choice([0xE, 0xF, 0x0]) << 28) | rnd.getrandbits(28)))
        elif r < 0.85:
            hw1 = rnd.choice([0xE800, 0xF000, 0xF800]) | rnd.getrandbits(11)
            out.append((True, (hw1 << 16) | rnd.getrandbits(16)))
        else:
            out.append((True, G.fill(rnd.choice(G.T32_DP + G.T32_BR)[1], rnd)))
    return out
