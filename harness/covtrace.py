"""Line coverage of the implementation under the checks (self-assessment only; enabled by VERIF_COVERAGE=<dir>).
Uses sys.monitoring (Python 3.12) with per-location DISABLE, so the cost is one callback per line ever executed.
tools/impl_coverage.py merges the dumps and lists implementation lines no check executed."""
import json
import os
import sys

DIR = os.environ.get('VERIF_COVERAGE')
_seen = set()
_prefix = None


def start(repo):
    global _prefix
    if not DIR or _prefix is not None or not hasattr(sys, 'monitoring'):
        return
    _prefix = os.path.join(os.path.realpath(repo), 'armulator') + os.sep
    mon = sys.monitoring
    tool = mon.COVERAGE_ID
    try:
        mon.use_tool_id(tool, 'verif-cov')
    except ValueError:
        return

    def on_line(code, line):
        fn = code.co_filename
        if fn.startswith(_prefix):
            _seen.add((fn[len(_prefix):], line))
        return mon.DISABLE
    mon.register_callback(tool, mon.events.LINE, on_line)
    mon.set_events(tool, mon.events.LINE)


def dump(tag=''):
    if not DIR or _prefix is None:
        return
    os.makedirs(DIR, exist_ok=True)
    with open(os.path.join(DIR, 'cov-%d-%s.json' % (os.getpid(), tag)), 'w') as f:
        json.dump(sorted(_seen), f)
