"""Instruction-word generators (test inputs only - the oracle is the TLA+ specification).
A pattern is a 16/32-character string of 0/1 and field letters; fields are filled randomly with
biases toward interesting values (PC/SP/LR register numbers, boundary immediates)."""

REG_BIAS = [0, 1, 2, 3, 4, 5, 6, 7, 8, 9, 10, 11, 12, 13, 14, 15, 15, 14, 13, 0, 1, 1, 2]


def fill(pattern, rnd, fixed=None, regfields='dnmst'):
    """pattern -> int.  `fixed` maps a field letter to a value; letters in regfields use REG_BIAS when 4 bits wide."""
    pat = pattern.replace(' ', '')
    n = len(pat)
    fields = {}
    for i, ch in enumerate(pat):
        if ch not in '01':
            fields.setdefault(ch, []).append(n - 1 - i)
    val = 0
    for i, ch in enumerate(pat):
        if ch == '1':
            val |= 1 << (n - 1 - i)
    for ch, poss in fields.items():
        w = len(poss)
        if fixed and ch in fixed:
            v = fixed[ch] & ((1 << w) - 1)
        elif ch in regfields and w == 4:
            v = rnd.choice(REG_BIAS)
        else:
            r = rnd.random()
            if r < 0.15:
                v = 0
            elif r < 0.3:
                v = (1 << w) - 1
            elif r < 0.4:
                v = 1 << rnd.randrange(w)
            else:
                v = rnd.getrandbits(w)
        for k, pos in enumerate(sorted(poss)):
            if (v >> k) & 1:
                val |= 1 << pos
    return val


# (name, pattern) - ARM data processing
DP_OPS = ['0000', '0001', '0010', '0011', '0100', '0101', '0110', '0111', '1100', '1101', '1110', '1111']
TEST_OPS = ['1000', '1001', '1010', '1011']
ARM_DP = []
for _o in DP_OPS:
    ARM_DP.append(('dp_reg_' + _o, 'cccc000' + _o + 'Snnnnddddiiiiitt0mmmm'))
    ARM_DP.append(('dp_rsr_' + _o, 'cccc000' + _o + 'Snnnnddddssss0tt1mmmm'))
    ARM_DP.append(('dp_imm_' + _o, 'cccc001' + _o + 'Snnnnddddiiiiiiiiiiii'))
for _o in TEST_OPS:
    ARM_DP.append(('dp_reg_' + _o, 'cccc000' + _o + '1nnnn0000iiiiitt0mmmm'))
    ARM_DP.append(('dp_rsr_' + _o, 'cccc000' + _o + '1nnnn0000ssss0tt1mmmm'))
    ARM_DP.append(('dp_imm_' + _o, 'cccc001' + _o + '1nnnn0000iiiiiiiiiiii'))
ARM_DP += [('movw', 'cccc00110000iiiiddddiiiiiiiiiiii'), ('movt', 'cccc00110100iiiiddddiiiiiiiiiiii')]

ARM_BR = [('b', 'cccc1010iiiiiiiiiiiiiiiiiiiiiiii'), ('bl', 'cccc1011iiiiiiiiiiiiiiiiiiiiiiii'),
          ('blx_i', '1111101hiiiiiiiiiiiiiiiiiiiiiiii'), ('bx', 'cccc000100101111111111110001mmmm'),
          ('blx_r', 'cccc000100101111111111110011mmmm')]

T32_DP = []
for _o in ['0000', '0001', '0010', '0011', '0100', '1000', '1010', '1011', '1101', '1110']:
    T32_DP.append(('t32_modimm_' + _o, '11110i0' + _o + 'Snnnn0iiiddddiiiiiiii'))
    T32_DP.append(('t32_shreg_' + _o, '1110101' + _o + 'Snnnn0iiiddddiittmmmm'))
T32_DP += [('t32_addw', '11110i100000nnnn0iiiddddiiiiiiii'), ('t32_subw', '11110i101010nnnn0iiiddddiiiiiiii'),
           ('t32_movw', '11110i100100iiii0iiiddddiiiiiiii'), ('t32_movt', '11110i101100iiii0iiiddddiiiiiiii')]
T32_BR = [('t32_b_t3', '11110scccciiiiii10j0kiiiiiiiiiii'), ('t32_b_t4', '11110siiiiiiiiii10j1kiiiiiiiiiii'),
          ('t32_bl', '11110siiiiiiiiii11j1kiiiiiiiiiii'), ('t32_blx', '11110siiiiiiiiii11j0kiiiiiiiiii0')]

COND_BIAS = [14, 14, 14, 14, 14, 14, 0, 1, 2, 3, 4, 5, 6, 7, 8, 9, 10, 11, 12, 13]

# load/store families
ARM_LS = [('ls_imm', 'cccc010pubwlnnnnttttiiiiiiiiiiii'), ('ls_reg', 'cccc011pubwlnnnnttttiiiiiyy0mmmm'),
          ('xls_imm', 'cccc000pu1wlnnnnttttiiii1yy1iiii'), ('xls_reg', 'cccc000pu0wlnnnntttt00001yy1mmmm')]
ARM_LSM = [('lsm', 'cccc100pu0wlnnnnrrrrrrrrrrrrrrrr')]
T32_LS = [('t32_ls_i12', '1111100s1zzlnnnnttttiiiiiiiiiiii'), ('t32_ls_i8', '1111100s0zzlnnnntttt1puwiiiiiiii'),
          ('t32_ls_reg', '1111100s0zzlnnnntttt000000iimmmm'), ('t32_lsd', '1110100pu1wlnnnnttttddddiiiiiiii'),
          ('t32_tb', '111010001101nnnn11110000000hmmmm')]
T32_LSM = [('t32_lsm_ia', '1110100010wlnnnnpm0rrrrrrrrrrrrr'), ('t32_lsm_db', '1110100100wlnnnnpm0rrrrrrrrrrrrr')]


def t16_ls_word(rnd):
    r = rnd.random()
    if r < 0.1:
        return 0x4800 | rnd.getrandbits(11)                   # LDR literal
    if r < 0.35:
        return 0x5000 | rnd.getrandbits(12)                   # register offset forms
    if r < 0.7:
        return 0x6000 | rnd.getrandbits(13)                   # STR/LDR/STRB/LDRB imm5
    if r < 0.8:
        return 0x8000 | rnd.getrandbits(12)                   # STRH/LDRH imm5
    if r < 0.9:
        return 0x9000 | rnd.getrandbits(12)                   # SP-relative
    return rnd.choice([0xC000, 0xC800, 0xB400, 0xBC00]) | rnd.getrandbits(9 if rnd.random() < 0.5 else 8)
