"""Instruction-word generators (test inputs only - the oracle is the TLA+ specification).
A pattern is a 16/32-character string of 0/1 and field letters; fields are filled randomly with
biases toward interesting values (PC/SP/LR register numbers, boundary immediates)."""

REG_BIAS = [0, 1, 2, 3, 4, 5, 6, 7, 8, 9, 10, 11, 12, 13, 14, 15, 15, 14, 13, 0, 1, 1, 2]


def fill(pattern, rnd, fixed=None, regfields='dnmst'):
    """pattern -> int.  `fixed` maps a field letter to a value; letters in regfields use REG_BIAS when 4 bits wide."""
    pat = pattern.replace(' ', '')
    n = len(pat)
    fields = {}
    for i, ch in enumerate(pat):
        if ch not in '01':
            fields.setdefault(ch, []).append(n - 1 - i)
    val = 0
    for i, ch in enumerate(pat):
        if ch == '1':
            val |= 1 << (n - 1 - i)
    for ch, poss in fields.items():
        w = len(poss)
        if fixed and ch in fixed:
            v = fixed[ch] & ((1 << w) - 1)
        elif ch in regfields and w == 4:
            v = rnd.choice(REG_BIAS)
        else:
            r = rnd.random()
            if r < 0.15:
                v = 0
            elif r < 0.3:
                v = (1 << w) - 1
            elif r < 0.4:
                v = 1 << rnd.randrange(w)
            else:
                v = rnd.getrandbits(w)
        for k, pos in enumerate(sorted(poss)):
            if (v >> k) & 1:
                val |= 1 << pos
    return val


# (name, pattern) - ARM data processing
DP_OPS = ['0000', '0001', '0010', '0011', '0100', '0101', '0110', '0111', '1100', '1101', '1110', '1111']
TEST_OPS = ['1000', '1001', '1010', '1011']
ARM_DP = []
for _o in DP_OPS:
    ARM_DP.append(('dp_reg_' + _o, 'cccc000' + _o + 'Snnnnddddiiiiitt0mmmm'))
    ARM_DP.append(('dp_rsr_' + _o, 'cccc000' + _o + 'Snnnnddddssss0tt1mmmm'))
    ARM_DP.append(('dp_imm_' + _o, 'cccc001' + _o + 'Snnnnddddiiiiiiiiiiii'))
for _o in TEST_OPS:
    ARM_DP.append(('dp_reg_' + _o, 'cccc000' + _o + '1nnnn0000iiiiitt0mmmm'))
    ARM_DP.append(('dp_rsr_' + _o, 'cccc000' + _o + '1nnnn0000ssss0tt1mmmm'))
    ARM_DP.append(('dp_imm_' + _o, 'cccc001' + _o + '1nnnn0000iiiiiiiiiiii'))
ARM_DP += [('movw', 'cccc00110000iiiiddddiiiiiiiiiiii'), ('movt', 'cccc00110100iiiiddddiiiiiiiiiiii')]

ARM_BR = [('b', 'cccc1010iiiiiiiiiiiiiiiiiiiiiiii'), ('bl', 'cccc1011iiiiiiiiiiiiiiiiiiiiiiii'),
          ('blx_i', '1111101hiiiiiiiiiiiiiiiiiiiiiiii'), ('bx', 'cccc000100101111111111110001mmmm'),
          ('blx_r', 'cccc000100101111111111110011mmmm')]

T32_DP = []
for _o in ['0000', '0001', '0010', '0011', '0100', '1000', '1010', '1011', '1101', '1110']:
    T32_DP.append(('t32_modimm_' + _o, '11110i0' + _o + 'Snnnn0iiiddddiiiiiiii'))
    T32_DP.append(('t32_shreg_' + _o, '1110101' + _o + 'Snnnn0iiiddddiittmmmm'))
T32_DP += [('t32_addw', '11110i100000nnnn0iiiddddiiiiiiii'), ('t32_subw', '11110i101010nnnn0iiiddddiiiiiiii'),
           ('t32_movw', '11110i100100iiii0iiiddddiiiiiiii'), ('t32_movt', '11110i101100iiii0iiiddddiiiiiiii')]
T32_BR = [('t32_b_t3', '11110scccciiiiii10j0kiiiiiiiiiii'), ('t32_b_t4', '11110siiiiiiiiii10j1kiiiiiiiiiii'),
          ('t32_bl', '11110siiiiiiiiii11j1kiiiiiiiiiii'), ('t32_blx', '11110siiiiiiiiii11j0kiiiiiiiiii0')]

COND_BIAS = [14, 14, 14, 14, 14, 14, 0, 1, 2, 3, 4, 5, 6, 7, 8, 9, 10, 11, 12, 13]

# load/store families
ARM_LS = [('ls_imm', 'cccc010pubwlnnnnttttiiiiiiiiiiii'), ('ls_reg', 'cccc011pubwlnnnnttttiiiiiyy0mmmm'),
          ('xls_imm', 'cccc000pu1wlnnnnttttiiii1yy1iiii'), ('xls_reg', 'cccc000pu0wlnnnntttt00001yy1mmmm'),
          ('ldrex', 'cccc00011zz1nnnntttt111110011111'), ('strex', 'cccc00011zz0nnnndddd11111001tttt')]
ARM_LSM = [('lsm', 'cccc100pu0wlnnnnrrrrrrrrrrrrrrrr'), ('lsm_s', 'cccc100pu1wlnnnnrrrrrrrrrrrrrrrr')]
T32_LS = [('t32_ls_i12', '1111100s1zzlnnnnttttiiiiiiiiiiii'), ('t32_ls_i8', '1111100s0zzlnnnntttt1puwiiiiiiii'),
          ('t32_ls_reg', '1111100s0zzlnnnntttt000000iimmmm'), ('t32_lsd', '1110100pu1wlnnnnttttddddiiiiiiii'),
          ('t32_tb', '111010001101nnnn11110000000hmmmm'),
          ('t32_strex', '111010000100nnnnttttddddiiiiiiii'), ('t32_ldrex', '111010000101nnnntttt1111iiiiiiii'),
          ('t32_strexbhd', '111010001100nnnnttttuuuu01zzdddd'), ('t32_ldrexbhd', '111010001101nnnnttttuuuu01zz1111')]
T32_LSM = [('t32_lsm_ia', '1110100010wlnnnnpm0rrrrrrrrrrrrr'), ('t32_lsm_db', '1110100100wlnnnnpm0rrrrrrrrrrrrr')]


def t16_ls_word(rnd):
    r = rnd.random()
    if r < 0.1:
        return 0x4800 | rnd.getrandbits(11)                   # LDR literal
    if r < 0.35:
        return 0x5000 | rnd.getrandbits(12)                   # register offset forms
    if r < 0.7:
        return 0x6000 | rnd.getrandbits(13)                   # STR/LDR/STRB/LDRB imm5
    if r < 0.8:
        return 0x8000 | rnd.getrandbits(12)                   # STRH/LDRH imm5
    if r < 0.9:
        return 0x9000 | rnd.getrandbits(12)                   # SP-relative
    return rnd.choice([0xC000, 0xC800, 0xB400, 0xBC00]) | rnd.getrandbits(9 if rnd.random() < 0.5 else 8)

# system instructions
ARM_SYS = [('msr_imm', 'cccc00110r10mmmm1111iiiiiiiiiiii'), ('msr_reg', 'cccc00010r10mmmm111100000000nnnn'),
           ('mrs', 'cccc00010r001111dddd000000000000'), ('hint', 'cccc0011001000001111000000000hhh'),
           ('cps', '111100010000iix00000000aif0mmmmm'), ('setend', '1111000100000001000000e000000000'),
           ('subs_pc_lr_imm', 'cccc001oooo1nnnn1111iiiiiiiiiiii'), ('subs_pc_lr_reg', 'cccc000oooo1nnnn1111iiiiitt0mmmm'),
           ('rfe', '1111100pu0w1nnnn0000101000000000'), ('srs', '1111100pu1w0110100000101000mmmmm'),
           ('ldm_excret', 'cccc100pu1w1nnnn1rrrrrrrrrrrrrrr'), ('ldm_user', 'cccc100pu101nnnn0rrrrrrrrrrrrrrr'),
           ('stm_user', 'cccc100pu100nnnnrrrrrrrrrrrrrrrr'), ('svc', 'cccc1111iiiiiiiiiiiiiiiiiiiiiiii'),
           ('smc', 'cccc000101100000000000000111iiii'), ('eret', 'cccc0001011000000000000001101110')]
T16_SYS = [('setend', '101101100101e000'), ('cps', '10110110011i0aif'), ('hint', '101111110hhh0000'), ('svc', '11011111iiiiiiii')]
T32_SYS = [('msr', '11110011100rnnnn1000mmmm00000000'), ('mrs', '11110011111r11111000dddd00000000'),
           ('cps', '111100111010111110000iixaifmmmmm'), ('hint', '11110011101011111000000000000hhh'),
           ('subs_pc_lr', '11110011110111101000111iiiiiiiii'[:23] + 'iiiiiiiii'[:9]), ('smc', '111101111111iiii1000000000000000'),
           ('rfe_db', '1110100000w1nnnn1100000000000000'), ('rfe_ia', '1110100110w1nnnn1100000000000000'),
           ('srs_db', '1110100000w0110111000000000mmmmm'), ('srs_ia', '1110100110w0110111000000000mmmmm')]
T32_SYS = [(n, p) for n, p in T32_SYS if len(p) == 32]
T32_SYS.append(('subs_pc_lr', '111100111101111010001111iiiiiiii'))
GOOD_MODES = [16, 17, 18, 19, 22, 23, 27, 31]

# multiply / divide / saturating / SIMD / bit-field / extend / reverse
ARM_MEDIA = [('mul', 'cccc0000ooosddddaaaammmm1001nnnn'), ('hmul', 'cccc00010oo0ddddaaaammmm1yx0nnnn'),
             ('qarith', 'cccc00010oo0nnnndddd00000101mmmm'), ('clz', 'cccc000101101111dddd11110001mmmm'),
             ('par', 'cccc01100pppnnnndddd1111ooo1mmmm'), ('pkh', 'cccc01101000nnnnddddiiiiit01mmmm'),
             ('sel', 'cccc01101000nnnndddd11111011mmmm'), ('ssat', 'cccc0110101sssssddddiiiiih01nnnn'),
             ('usat', 'cccc0110111sssssddddiiiiih01nnnn'), ('ssat16', 'cccc01101010ssssdddd11110011nnnn'),
             ('usat16', 'cccc01101110ssssdddd11110011nnnn'), ('ext', 'cccc01101uwwnnnnddddrr000111mmmm'),
             ('rev', 'cccc011010111111dddd11110011mmmm'), ('rev16', 'cccc011010111111dddd11111011mmmm'),
             ('rbit', 'cccc011011111111dddd11110011mmmm'), ('revsh', 'cccc011011111111dddd11111011mmmm'),
             ('dualmul', 'cccc01110ooossssaaaammmmoox1nnnn'), ('usad8', 'cccc01111000ddddaaaammmm0001nnnn'),
             ('sbfx', 'cccc0111101wwwwwddddlllll101nnnn'), ('ubfx', 'cccc0111111wwwwwddddlllll101nnnn'),
             ('bfi', 'cccc0111110wwwwwddddlllll001nnnn')]
T16_MEDIA = [('mul', '0100001101nnnddd'), ('ext', '10110010oommmddd'), ('rev', '10111010oommmddd')]
T32_MEDIA = [('shiftreg', '111110100ooosnnn1111dddd0000mmmm'), ('ext', '111110100ooonnnn1111dddd10rrmmmm'),
             ('par', '111110101ooonnnn1111dddd0uppmmmm'), ('misc', '1111101010oonnnn1111dddd10ppmmmm'),
             ('mul', '111110110ooonnnnaaaadddd00ppmmmm'), ('long', '111110111ooonnnnllllhhhhppppmmmm'),
             ('satbf', '11110011ooo0nnnn0iiiddddii0sssss'), ('pkh', '111010101100nnnn0iiiddddiit0mmmm')]
for _n, _p in ARM_MEDIA + T32_MEDIA:
    assert len(_p) == 32, (_n, len(_p))
for _n, _p in T16_MEDIA:
    assert len(_p) == 16, (_n, len(_p))
