"""Apalache runner for the unbounded 32-bit lemmas of spec/apa/APA_W32.tla.

W32.tla as a whole cannot be given to Apalache (it EXTENDS the CommunityModules `Bitwise`, whose operators are Java
overrides for TLC and RECURSIVE definitions otherwise, and it contains other RECURSIVE operators).  So the module
`W32sub` that APA_W32 instantiates is generated here, at run time, from the CURRENT text of spec/W32.tla: the wanted
top-level definitions are cut out verbatim together with the `@type` comments that precede them, and `L == 16` replaces the
CONSTANT.  A change to one of these operators in W32.tla is therefore a change to what Apalache checks."""
import os
import re
import shutil
import subprocess
import tempfile
import time

from . import tlc

WANT = ['M', 'MM', 'WW', 'P2', 'Zero', 'AllOnes', 'Eq', 'Lt', 'Le', 'IsZeroW', 'WNot', 'Bit', 'TopBit', 'Slice', 'LSLwF', 'LSRwF',
        'AddC', 'Add', 'Sub', 'LSLw', 'LSRw', 'TopMask']
DEF = re.compile(r'^([A-Za-z_][A-Za-z0-9_]*)(\([^)]*\))?\s*==')


def extract_subset(w32_text):
    lines = w32_text.split('\n')
    defs, order, cur, pending = {}, [], None, []
    for line in lines:
        m = DEF.match(line)
        if m:
            cur = m.group(1)
            defs[cur] = pending + [line]
            order.append(cur)
            pending = []
        elif cur and line[:1] in (' ', '\t') and line.strip():
            defs[cur].append(line)
        else:
            cur = None
            pending = pending + [line] if line.startswith('\\* @type') else []
    missing = [n for n in WANT if n not in defs]
    if missing:
        raise tlc.MachineryError('W32.tla no longer defines %s' % missing)
    out = ['---- MODULE W32sub ----', 'EXTENDS Integers, Sequences', 'L == 16']
    for n in order:
        if n in WANT:
            out += defs[n]
    out.append('====')
    return '\n'.join(out)


def run_lemmas(invs, timeout=300):
    """-> list of dicts {inv, ok, seconds}; raises MachineryError if Apalache itself fails"""
    exe = shutil.which('apalache-mc')
    if not exe:
        raise tlc.MachineryError('apalache-mc not on PATH')
    d = tempfile.mkdtemp(prefix='apa_', dir=tlc.scratch())
    res = []
    try:
        with open(os.path.join(tlc.SPEC, 'W32.tla')) as f:
            sub = extract_subset(f.read())
        with open(os.path.join(d, 'W32sub.tla'), 'w') as f:
            f.write(sub)
        shutil.copy(os.path.join(tlc.SPEC, 'apa', 'APA_W32.tla'), d)

        def one(inv):
            t0 = time.time()
            p = subprocess.run([exe, 'check', '--init=Init', '--next=Next', '--inv=' + inv, '--length=0',
                                '--out-dir=' + os.path.join(d, 'out_' + inv), 'APA_W32.tla'], cwd=d, stdout=subprocess.PIPE,
                               stderr=subprocess.STDOUT, text=True, timeout=timeout)
            return inv, p, time.time() - t0
        from concurrent.futures import ThreadPoolExecutor
        with ThreadPoolExecutor(max_workers=6) as ex:
            for inv, p, dt in ex.map(one, invs):
                if 'EXITCODE: OK' in p.stdout and 'The outcome is: NoError' in p.stdout:
                    res.append({'inv': inv, 'ok': True, 'seconds': round(dt, 1)})
                elif 'The outcome is: Error' in p.stdout or 'violat' in p.stdout:
                    res.append({'inv': inv, 'ok': False, 'seconds': round(dt, 1), 'tail': p.stdout[-1500:]})
                else:
                    raise tlc.MachineryError('apalache failed on %s: %s' % (inv, p.stdout[-1500:]))
    except subprocess.TimeoutExpired as e:
        raise tlc.MachineryError('apalache timeout: %s' % e)
    finally:
        shutil.rmtree(d, ignore_errors=True)
    return res
