"""Step campaigns: build groups of events (one group = one configuration + base state), have TLC judge them
with Trace_Step.tla, and hand the (filtered) failing clauses to the check context."""
import copy
import json

from . import machine as M
from . import tlc
from .core import log
from .words import limbs, unlimbs, rand32

MODES = {'usr': 16, 'fiq': 17, 'irq': 18, 'svc': 19, 'mon': 22, 'abt': 23, 'hyp': 26, 'und': 27, 'sys': 31}


class Group:
    """One configuration + base state; events are recorded against it."""

    def __init__(self, name, fetch=True, mpu=False, **cfg_over):
        self.name = name
        self.path, self.cfg = M.make_config(**cfg_over)
        self.arm = M.new_arm(self.path, fetch=fetch)
        self.arm.take_reset()
        if not mpu:
            self.arm.registers.sctlr.m = 0
        self.base = M.project(self.arm)
        self.events = []
        self.meta = {}

    def reload(self):
        """the implementation's configuration is a process-wide singleton: re-install ours before using the instance"""
        from armulator.armv6.configurations import configurations
        configurations.load(self.path)

    def fresh(self):
        st = {k: (copy.deepcopy(v) if k in ('R', 'spsr', 'sys', 'ev') else v) for k, v in self.base.items()}
        st['mem'] = {'devs': self.base['mem']['devs'], 'base': [list(b) for b in self.base['mem']['base']]}
        return st

    _current = None

    def add(self, st, act, meta=None):
        if Group._current is not self:
            self.reload()
            Group._current = self
        eid = len(self.events) + 1
        e, post = M.step_event(self.arm, eid, self.base, st, act)
        self.events.append(e)
        if meta:
            self.meta[eid] = meta
        return e, post

    def header(self):
        return M.header(self.cfg, self.base)

    def data(self):
        return GroupData(self.name, self.cfg, self.header(), self.events, self.meta)


class GroupData:
    """what judge_groups needs of a group (picklable: produced by worker processes)"""

    def __init__(self, name, cfg, hdr, events, meta):
        self.name = name
        self.cfg = cfg
        self.hdr = hdr
        self.events = events
        self.meta = meta

    def header(self):
        return self.hdr


def _worker(args):
    fn, arg = args
    from . import core
    core.capture_impl_stdout()
    Group._current = None
    from . import covtrace
    covtrace.start(core.REPO)
    res = [g.data() if isinstance(g, Group) else g for g in fn(arg)]
    covtrace.dump(str(id(arg) % 100000))
    return res


def parallel(fn, args, procs=16):
    """run fn(arg) -> [Group] for every arg in worker processes (fork), return all GroupData"""
    import multiprocessing
    if len(args) == 1 or procs == 1:
        return [d for a in args for d in _worker((fn, a))]
    ctx = multiprocessing.get_context('fork')
    with ctx.Pool(min(procs, len(args))) as pool:
        res = pool.map(_worker, [(fn, a) for a in args], chunksize=1)
    return [d for r in res for d in r]


def randomize(st, rnd, mode=None, thumb=None, it=0, pc=None, cfg=None, e=0):
    """random register file / flags in a chosen mode and instruction set"""
    for r in st['R']:
        st['R'][r] = limbs(rand32(rnd))
    for m in st['spsr']:
        st['spsr'][m] = limbs(rand32(rnd))
    st['elr'] = limbs(rand32(rnd))
    c = rnd.getrandbits(5) << 27              # N Z C V Q
    c |= rnd.getrandbits(4) << 16             # GE
    c |= rnd.getrandbits(3) << 6              # A I F
    c |= (e & 1) << 9
    if thumb:
        c |= 0x20
        c |= ((it >> 2) & 0x3F) << 10 | (it & 3) << 25
    c |= mode if mode is not None else 19
    st['cpsr'] = limbs(c)
    if pc is not None:
        st['R']['PC'] = limbs(pc)
    return st


def put_code(st, dev, off, word, nbytes):
    b = st['mem']['base'][dev]
    for i in range(nbytes):
        b[off + i] = (word >> (8 * i)) & 0xFF


def put_instr(st, pc_off, word, thumb, dev=0):
    """place an instruction word at device offset pc_off (little-endian; Thumb-32 = two halfwords hw1, hw2)"""
    if not thumb:
        put_code(st, dev, pc_off, word, 4)
    elif word >> 16:
        put_code(st, dev, pc_off, word >> 16, 2)
        put_code(st, dev, pc_off + 2, word & 0xFFFF, 2)
    else:
        put_code(st, dev, pc_off, word, 2)


def judge_groups(ctx, groups, clause_filter, site_of=None, tags_of=None, trace_module='Trace_Step', chunk=4000,
                 canary=True, rnd=None, exact_only_paths=None):
    """validate all groups; returns list of (group, event, verdict).  clause_filter(clause, verdict, event) -> bool
    selects the clauses this property is about."""
    import random
    rnd = rnd or random.Random(ctx.seed)
    payload = []
    canaries = []
    for g in groups:
        evs = list(g.events)
        cans = []
        if canary and evs:
            # binding canaries: corrupt the recorded delta of a few real events of this group
            for e in rnd.sample(evs, min(3, len(evs))):
                c = corrupt(e, rnd, len(evs) + len(cans) + 1, g.header()['h']['base'])
                if c is not None:
                    cans.append(c)
        canaries.append(cans)
        payload.append((g.header(), evs + [c[0] for c in cans]))
    res = tlc.validate_groups(trace_module, payload, chunk=chunk)
    out = []
    for g, vs, cans in zip(groups, res, canaries):
        byid = {v['id']: v for v in vs}
        for e in g.events:
            v = byid[e['id']]
            out.append((g, e, v))
            p = v['path']
            key = p if p.startswith('exact') or p.startswith('exc') else ':'.join(p.split(':')[:2])
            ctx.paths[key] = ctx.paths.get(key, 0) + 1
            failing = [c for c in v['v'] if clause_filter(c, v, e)]
            if failing:
                site = site_of(e, v) if site_of else (e.get('cls') or v['path'])
                tags = base_tags(g, e, v)
                if tags_of:
                    tags.update(tags_of(g, e, v))
                ctx.judge(site, failing, tags, {'group': g.name, 'cfg': g.cfg, 'header': g.header(), 'event': e,
                                                'all_clauses': v['v']},
                          what='path=%s out=%s' % (v['path'], e['out']))
        for c, kind in cans:
            v = byid[c['id']]
            if v['path'] == 'exc:Reset' and kind != 'range':
                continue                      # Reset leaves most state UNKNOWN: only the range canary applies
            if kind == 'priv' and c['act']['n'] not in ('Step', 'Exec') and not v['path'].startswith(('memapi', 'exc', 'psrapi')):
                continue                      # no clause of this verdict path looks at privileged state
            if kind == 'attr':
                if v['path'].endswith(':attrs'):
                    ctx.canary('attr.ty' in v['v'])
                    ctx.extra['attr_canaries'] = ctx.extra.get('attr_canaries', 0) + 1
                continue
            if kind == 'priv':
                ctx.canary('confine' in v['v'] or 'range' in v['v'] or 'hosterror' in v['v'] or
                           (v['path'].startswith(('memapi', 'exc', 'psrapi', 'exact')) and bool(v['v'])))
            elif v['path'].startswith(('exact', 'exc', 'memapi', 'psrapi:CpsrWrite', 'psrapi:SpsrWrite')) or kind == 'range':
                ctx.canary(bool(v['v']))
                if not v['v']:
                    log('  canary not rejected: kind=%s path=%s act=%s' % (kind, v['path'], c['act']))
        ctx.events += len(g.events)
    return out


def base_tags(g, e, v):
    """tags every judged event carries (known findings are matched on them whatever check executes the word)"""
    t = {'enc': v['path'].split(':')[-1], 'arch': g.cfg.get('arch_version') if isinstance(g.cfg, dict) else None}
    try:
        t['priv'] = (pre_value(g, e, 'cpsr')[1] & 31) != 16
        t['sp_aligned'] = pre_sp(g, e) % 4 == 0
    except Exception:                                  # events without a register file (helper-call traces)
        pass
    if t['enc'] == 'CBZ_T1':
        w = g.meta.get(e['id'], {}).get('word')
        if w is None:
            w = _fetched_halfword(g, e)
        if w is not None:
            imm = ((w >> 9) & 1) << 5 | ((w >> 3) & 31)
            t['imm_nonzero'] = bool(imm)
            # the recorded defect is exactly "offset scaled by 4 instead of 2": the new PC is pc + 4 + 4 * imm
            try:
                pc = unlimbs(pre_value(g, e, 'R', 'PC'))
                t['cbz_offset_x4'] = unlimbs(e['d'].get('R', {}).get('PC', [0, 0])) == (pc + 4 + 4 * imm) & 0xFFFFFFFF
            except Exception:
                pass
    if t['enc'] in ('MRS_A1', 'MRS_T1'):
        # the recorded defect is exactly "Rd := CPSR & 0xF80F0000": one register changed (besides the PC) and it holds that value
        try:
            cpsr = unlimbs(pre_value(g, e, 'cpsr'))
            regs = {k: v for k, v in e['d'].get('R', {}).items() if k != 'PC'}
            t['mrs_apsr_only'] = len(regs) == 1 and unlimbs(list(regs.values())[0]) == cpsr & 0xF80F0000
        except Exception:
            pass
    if t['enc'] in ('BFI_A1', 'BFI_T1'):
        # the recorded defect changes the destination register's value only: exactly one R.* clause fails
        t['one_register_clause'] = len([c for c in v['v'] if c.startswith('R.')]) == 1 and all(c.startswith('R.') for c in v['v'])
    return t


def _fetched_halfword(g, e):
    """the halfword at the event's PC (from its memory overrides or the group base)"""
    try:
        pc = unlimbs(pre_value(g, e, 'R', 'PC'))
        base = g.header()['h']['base']['mem']
        ov = {(d, o): b for d, o, b in e['pre'].get('mem', [])}
        for d, dev in enumerate(base['devs']):
            b0 = unlimbs(dev['b'])
            if b0 <= pc < b0 + dev['n'] - 1:
                off = pc - b0
                lo = ov.get((d, off), base['base'][d][off])
                hi = ov.get((d, off + 1), base['base'][d][off + 1])
                return lo | (hi << 8)
    except Exception:
        pass
    return None


def corrupt(e, rnd, new_id, base):
    """a deliberately wrong copy of a real event: one flipped bit in a changed (or unchanged) register / flag,
    an out-of-range register value, or (User-mode events that stay in User mode) a changed privileged register"""
    c = json.loads(json.dumps(e))
    c['id'] = new_id
    d = c['d']
    pre_cpsr = c['pre'].get('cpsr') or base['cpsr']
    post_cpsr = d.get('cpsr') or pre_cpsr
    kinds = ['reg', 'flag', 'range']
    if 'attrs' in c and c['out'] == 'completed' and rnd.random() < 0.5:
        # Translate events: a wrong memory type in the returned descriptor must be rejected wherever the spec claims it
        c['attrs']['ty'] = {'NORMAL': 'SO', 'SO': 'DEV', 'DEV': 'NORMAL'}.get(c['attrs']['ty'], 'SO')
        return c, 'attr'
    if pre_cpsr[1] & 31 == 16 and post_cpsr[1] & 31 == 16 and pre_cpsr[0] >= 0:
        kinds = ['priv', 'priv', 'reg', 'flag', 'range']
    kind = rnd.choice(kinds)
    if kind == 'priv':
        which = rnd.choice(['SPsvc', 'LRirq', 'R8fiq', 'spsr', 'sys'])
        if which == 'spsr':
            cur = d.get('spsr', {}).get('svc') or c['pre'].get('spsr', {}).get('svc') or base['spsr']['svc']
            d.setdefault('spsr', {})['svc'] = [cur[0], cur[1] ^ 1]
        elif which == 'sys':
            cur = d.get('sys', {}).get('SCR') or c['pre'].get('sys', {}).get('SCR') or base['sys']['SCR']
            d.setdefault('sys', {})['SCR'] = [cur[0], cur[1] ^ 4]
        else:
            cur = d.get('R', {}).get(which) or c['pre'].get('R', {}).get(which) or base['R'][which]
            d.setdefault('R', {})[which] = [cur[0], cur[1] ^ 16]
        return c, kind
    if kind == 'reg':
        r = d.setdefault('R', {})
        name = 'R%dusr' % rnd.randrange(8)
        cur = r.get(name) or c['pre'].get('R', {}).get(name)
        if cur is None:
            return None
        r[name] = [cur[0], cur[1] ^ (1 << rnd.randrange(16))]
    elif kind == 'flag':
        cur = d.get('cpsr') or c['pre'].get('cpsr')
        if cur is None:
            return None
        d['cpsr'] = [cur[0] ^ (1 << rnd.choice([12, 13, 14, 15])), cur[1]]
    else:
        d.setdefault('R', {})['R3usr'] = [-1, 0]
    return c, kind


_BANKS = {16: 'usr', 17: 'fiq', 18: 'irq', 19: 'svc', 22: 'mon', 23: 'abt', 26: 'hyp', 27: 'und', 31: 'usr'}


def pre_value(g, e, comp, name=None):
    """value of a component of the event's pre-state (override or group base) - for tagging only"""
    base = g.header()['h']['base']
    if name is None:
        return e['pre'].get(comp, base[comp])
    return e['pre'].get(comp, {}).get(name, base[comp][name])


def pre_sp(g, e):
    mode = pre_value(g, e, 'cpsr')[1] & 31
    return unlimbs(pre_value(g, e, 'R', 'SP' + _BANKS.get(mode, 'usr')))
