"""pytest plugin: records every ArmV6.emulate_cycle() call the repository's OWN tests perform as an event
(pre-state, action Exec(word, len) when the test fixture stubs the fetch / Step otherwise, outcome, post-state delta).
Loaded only by the checks:  PYTHONPATH=/verif VERIF_SUITE_TRACE=<file> pytest -p harness.suite_plugin ...
It patches the class at run time inside the test process - nothing in /repo is modified - and never changes what the
test observes (exceptions are re-raised, the object is left exactly as emulate_cycle left it)."""
import json
import os

from . import machine as M
from .words import limbs

_groups = {}
_current = [None]
_depth = [0]


def pytest_runtest_setup(item):
    _current[0] = item.nodeid


def _record(arm, orig):
    from armulator.armv6.arm_v6 import ArmV6
    from armulator.armv6.arm_exceptions import DataAbortException
    if '_taken' not in arm.__dict__:
        M.instrument(arm)
    arm._taken.clear()
    pre = M.project(arm)
    stub = type(arm).fetch_instruction is not ArmV6.fetch_instruction
    act = {'n': 'Exec', 'w': limbs(arm.opcode), 'len': arm.opcode_len} if stub else {'n': 'Step'}
    arm.executed_opcode = None
    out, exc = 'completed', None
    try:
        orig(arm)
        if arm._taken:
            out = arm._taken[0] if len(arm._taken) == 1 else 'hosterror:multiple-exceptions'
    except NotImplementedError as ex:
        out, exc = 'notimpl', ex
    except DataAbortException as ex:                 # propagates only when a test calls the memory API directly
        out, exc = 'hosterror:DataAbortException', ex
    except BaseException as ex:                      # noqa
        out, exc = 'hosterror:' + type(ex).__name__, ex
    post = M.project(arm)
    cfg = dict(arm.configs) if isinstance(getattr(arm, 'configs', None), dict) else None
    key = json.dumps([cfg, pre['mem']['devs']], sort_keys=True, default=str)
    g = _groups.get(key)
    if g is None:
        g = _groups[key] = {'cfg': cfg, 'base': {k: pre[k] for k in ('R', 'cpsr', 'spsr', 'elr', 'sys', 'mem', 'ev')},
                            'events': [], 'meta': {}}
    eid = len(g['events']) + 1
    base = dict(g['base'], osys={}, memsz=[])
    cls = type(arm.executed_opcode).__name__ if arm.executed_opcode is not None else ''
    ev = {'id': eid, 'pre': M.diff(base, pre), 'act': act, 'out': out, 'cls': cls, 'nunp': 0, 'd': M.post_delta(pre, post)}
    if act['n'] == 'Step' and getattr(arm, 'opcode_len', None) in (16, 32) and not out.startswith('hosterror'):
        ev['ilen'] = arm.opcode_len
    g['events'].append(ev)
    w = arm.opcode if isinstance(arm.opcode, int) else 0
    g['meta'][eid] = {'test': _current[0], 'word': w, 'thumb': bool(pre['cpsr'][1] & 0x20)}
    if exc is not None:
        raise exc


def pytest_configure(config):
    from armulator.armv6.arm_v6 import ArmV6
    orig = ArmV6.emulate_cycle

    def emulate_cycle(self):
        if _depth[0]:
            return orig(self)
        _depth[0] += 1
        try:
            return _record(self, orig)
        finally:
            _depth[0] -= 1
    ArmV6.emulate_cycle = emulate_cycle


def pytest_sessionfinish(session, exitstatus):
    path = os.environ.get('VERIF_SUITE_TRACE')
    if path:
        with open(path, 'w') as f:
            json.dump(list(_groups.values()), f)
