"""Shared machinery for the instruction-family checks (C01-C04, C09): random (state, word) events on several
configurations, judged exactly by Trace_Step."""
import random

from . import campaign as C
from . import isa_gen as G
from . import sweeps as S
from .words import limbs, rand32

ARCHS = [(4, {}), (5, {}), (6, {}), (7, {})]


def family_task(task):
    """task: name, seed, n, cfg, picker (module-level function name in this module's registry), opts"""
    rnd = random.Random(task['seed'])
    g = S.mk_group(dict(task, randmem=task['seed']) if task.get('opts', {}).get('data_ptrs') else task)
    for k in range(task['n']):
        _family_event(g, rnd, task, k)
    return [g]


def mixed_task(task):
    """two instances with different architecture versions living in ONE process, used alternately: whatever the
    implementation keeps process-wide (configuration lookups, caches) must not leak from one into the other"""
    rnd = random.Random(task['seed'])
    gs = []
    for name, over in (('v6', dict(arch_version=6)), ('v7', dict(arch_version=7))):
        t = dict(task, name='%s-mixed-%s' % (task['picker'], name), cfg=over)
        gs.append(S.mk_group(dict(t, randmem=task['seed']) if task.get('opts', {}).get('data_ptrs') else t))
    for k in range(task['n']):
        _family_event(gs[k % 2], rnd, task, k)
    return gs


def _family_event(g, rnd, task, k):
    pick = PICKERS[task['picker']]
    opts = task.get('opts', {})
    if True:
        thumb, w, name = pick(rnd, g.cfg)
        itpos = rnd.choice([0, 0, 0, 1, 2]) if thumb else 0
        st, pc = S.prep(g, rnd, task, thumb, itpos, k)
        c = C.unlimbs(st['cpsr'])
        if opts.get('endian') and rnd.random() < 0.3:
            c |= 0x200
        st['cpsr'] = limbs(c)
        if opts.get('align_ctl'):
            sct = C.unlimbs(st['sys']['SCTLR']) & ~((1 << 22) | 2)
            sct |= (rnd.getrandbits(1) << 22) | ((rnd.getrandbits(1) << 1) if rnd.random() < 0.3 else 0)
            if g.cfg['arch_version'] >= 7:
                sct |= 1 << 22
            st['sys']['SCTLR'] = limbs(sct)
        if opts.get('lanes'):
            LANE = [0, 1, 0x7F, 0x80, 0xFF, 0x7FFF, 0x8000, 0xFFFF, 0x7F80, 0x807F, 0x00FF, 0xFF00]
            for r in st['R']:
                if r != 'PC' and rnd.random() < 0.6:
                    k = rnd.random()
                    st['R'][r] = ([rnd.choice(LANE), rnd.choice(LANE)] if k < 0.6 else
                                  limbs(rnd.choice([0, 1, 0x80000000, 0xFFFFFFFF, 0x7FFFFFFF, 0x10000, 0xFFFF0000, 2, 3, 0x8000, 0x7FFF])))
        if opts.get('data_ptrs'):
            for r in st['R']:
                if r != 'PC' and rnd.random() < 0.6:
                    st['R'][r] = limbs(rnd.randrange(0, 256) if rnd.random() < 0.8 else rnd.randrange(0, 64) * 4)
            if opts.get('hi') and rnd.random() < 0.25:
                for r in rnd.sample(sorted(st['R']), 6):
                    if r != 'PC':
                        st['R'][r] = limbs((0xFFFFFF00 + rnd.randrange(0, 256)) if rnd.random() < 0.7 else rnd.choice([0, 1, 2, 3, 4, 0xFFFFFFFF, 0xFFFFFFFC]))
            for d in range(len(st['mem']['base'])):
                b = st['mem']['base'][d]
                for _ in range(6):
                    b[rnd.randrange(len(b))] = rnd.getrandbits(8)
        if opts.get('hi') and len(st['mem']['base']) > 1 and rnd.random() < 0.3:
            off = rnd.randrange(0, 60) * 4 + (2 if thumb and rnd.random() < 0.5 else 0)
            st['R']['PC'] = limbs(0xFFFFFF00 + off)
            C.put_instr(st, off, w, thumb, dev=1)
        else:
            C.put_instr(st, pc, w, thumb)
        g.add(st, {'n': 'Step'}, meta={'gen': name, 'word': w, 'thumb': thumb})


def pick_dp(rnd, cfg):
    r = rnd.random()
    if r < 0.5:
        name, pat = rnd.choice(G.ARM_DP)
        return False, G.fill(pat, rnd, fixed={'c': rnd.choice(G.COND_BIAS)}), name
    if r < 0.75:
        from .checks.c01 import t16_dp_word
        return True, t16_dp_word(rnd), 't16'
    name, pat = rnd.choice(G.T32_DP)
    return True, G.fill(pat, rnd), name


def pick_ls(rnd, cfg):
    r = rnd.random()
    if r < 0.5:
        name, pat = rnd.choice(G.ARM_LS)
        w = G.fill(pat, rnd, fixed={'c': rnd.choice(G.COND_BIAS)})
        if name.startswith('ls') and rnd.random() < 0.7:
            w &= ~0xF00
        return False, w, name
    if r < 0.75:
        return True, G.t16_ls_word(rnd) & ~0 if True else 0, 't16'
    name, pat = rnd.choice(G.T32_LS)
    w = G.fill(pat, rnd)
    if name == 't32_ls_i12' and rnd.random() < 0.7:
        w &= ~0xF00
    return True, w, name


def pick_lsm(rnd, cfg):
    r = rnd.random()
    if r < 0.5:
        # one in six: the S-bit forms (STM / LDM user registers, LDM exception return)
        name, pat = G.ARM_LSM[1] if rnd.random() < 0.17 else G.ARM_LSM[0]
        w = G.fill(pat, rnd, fixed={'c': rnd.choice(G.COND_BIAS)})
        if rnd.random() < 0.5:
            w = (w & ~0xFFFF) | list_shape(rnd, 16)
        if name == 'lsm_s' and rnd.random() < 0.7:
            w &= ~(1 << 15)                                   # mostly the user-register forms (no PC in the list)
        return False, w, name
    if r < 0.75:
        base = rnd.choice([0xC000, 0xC800, 0xB400, 0xBC00])
        return True, base | (rnd.getrandbits(3) << 8 if base < 0xB000 else rnd.getrandbits(1) << 8) | list_shape(rnd, 8), 't16'
    name, pat = rnd.choice(G.T32_LSM)
    w = G.fill(pat, rnd)
    if rnd.random() < 0.5:
        w = (w & ~0x1FFF) | (list_shape(rnd, 13))
    return True, w, name


def list_shape(rnd, bits):
    r = rnd.random()
    full = (1 << bits) - 1
    if r < 0.2:
        return 1 << rnd.randrange(bits)
    if r < 0.35:
        return (1 << rnd.randrange(bits)) | (1 << rnd.randrange(bits))
    if r < 0.5:
        return (1 << rnd.randrange(1, bits + 1)) - 1
    if r < 0.6:
        return full & ~((1 << rnd.randrange(bits)) - 1)
    if r < 0.7:
        return full & rnd.choice([0x5555, 0xAAAA])
    return rnd.getrandbits(bits)


def pick_br(rnd, cfg):
    r = rnd.random()
    if r < 0.4:
        name, pat = rnd.choice(G.ARM_BR)
        w = G.fill(pat, rnd, fixed={'c': rnd.choice(G.COND_BIAS)} if 'c' in pat else None)
        return False, w, name
    if r < 0.7:
        k = rnd.random()
        if k < 0.3:
            return True, 0xD000 | (rnd.randrange(0, 14) << 8) | rnd.getrandbits(8), 'b_t1'
        if k < 0.5:
            return True, 0xE000 | rnd.getrandbits(11), 'b_t2'
        if k < 0.7:
            return True, 0xB100 | (rnd.getrandbits(1) << 11) | (rnd.getrandbits(1) << 9) | rnd.getrandbits(8), 'cbz'
        if k < 0.85:
            return True, 0x4700 | (rnd.getrandbits(1) << 7) | (rnd.choice(G.REG_BIAS) << 3), 'bx_blx'
        return True, 0x4400 | 0x87 | (rnd.choice(G.REG_BIAS) << 3) if rnd.random() < 0.5 else 0x4687 | (rnd.choice(G.REG_BIAS) << 3), 'add_mov_pc'
    if r < 0.88:
        name, pat = rnd.choice(G.T32_BR + [('t32_tb', '111010001101nnnn11110000000hmmmm')])
        return True, G.fill(pat, rnd), name
    # loads into the PC (interworking by LoadWritePC): LDR pc (immediate / register / literal), POP / LDM with pc
    k = rnd.randrange(7)
    if k == 0:
        return False, G.fill('cccc0101u0011nnn1111iiiiiiiiiiii', rnd, fixed={'c': rnd.choice(G.COND_BIAS), 'i': rnd.randrange(0, 64) * 4}), 'ldr_pc_imm'
    if k == 1:
        return False, G.fill('cccc0111u0011nnn111100000000mmmm', rnd, fixed={'c': rnd.choice(G.COND_BIAS)}), 'ldr_pc_reg'
    if k == 2:
        return False, G.fill('cccc100010w1nnnn1rrrrrrrrrrrrrrr', rnd, fixed={'c': rnd.choice(G.COND_BIAS), 'r': list_shape(rnd, 15) & 0x1FFF}), 'ldm_pc'
    if k == 3:
        return True, 0xBD00 | rnd.getrandbits(8), 'pop_pc_t1'
    if k == 4:
        return True, G.fill('111110001101nnnn1111iiiiiiiiiiii', rnd, fixed={'i': rnd.randrange(0, 64) * 4}), 'ldr_pc_t3'
    if k == 5:
        return True, G.fill('111110000101nnnn1111000000iimmmm', rnd), 'ldr_pc_reg_t2'
    return True, G.fill('1110100010w1nnnn1m0rrrrrrrrrrrrr', rnd, fixed={'m': 0}), 'ldm_pc_t2'


def pick_media(rnd, cfg):
    r = rnd.random()
    if r < 0.5:
        name, pat = rnd.choice(G.ARM_MEDIA)
        fixed = {'c': rnd.choice(G.COND_BIAS)}
        if name == 'par':
            fixed['p'] = rnd.choice([1, 2, 3, 5, 6, 7])
            fixed['o'] = rnd.choice([0, 1, 2, 3, 4, 7])
        if name == 'ext':
            u, w = rnd.choice([(0, 0), (0, 2), (0, 3), (1, 0), (1, 2), (1, 3)])
            fixed['u'], fixed['w'] = u, w
        return False, G.fill(pat, rnd, fixed=fixed, regfields='dnmstalh'), name
    if r < 0.62:
        name, pat = rnd.choice(G.T16_MEDIA)
        return True, G.fill(pat, rnd), name
    name, pat = rnd.choice(G.T32_MEDIA)
    return True, G.fill(pat, rnd, regfields='dnmalh'), name


B16 = [0, 1, 0x7FFF, 0x8000, 0xFFFF, 0x8001]
B8 = [0, 1, 0x7F, 0x80, 0xFF, 0x81]
B32 = [0, 1, 2, 0x7FFFFFFF, 0x80000000, 0xFFFFFFFF, 0x40000000, 0xC0000000, 0x3FFFFFFF, 0xBFFFFFFF, 0x8000, 0xFFFF, 0x10000]


def _par_word(thumb, prefix, op, d, n, m):
    """prefix in S Q SH U UQ UH; op in ADD16 ASX SAX SUB16 ADD8 SUB8"""
    if not thumb:
        p = {'S': 1, 'Q': 2, 'SH': 3, 'U': 5, 'UQ': 6, 'UH': 7}[prefix]
        o = {'ADD16': 0, 'ASX': 1, 'SAX': 2, 'SUB16': 3, 'ADD8': 4, 'SUB8': 7}[op]
        return 0xE6000F10 | (p << 20) | (n << 16) | (d << 12) | (o << 5) | m
    o = {'ADD16': 1, 'ASX': 2, 'SAX': 6, 'SUB16': 5, 'ADD8': 0, 'SUB8': 4}[op]
    u = 1 if prefix.startswith('U') else 0
    pp = {'S': 0, 'U': 0, 'Q': 1, 'UQ': 1, 'SH': 2, 'UH': 2}[prefix]
    return 0xFA80F000 | (o << 20) | (n << 16) | (d << 8) | (u << 6) | (pp << 4) | m


def boundary_items(rnd, quick):
    """directed operand grids: every boundary lane pair at every lane placement for the 36 parallel forms; boundary
    operand pairs for saturating arithmetic and the multiplies; saturation bounds +-1 for SSAT/USAT"""
    items = []
    for thumb in (False, True):
        for prefix in ('S', 'Q', 'SH', 'U', 'UQ', 'UH'):
            for op in ('ADD16', 'ASX', 'SAX', 'SUB16', 'ADD8', 'SUB8'):
                B = B8 if op.endswith('8') else B16
                sh = 8 if op.endswith('8') else 16
                lanes = 32 // sh
                for x in B:
                    for y in B:
                        for (ln, lm) in [(0, 0), (lanes - 1, lanes - 1), (0, lanes - 1), (lanes - 1, 0)]:
                            if quick and (ln, lm) in [(0, lanes - 1), (lanes - 1, 0)] and op not in ('ASX', 'SAX'):
                                continue
                            vn = sum(rnd.choice(B) << (sh * k) for k in range(lanes))
                            vm = sum(rnd.choice(B) << (sh * k) for k in range(lanes))
                            mask = (1 << sh) - 1
                            vn = (vn & ~(mask << (sh * ln))) | (x << (sh * ln))
                            vm = (vm & ~(mask << (sh * lm))) | (y << (sh * lm))
                            items.append((thumb, _par_word(thumb, prefix, op, 2, 0, 1), {0: vn, 1: vm}, prefix + op))
        # saturating add/sub, multiplies: boundary operand pairs
        for x in B32:
            for y in B32:
                for o in range(4):
                    w = (0xE1000050 | (o << 21) | (1 << 16) | (2 << 12) | 0) if not thumb else (0xFA80F080 | (1 << 16) | (2 << 8) | (o << 4) | 0)
                    items.append((thumb, w, {0: x, 1: y}, 'qarith'))
                if not thumb:
                    for w in (0xE0120190, 0xE0320190 | (3 << 12), 0xE0932190, 0xE0D32190, 0xE0B32190, 0xE0F32190, 0xE0432190,
                              0xE1020180, 0xE10201E0, 0xE12201A0, 0xE16201C0, 0xE1432180, 0xE7520110 | (3 << 12), 0xE7020110 | (3 << 12),
                              0xE7020150 | (3 << 12), 0xE7120110 | (15 << 12), 0xE7320110 | (15 << 12)):
                        items.append((False, w, {0: x, 1: y, 2: rnd.choice(B32), 3: rnd.choice(B32)}, 'mulgrid'))
                else:
                    for w in (0xFB00F201, 0xFB003201, 0xFB003211, 0xFB803200, 0xFBA03200, 0xFBC03200, 0xFBE03200, 0xFBE03260,
                              0xFB103201, 0xFB103231, 0xFB303201, 0xFB303211, 0xFB203201, 0xFB403201, 0xFB503201, 0xFB503211,
                              0xFB603201, 0xFB90F2F1, 0xFBB0F2F1):
                        items.append((True, w, {0: x, 1: y, 2: rnd.choice(B32), 3: rnd.choice(B32)}, 'mulgrid'))
        # dual and halfword multiply-accumulates on packed boundary halfwords (incl. all four lanes 0x8000, where the
        # product sum alone is 2^31): accumulators placed on the signed-overflow boundary of the exact sum
        H = [0x8000, 0x7FFF, 0xFFFF] if quick else [0x8000, 0x7FFF, 0xFFFF, 0x0001, 0x8001]
        packed = [(a << 16) | b for a in H for b in H]

        def s16(v):
            return v - 0x10000 if v & 0x8000 else v
        if not thumb:
            duals = [(0xE7023110, 'ad', 0), (0xE7023130, 'ad', 1), (0xE7023150, 'sd', 0), (0xE7023170, 'sd', 1),
                     (0xE702F110, 'ad', 0), (0xE702F130, 'ad', 1), (0xE702F150, 'sd', 0), (0xE702F170, 'sd', 1)]
            longs = [0xE7423110, 0xE7423130, 0xE7423150, 0xE7423170]
            halfs = [(0xE1023180 | (xy << 5), xy & 1, xy >> 1) for xy in range(4)]
            wides = [(0xE1223180 | (y << 6), y) for y in range(2)]
        else:
            duals = [(0xFB203201, 'ad', 0), (0xFB203211, 'ad', 1), (0xFB403201, 'sd', 0), (0xFB403211, 'sd', 1),
                     (0xFB20F201, 'ad', 0), (0xFB20F211, 'ad', 1), (0xFB40F201, 'sd', 0), (0xFB40F211, 'sd', 1)]
            longs = [0xFBC032C1, 0xFBC032D1, 0xFBD032C1, 0xFBD032D1]
            halfs = [(0xFB103201 | (n << 5) | (m << 4), n, m) for n in range(2) for m in range(2)]
            wides = [(0xFB303201 | (y << 4), y) for y in range(2)]

        def accs(p):
            out = {0, 0xFFFFFFFF}
            for a in ((1 << 31) - 1 - p, (1 << 31) - p, -(1 << 31) - p, -(1 << 31) - p - 1):
                if -(1 << 31) <= a < (1 << 31):
                    out.add(a & 0xFFFFFFFF)
            return sorted(out)
        for x in packed:
            for y in packed:
                for (w, kind, swap) in duals:
                    yl, yh = (y >> 16, y & 0xFFFF) if swap else (y & 0xFFFF, y >> 16)
                    p1, p2 = s16(x & 0xFFFF) * s16(yl), s16(x >> 16) * s16(yh)
                    for a in accs(p1 + p2 if kind == 'ad' else p1 - p2):
                        items.append((thumb, w, {0: x, 1: y, 3: a}, 'dualmul'))
                for w in longs:
                    items.append((thumb, w, {0: x, 1: y, 2: rnd.choice(B32), 3: rnd.choice(B32)}, 'dualmul-long'))
                for (w, nh, mh) in halfs:
                    p = s16((x >> 16) if nh else x & 0xFFFF) * s16((y >> 16) if mh else y & 0xFFFF)
                    for a in accs(p):
                        items.append((thumb, w, {0: x, 1: y, 3: a}, 'halfmul'))
        for x in B32:
            for y in packed:
                for (w, mh) in wides:
                    sx = x - (1 << 32) if x >> 31 else x
                    p = (sx * s16((y >> 16) if mh else y & 0xFFFF)) >> 16
                    for a in accs(p):
                        items.append((thumb, w, {0: x, 1: y, 3: a}, 'widemul'))
        # long multiply-accumulate whose 64-bit sum wraps to 0 / -1 / 1 (Z, N of the truncated result)
        for x in B32:
            for y in B32:
                for signed in (False, True):
                    sx = x - (1 << 32) if signed and x >> 31 else x
                    sy = y - (1 << 32) if signed and y >> 31 else y
                    for dlt in (0, 1, -1):
                        acc = (-(sx * sy) + dlt) & 0xFFFFFFFFFFFFFFFF
                        if not thumb:
                            w = (0xE0F32190 if signed else 0xE0B32190)                       # SMLALS / UMLALS r2, r3, r0, r1
                        else:
                            w = (0xFBC03201 if signed else 0xFBE03201)                       # SMLAL / UMLAL r3(lo), r2(hi), r0, r1
                        lo, hi = acc & 0xFFFFFFFF, acc >> 32
                        regs = {0: x, 1: y, 2: lo, 3: hi} if not thumb else {0: x, 1: y, 3: lo, 2: hi}
                        items.append((thumb, w, regs, 'mlal-wrap'))
        # SSAT / USAT around the saturation bounds
        for n in ([1, 8, 16, 31, 32] if quick else range(1, 33)):
            for dlt in (-2, -1, 0, 1):
                for sign in (1, -1):
                    v = (sign * (1 << (n - 1)) + dlt) & 0xFFFFFFFF
                    if not thumb:
                        items.append((False, 0xE6A02010 | ((n - 1) << 16), {0: v}, 'ssat'))
                        if n < 32:
                            items.append((False, 0xE6E02010 | (n << 16), {0: v}, 'usat'))
                    else:
                        items.append((True, 0xF3000200 | (n - 1), {0: v}, 'ssat'))
                        if n < 32:
                            items.append((True, 0xF3800200 | n, {0: v}, 'usat'))
    return items


def grid_task(task):
    """task: name, seed, cfg, items = [(thumb, word, {regnum: value}, label)]"""
    rnd = random.Random(task['seed'])
    g = S.mk_group(task)
    for k, (thumb, w, regs, label) in enumerate(task['items']):
        st, pc = S.prep(g, rnd, dict(task, modes='usr'), thumb, 0, k)
        for r, v in regs.items():
            st['R']['R%dusr' % r] = limbs(v)
        if k % 4 and isinstance(st.get('cpsr'), list):
            st['cpsr'] = [st['cpsr'][0] & ~0x0800, st['cpsr'][1]]          # sticky Q clear 3 times in 4: a wrongly set Q is visible
        C.put_instr(st, pc, w, thumb)
        g.add(st, {'n': 'Step'}, meta={'gen': label, 'word': w, 'thumb': thumb})
    return [g]


PICKERS = {'media': pick_media, 'dp': pick_dp, 'ls': pick_ls, 'lsm': pick_lsm, 'br': pick_br}


def run_family(ctx, picker, n_per_group, opts, clause_filter, configs=None, tags_of=None, extra_groups=()):
    rnd = random.Random(ctx.seed)
    tasks = []
    configs = configs or [('v%d' % a, dict(arch_version=a)) for a in (4, 5, 6, 7)]
    per = max(1, 16 // len(configs))
    for ci, (name, over) in enumerate(configs):
        for j in range(per):
            tasks.append(dict(name='%s-%s-%d' % (picker, name, j), seed=ctx.seed * 1000 + ci * 50 + j, n=n_per_group // per,
                              cfg=over, picker=picker, opts=opts, modes='all'))
    groups = C.parallel(family_task, tasks) + list(extra_groups)
    groups += C.parallel(mixed_task, [dict(name='%s-mixed' % picker, seed=ctx.seed * 1000 + 977, n=max(200, n_per_group // 4), picker=picker,
                                           opts=opts, modes='all')])
    res = C.judge_groups(ctx, groups, clause_filter, rnd=rnd,
                         tags_of=tags_of or (lambda g, e, v: {'arch': g.cfg['arch_version'], 'enc': v['path'].split(':')[-1],
                                                               'gen': g.meta.get(e['id'], {}).get('gen')}))
    exact = sum(1 for g, e, v in res if v['path'].startswith('exact'))
    ctx.extra['exact_events'] = exact
    ctx.extra['envelope_only_events'] = len(res) - exact
    for g, e, v in res[:2] + res[-1:]:
        ctx.sample({'group': g.name, 'meta': g.meta.get(e['id']), 'event': {k: e[k] for k in ('act', 'out', 'cls', 'd')},
                    'verdict': {k: v[k] for k in ('v', 'path')}})
    ctx.distinct = {(g.name, e['id']) for g, e, v in res if v['path'].startswith('exact')}
    return res


def exact_filter(c, v, e):
    # a host error where the specification pins the step down exactly is a wrong result too
    return v['path'].startswith('exact') and c not in ('range', 'confine', 'nop-on-condfail')
