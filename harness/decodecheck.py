"""Shared machinery of the decode-fidelity checks C06 (ARM) and C07 (Thumb).

The implementation's decoder tree is partitioned exhaustively into cubes on which it provably takes one path
(cubes.py).  Leaves are grouped by (class returned, path signature); every group is then exercised on the real
emulator with members of its cubes - the representative, the all-ones member, one member per free bit flipped (an
affine basis of the cube: any operand field mis-sliced by one bit shows on one of them) and random members - under
random register files, flags and modes, and every step is judged by Trace_Step (exact semantics where the spec
specifies the encoding; UNDEFINED / UNPREDICTABLE / not-specified envelopes otherwise).  A word decoded to the wrong
instruction, or with a wrong operand, produces a post-state that differs from the spec's for some member."""
import random

from . import campaign as C
from . import cubes
from . import sweeps as S
from .tlc import MachineryError
from .words import limbs

CONFIGS = [('v7', dict(arch_version=7)), ('v6', dict(arch_version=6)), ('v5', dict(arch_version=5)),
           ('v7r', dict(arch_version=7, is_armv7r_profile=True)), ('v7vmsa', dict(arch_version=7, memory_system_architecture='VMSA')),
           ('v4', dict(arch_version=4))]


def free_bits(fixed, width=32):
    return [b for b in range(width) if not (fixed >> b) & 1]


def members(leaf, rnd, nrand, basis):
    """words of one cube: representative, all-ones, per-free-bit flips of a random member (affine basis), random"""
    fixed, value, cls, sig = leaf
    fb = free_bits(fixed)
    full = sum(1 << b for b in fb)
    if len(fb) <= 5:
        # a small cube (an alias / special case carved out of a bigger encoding): every member
        allm = []
        for a in range(1 << len(fb)):
            w = value
            for k, b in enumerate(fb):
                if (a >> k) & 1:
                    w |= 1 << b
            allm.append(w)
        return allm
    out = [value, value | full]

    def rand():
        w = value
        for b in fb:
            if rnd.getrandbits(1):
                w |= 1 << b
        return w
    for _ in range(nrand):
        out.append(rand())
    if basis:
        w0 = rand()
        out.append(w0)
        for b in fb:
            out.append(w0 ^ (1 << b))
    return list(dict.fromkeys(out))


def select_words(leaves, rnd, leaves_per_group, nrand, basis_leaves):
    """-> (list of (word, cls, groupkey)), number of (class, signature) groups"""
    groups = {}
    for l in leaves:
        groups.setdefault((l[2], l[3]), []).append(l)
    words = []
    for key in sorted(groups, key=lambda k: (k[0], k[1])):
        ls = groups[key]
        pick = ls if len(ls) <= leaves_per_group else rnd.sample(ls, leaves_per_group)
        # the widest cubes carry the operand fields: they get the affine basis
        wide = sorted(pick, key=lambda l: bin(l[0]).count('1'))[:basis_leaves]
        for l in pick:
            for w in members(l, rnd, nrand, l in wide):
                words.append((w, key[0], '%s/%x' % (key[0], key[1] & 0xFFFF)))
    return words, len(groups)


def words_task(task):
    """task: name, seed, cfg, words=[(thumb, word, cubecls)], modes"""
    rnd = random.Random(task['seed'])
    g = S.mk_group(dict(task, randmem=task['seed']))
    for k, (thumb, w, ccls) in enumerate(task['words']):
        # "decode depends on nothing but the word (and the instruction set it is fetched in)": the same 32-bit value is first
        # executed in the OTHER instruction set on the same object - whatever the implementation remembers about a word
        # (decode caches keyed by the value alone) must not leak from one instruction set into the other
        other_ok = (w >> 27) >= 29 if not thumb else (w >> 16) != 0
        if other_ok and (not thumb or k % 3 == 0):
            st, pc = S.prep(g, rnd, task, not thumb, 0, k)
            if g.cfg['arch_version'] >= 7:
                st['sys']['SCTLR'] = limbs(C.unlimbs(st['sys']['SCTLR']) | (1 << 22))
            C.put_instr(st, pc, w, not thumb)
            g.add(st, {'n': 'Step'}, meta={'word': w, 'thumb': not thumb, 'cube': None, 'itpos': 0, 'prime': True})
        itpos = rnd.choice([0, 0, 1, 2]) if thumb else 0
        st, pc = S.prep(g, rnd, task, thumb, itpos, k)
        if rnd.random() < 0.5:
            # data pointers inside the RAM so that loads/stores complete and show their operands
            for r in st['R']:
                if r != 'PC' and rnd.random() < 0.7:
                    st['R'][r] = limbs(rnd.randrange(0, 60) * 4)
        if g.cfg['arch_version'] >= 7:
            st['sys']['SCTLR'] = limbs(C.unlimbs(st['sys']['SCTLR']) | (1 << 22))
        C.put_instr(st, pc, w, thumb)
        g.add(st, {'n': 'Step'}, meta={'word': w, 'thumb': thumb, 'cube': ccls, 'itpos': itpos})
    return [g]


def clause_filter(c, v, e):
    """decode fidelity: everything the spec pins down - the full post-state on exactly specified encodings, the
    outcome class (undef / notimpl / completed) on the envelopes, and no host error anywhere"""
    if c in ('hosterror', 'ilen'):
        return True
    if v['path'].startswith('exact'):
        return c not in ('range', 'confine', 'nop-on-condfail')
    if v['path'].startswith('envelope:nop-or-unimplemented') and c == 'nop-on-condfail':
        return True                       # hint / barrier space: NOP, UNDEFINED or not-implemented - nothing else
    return c == 'outcome'


def tags_of(g, e, v):
    m = g.meta.get(e['id'], {})
    w = m.get('word', 0)
    t = {'arch': g.cfg['arch_version'], 'enc': v['path'].split(':')[-1], 'cube': m.get('cube'),
         'priv': (C.pre_value(g, e, 'cpsr')[1] & 31) != 16, 'sp_aligned': C.pre_sp(g, e) % 4 == 0}
    if t['enc'] == 'CBZ_T1':
        t['imm_nonzero'] = bool(((w >> 9) & 1) << 5 | ((w >> 3) & 31))
    return t


def run_words(ctx, rnd, words, thumb, per_task=None):
    """words = [(word, cubecls, groupkey)] -> judged results"""
    rnd.shuffle(words)
    ntasks = 16 if len(words) > 64 else 1
    tasks = []
    for i in range(ntasks):
        # half of the volume on ARMv7 (every encoding exists there); the other configurations check the version gates
        name, over = CONFIGS[0] if i % 2 == 0 else CONFIGS[(i // 2) % len(CONFIGS)]
        chunk = words[i::ntasks]
        tasks.append(dict(name='%s-%s-%d' % ('t32' if thumb else 'arm', name, i), seed=ctx.seed * 977 + i, cfg=over,
                          modes='all', words=[(thumb, w, c) for w, c, k in chunk]))
    groups = C.parallel(words_task, tasks)
    res = C.judge_groups(ctx, groups, clause_filter, rnd=rnd, tags_of=tags_of,
                         site_of=lambda e, v: (e.get('cls') or v['path']))
    return groups, res


def check_cube_class(res, ctx=None):
    """the class the emulator executed is the class a pure decode of the same word selects (the partition's class for the
    word's cube; the partition itself is cross-checked against the untracked decoder in partition()).  A difference means
    that decode depended on something other than the word - a violation of the property, reported as such."""
    bad = []
    for g, e, v in res:
        m = g.meta.get(e['id'], {})
        exp = m.get('cube')
        if not exp or exp.startswith('raise:') or exp == 'None' or not e.get('cls'):
            continue
        if e['cls'] != exp:
            bad.append((hex(m['word']), exp, e['cls']))
            if ctx is not None:
                ctx.judge(exp, ['decode-class'], dict(tags_of(g, e, v), executed=e['cls']),
                          {'group': g.name, 'cfg': g.cfg, 'header': g.header(), 'event': e, 'all_clauses': v['v'], 'expected_class': exp},
                          what='word %s decodes to %s on a fresh decoder but was executed as %s' % (hex(m['word']), exp, e['cls']))
    if bad and ctx is None:
        raise MachineryError('executed class differs from the cube class: %s' % bad[:5])


def partition(which, rnd, nsample):
    leaves = cubes.partition(which)
    if which == 'arm':
        from armulator.armv6.opcodes.decoders import arm_instruction_set as d
        width_words = lambda: rnd.getrandbits(32)                                          # noqa
    else:
        from armulator.armv6.opcodes.decoders import thumb_instruction_set_encoding_32_bit as d
        width_words = lambda: (rnd.choice([0b11101, 0b11110, 0b11111]) << 27) | rnd.getrandbits(27)   # noqa
    bad = cubes.verify_disjoint_sample(leaves, rnd, d.decode_instruction, 32, n=nsample, gen=width_words)
    if bad:
        raise MachineryError('cube partition of %s is unsound: %d random words decode (untracked) to another class '
                             'than their cube' % (which, bad))
    return leaves


def summarize(ctx, res, prefix):
    exact = sum(1 for g, e, v in res if v['path'].startswith('exact'))
    ctx.extra[prefix + '_exact_events'] = exact
    ctx.extra[prefix + '_envelope_events'] = len(res) - exact
    outs = {}
    for g, e, v in res:
        k = e['out'].split(':')[0]
        outs[k] = outs.get(k, 0) + 1
    ctx.extra[prefix + '_outcomes'] = outs
