"""--replay <file>: re-run a recorded failing case against /repo's current working tree and re-judge it."""
import copy
import json

from . import machine as M
from . import tlc
from .core import out


def overlay(base, o):
    st = copy.deepcopy(base)
    for k in ('R', 'spsr', 'sys', 'ev'):
        if k in o:
            st[k].update(o[k])
    for k in ('cpsr', 'elr'):
        if k in o:
            st[k] = o[k]
    for d, off, b in o.get('mem', []):
        st['mem']['base'][d][off] = b
    return st


def replay_step(ctx, path, trace_module='Trace_Step'):
    case = json.load(open(path))
    c = case['case']
    cfg = c['cfg']
    cfg_path, cfg = M.make_config(**cfg)
    arm = M.new_arm(cfg_path, fetch=True)
    base = c['header']['h']['base']
    base = dict(base, osys={}, memsz=[])
    cur = M.project(arm)
    for k, v in cur['sys'].items():          # replay files written before a system register was added to the projection
        base['sys'].setdefault(k, v)
    pre = overlay(base, c['event']['pre'])
    ev, post = M.step_event(arm, 1, M.project_like(arm, base), pre, c['event']['act'])
    hdr = {'h': {'cfg': M.spec_cfg(cfg), 'base': {k: M.project_like(arm, base)[k] for k in ('R', 'cpsr', 'spsr', 'elr', 'sys', 'mem', 'ev')}}}
    v = tlc.validate(trace_module, [ev], header=hdr)[0]
    out(json.dumps({'recorded_clauses': case['clauses'], 'now': v, 'outcome': ev['out'], 'cls': ev['cls'],
                    'delta': ev['d']}, indent=1))
    still = [x for x in v['v'] if x in case['clauses']]
    if still:
        out('VIOLATION property=%s replay=%s' % (case['property'], path))
        return 1
    return 0
