"""32-bit words <-> JSON limb pairs, corner sets, biased random words."""
K32 = [0, 1, 2, 0x7F, 0x80, 0xFF, 0x7FFF, 0x8000, 0xFFFF, 0x00010000, 0x7FFFFFFF, 0x80000000, 0x80000001,
       0xAAAAAAAA, 0xFFFFFFFE, 0xFFFFFFFF]
K16 = [0, 1, 0x7F, 0x80, 0xFF, 0x100, 0x7FFF, 0x8000, 0x8001, 0xFFFE, 0xFFFF]


def limbs(x):
    """A Python value that should be a 32-bit word -> [hi, lo]; anything else -> a marker that fails IsWord."""
    if isinstance(x, bool):
        x = int(x)
    if not isinstance(x, int):
        return [-3, 0]
    if x < 0:
        return [-1, 0]
    if x >= 1 << 32:
        return [-2, 0]
    return [x >> 16, x & 0xFFFF]


def unlimbs(p):
    return (p[0] << 16) | p[1]


def rand32(rnd):
    """half corner-biased (K32 and +-1/+-2 neighbours, single bits), half uniform"""
    r = rnd.random()
    if r < 0.25:
        return (rnd.choice(K32) + rnd.choice((-2, -1, 0, 0, 1, 2))) & 0xFFFFFFFF
    if r < 0.4:
        return (1 << rnd.randrange(32)) ^ (0xFFFFFFFF if rnd.random() < 0.3 else 0)
    if r < 0.5:
        return rnd.getrandbits(rnd.randrange(1, 33))
    return rnd.getrandbits(32)
