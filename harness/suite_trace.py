"""Trace validation of the repository's own test suite: run it under harness/suite_plugin.py (which records every
emulate_cycle() the tests perform), and hand the recorded events to TLC.  The tests' assertions look at a few
registers; here every step is judged on the complete state."""
import json
import os
import subprocess
import tempfile

from . import campaign as C
from . import machine as M
from . import tlc
from .core import REPO
from .tlc import MachineryError


def record():
    out = os.path.join(tempfile.mkdtemp(prefix='suite-', dir=tlc.scratch()), 'trace.json')
    env = dict(os.environ, PYTHONPATH=tlc.VERIF + os.pathsep + REPO, VERIF_SUITE_TRACE=out)
    p = subprocess.run(['/venv/bin/python', '-m', 'pytest', '-q', '-p', 'no:cacheprovider', '-p', 'harness.suite_plugin',
                        '-x', '--timeout=900', 'tests'], cwd=REPO, env=env, stdout=subprocess.PIPE, stderr=subprocess.STDOUT,
                       text=True, timeout=1800)
    if not os.path.exists(out):
        raise MachineryError('recording the repository test suite failed:\n' + p.stdout[-3000:])
    return json.load(open(out)), p.returncode, p.stdout.strip().splitlines()[-1] if p.stdout.strip() else ''


def groups(thumb):
    """-> ([GroupData] restricted to events executed in Thumb (True) / ARM (False) state, pytest summary line)"""
    raw, rc, summary = record()
    out = []
    for i, g in enumerate(raw):
        cfg = g['cfg'] or M.BASE_CFG
        hdr = M.header(cfg, g['base'])
        evs, meta = [], {}
        for e in g['events']:
            m = g['meta'][str(e['id'])]
            if m['thumb'] != thumb:
                continue
            e = dict(e, id=len(evs) + 1)
            evs.append(e)
            meta[e['id']] = m
        if evs:
            out.append(C.GroupData('suite-%s-%d' % ('thumb' if thumb else 'arm', i), cfg, hdr, evs, meta))
    return out, summary
