#!/bin/sh
# Offline setup: nothing to build (TLA+ specs are interpreted by TLC, the harness is stdlib Python).
# Parse every specification module with SANY so that a broken spec is found here and not inside a check.
cd "$(dirname "$0")" || exit 2
rc=0
for f in spec/*.tla spec/mc/*.tla spec/trace/*.tla; do
  [ -f "$f" ] || continue
  out=$(cd "$(dirname "$f")" && java -DTLA-Library=/verif/spec:/verif/spec/mc:/verif/spec/trace -cp /opt/veriftools/tla/tla2tools.jar:/opt/veriftools/tla/CommunityModules-deps.jar tla2sany.SANY "$(basename "$f")" 2>&1)
  if echo "$out" | grep -q "Semantic errors\|Fatal errors\|Parse Error\|Could not\|\*\*\* Errors"; then
    echo "SANY FAILED: $f"; echo "$out" | tail -20; rc=2
  fi
done
/venv/bin/python -c "import sys; sys.path.insert(0,'/repo'); import armulator.armv6.arm_v6" || rc=2
[ $rc -eq 0 ] && echo "setup ok"
exit $rc
