#!/venv/bin/python
"""Self-assessment (not a registered check): which lines of the implementation does no check execute?
  tools/impl_coverage.py run  [C01 C02 ...]   run the quick checks under line tracing (VERIF_COVERAGE), dumps to /tmp/verif_cov
  tools/impl_coverage.py report               merge the dumps and list never-executed lines per file
"""
import ast
import glob
import json
import os
import subprocess
import sys

VERIF = os.path.dirname(os.path.dirname(os.path.abspath(__file__)))
REPO = os.environ.get('ARMULATOR_REPO', '/repo')
COV = '/tmp/verif_cov'


def executable_lines(path):
    src = open(path).read()
    tree = ast.parse(src)
    lines = set()
    for node in ast.walk(tree):
        if isinstance(node, ast.stmt) and not isinstance(node, (ast.FunctionDef, ast.ClassDef, ast.Import, ast.ImportFrom)):
            if isinstance(node, ast.Expr) and isinstance(node.value, ast.Constant):
                continue
            lines.add(node.lineno)
    return lines, src.split('\n')


def main():
    if sys.argv[1] == 'run':
        props = sys.argv[2:] or ['C%02d' % i for i in range(1, 21)]
        os.makedirs(COV, exist_ok=True)
        for p in props:
            env = dict(os.environ, VERIF_COVERAGE=COV, VERIF_OUT_DIR='/tmp/verif_cov_out')
            r = subprocess.run([os.path.join(VERIF, 'check'), p, '--tier', 'quick'], env=env, stdout=subprocess.PIPE,
                               stderr=subprocess.STDOUT, text=True)
            print(p, 'exit', r.returncode, r.stdout.strip().split('\n')[-1][:160], flush=True)
        return
    seen = set()
    for f in glob.glob(os.path.join(COV, 'cov-*.json')):
        for fn, ln in json.load(open(f)):
            seen.add((fn, ln))
    base = os.path.join(REPO, 'armulator')
    tot = miss = 0
    rows = []
    for root, _, fs in os.walk(base):
        for f in sorted(fs):
            if not f.endswith('.py'):
                continue
            path = os.path.join(root, f)
            rel = os.path.relpath(path, base)
            ex, src = executable_lines(path)
            m = sorted(l for l in ex if (rel, l) not in seen
                       and 'NotImplementedError' not in src[l - 1] and "print('unpredictable')" not in src[l - 1]
                       and not src[l - 1].strip().startswith(('pass', '# ')))
            tot += len(ex)
            miss += len(m)
            if m:
                rows.append((rel, len(ex), m))
    print('executable lines %d, never executed %d' % (tot, miss))
    for rel, n, m in sorted(rows, key=lambda r: -len(r[2])):
        print('%-70s %4d/%4d  %s' % (rel, len(m), n, m[:40]))


if __name__ == '__main__':
    main()
