#!/usr/bin/env python3
"""Regenerates /verif/MANIFEST.json from the table below (single source of truth for what is claimed)."""
import json
import os

V = os.path.dirname(os.path.dirname(os.path.abspath(__file__)))
props = [json.loads(l) for l in open(os.path.join(V, 'properties.jsonl'))]

CLAIMED = {
    'C06': dict(
        text='Decode.tla is a hierarchical transcription of the ARM encoding tables returning (family, encoding, operands, '
             'unpredictable); MC_Decode (TLC) checks it is total and that every executable result can be executed on a '
             'skeleton containing every value of the class-selecting fields. Conformance: the implementation\'s ARM decoder '
             'tree is partitioned exhaustively into ~2.2 million cubes on which it provably takes one path (execution on a '
             'tracked integer; the cubes tile 2^32 exactly; cross-checked against the untracked decoder on random words); '
             'each of the ~490 (class, path) groups is executed by emulate_cycle() on members of its cubes - '
             'representative, all-ones, one flip per free bit of the widest cubes (affine basis), random - under random '
             'registers, flags and modes on 6 configurations, and TLC judges every step: full post-state where the spec '
             'specifies the encoding, outcome class (undef / not-implemented / completed) elsewhere, no host error. In addition '
             'the repository\'s own test suite is run under a recording pytest plugin and every emulate_cycle() its tests perform '
             'in ARM state (~300 events) is judged by TLC on the complete state.',
        note='exhaustive for the implementation\'s class selection; agreement between the spec\'s decode and each cube is '
             'decided on sampled members (quick ~25k words, thorough ~10^6), not on all 2^32 words; families Decode.tla marks '
             'Unspec (CP14/CP15 and VFP/Advanced SIMD coprocessor space, SWP, memory hints, barriers, banked MRS/MSR) are judged by '
             'outcome class only; '
             'operand extraction is observed through behaviour (a wrong operand changes the post-state for some member).',
        technique='TLC-checked TLA+ decode specification + exhaustive cube partition of the decoder + TLC trace validation',
        ref='DESIGN.md §4 C06'),
    'C07': dict(
        text='All 2^16 halfwords are executed as the first halfword of a Thumb instruction (quick: one IT position per word '
             'rotating outside/inside/last; thorough: all three) on ARMv6, v7 and v7-R configurations; TLC judges each step '
             'against Decode.tla + the instruction semantics: full post-state including the PC advance by 2 or 4, and the '
             'clause `ilen` compares the implementation\'s opcode_len with the specification\'s top-five-bits rule. The 32-bit '
             'decoder tree is partitioned exhaustively into ~25k cubes tiling 3*2^27 words; each of the ~430 (class, path) '
             'groups is executed on cube members (representative, all-ones, per-free-bit flips, random) inside and outside IT '
             'blocks and judged by TLC. MC_Decode (TLC): totality / executability of the spec decode and Props!SpecStepOK (thorough: on '
             'every one of the 2^16 halfwords x IT position x {User, Supervisor}); MC_Cond: IT machine. The '
             'repository\'s own test suite is run under a recording pytest plugin and every emulate_cycle() its tests perform in '
             'Thumb state (~600 events) is judged by TLC on the complete state.',
        note='16-bit space exhaustive x IT position; 32-bit: exhaustive class partition of the implementation, sampled '
             'members per cube for agreement with the spec; families marked Unspec are judged by outcome class only; carry-in '
             'dependence is covered through random C with modified immediates / shifts.',
        technique='TLC-checked TLA+ decode specification + exhaustive 16-bit enumeration / cube partition + TLC trace validation',
        ref='DESIGN.md §4 C07'),
    'C09': dict(
        text='Media.tla specifies MUL/MLA/MLS, the long, halfword, dual and most-significant-word multiplies, SDIV/UDIV, '
             'QADD/QSUB/QDADD/QDSUB, SSAT/USAT(16), the 36 parallel add/subtract forms with GE, SEL, USAD8/USADA8, the extend and '
             'extend-and-add forms, BFC/BFI/SBFX/UBFX, PKH, REV/REV16/REVSH/RBIT/CLZ on the limb library that MC_W32 (TLC, '
             'exhaustive at limb width 4: products, signed products, division, 64-bit add/sub/compare) links to the reference. '
             'Random ARM, 16-bit and 32-bit Thumb words of all these encodings with operands biased to lane boundaries '
             '(0x7F/0x80/0xFF, 0x7FFF/0x8000), 0, 0x80000000, 0xFFFFFFFF, prior Q/GE random, arch 5/6/7/7-R, plus a directed grid '
             '(every boundary lane pair at every lane placement for the 36 parallel forms, boundary pairs for QADD../multiplies, '
             'saturation bounds +-1) are executed by '
             'emulate_cycle() and the full post-state (result registers, N/Z, sticky Q, GE, everything else unchanged) is '
             'judged by TLC.',
        note='operands are sampled; the 8/16-bit lane formulas are plain integer arithmetic in the spec (no second '
             'formulation yet); UNPREDICTABLE register choices are envelope-only; on ARMv4 C/V after MULS/long multiplies are '
             'UNKNOWN (don\'t-care).',
        technique='TLA+ machine specification on TLC-checked limb arithmetic + TLC trace validation',
        ref='DESIGN.md §4 C09'),

    'C15': dict(
        text='MC_VMSA: TLC checks the short-descriptor walk, domain and permission checks of VMSA.tla against the property per '
             'descriptor type (fault, page table -> fault / large / small page, section, supersection) x AP/APX x domain x DACR '
             'field x SCTLR.{M,AFE} x TTBCR.{N,PD0,PD1} x FCSE PID x VA placement x R/W x privilege: physical address by block '
             'size, fault kind in priority order with level and domain in DFSR, DFAR, flat map with the MMU off (4e5 states '
             'quick). Conformance: random first/second-level tables written into the RAM of a VMSA-configured instance '
             '(both SCTLR.EE settings; TTBR0 table at a random 2^(14-N)-aligned slot), TTBCR.N 0..7, PD0/PD1, DACR, AFE, TRE, FCSE; translate_address() and LDR/STR are '
             'executed and physical address, DFSR, DFAR and abort bookkeeping are judged by TLC.',
        note='the long-descriptor (LPAE) stage-1 walk is specified (WalkLD: TTBR0/TTBR1 selection by T0SZ/T1SZ, EPD, three '
             'levels, hierarchical APTable, AF, MAIR memory type, 40-bit output address) and exercised with random 64-bit tables '
             '(successful translations are compared exactly; every long-descriptor-format FAULT reaches the emulator\'s documented '
             'mock hook tlb_lookup_came_from_cache_maintenance, so only the decision fault / no fault is compared, not DFSR); '
             'MC_LPAE model-checks the long-descriptor walk (walk shapes x T0SZ x EPD0 x APTable x AP x AF x indices: fault decision, '
             'hierarchical permission, output address by block size; 3.5e5 states); stage 2 (Virtualization Extensions) is specified '
             '(WalkS2 with VTCR.SL0/T0SZ and VTTBR, S2AttrDecode, HAP permissions, CombineS1S2Desc, stage-2 translation of the stage-1 '
             'walk\'s own descriptor addresses with HCR.PTW) and exercised with random stage-2 tables under HCR.VM = 1 (stage 1 off with '
             'HCR.DC both ways, or short-descriptor): successful two-stage translations are compared exactly (address, combined attributes), '
             'stage-2 faults only as fault / no fault (they reach the emulator\'s unimplemented Hyp-syndrome hooks); the Hyp-mode (PL2) '
             'stage-1 regime (HTTBR / HTCR / HMAIR / HSCTLR) is specified and exercised the same way; with SCTLR.TRE = 0 the emulator reaches its documented mock hook (outcome notimpl); memory '
             'attributes other than the memory type used for alignment faults are not compared.',
        technique='TLC model checking of the VMSA spec + TLC trace validation of translate_address() and loads/stores',
        ref='DESIGN.md §4 C15'),

    'C20': dict(
        text='MC_Multi: TLC explores every interleaving of the creation and steps of two instances over 4 configurations '
             '(PMSA v6, PMSA v7, VMSA v7, PMSA v6 without security extensions) x 5 configuration-sensitive programs (one running '
             'with SCTLR.M = 1: MPU vs MMU) and checks '
             'that each instance is in exactly the state of its solo run. Every complete schedule TLC prints (quick: every 4th) '
             'is replayed on real ArmV6 objects in one Python process without re-loading configurations, and every step is '
             'judged by TLC against the specification under that instance\'s own configuration. Determinism: deep-copied '
             'snapshots and instances with differing prior histories must produce identical step deltas (pair events judged '
             'by TLC). The four configurations also differ in reset behaviour (VBAR reset value, IMPLEMENTATION DEFINED reset vector): '
             'take_reset() of an instance after the other instance was created / stepped / reset must give the same delta as alone.',
        note='two instances, 2-3 steps each, five small programs; configuration influence through the direct Registers API '
             '(take_*_exception called without emulate_cycle) is outside the stepping interface of the property.',
        technique='TLC model checking of the multi-instance spec + replay of every TLC schedule on the implementation judged by TLC',
        ref='DESIGN.md §4 C20'),

    'C08': dict(
        text='MC_IT: TLC runs the whole specified machine (real fetch from memory, decode, condition, execute, IT advance, '
             'IRQ entry, exception return) on IT fc,mask + five register-incrementing instructions for every legal (firstcond, '
             'mask) x NZCV x 7 instruction menus (16-bit ADDS encodings, 32-bit ADD.W, a flag-setting CMP, SVC slots whose handler returns by '
             'MOVS PC,LR, an alignment-faulting LDR whose handler repairs the pointer and re-executes it) x IRQ position, '
             'deadlock-checked, and requires the final registers the IT instruction\'s declarative description predicts, the '
             'block condition at every step, IT = 0 in every handler and after the block, SPSR_svc.IT = the state advanced past the '
             'SVC, SPSR_abt.IT = the state of the aborting instruction itself, SVC / abort taken exactly when the slot\'s condition holds. Every scenario TLC finished (quick: every '
             '6th) is assembled into RAM and single-stepped on the real code (IRQ via take_physical_irq_exception, return by SUBS '
             'PC,LR,#4); TLC judges every step on the full state; plus random IT-block programs.',
        note='menus are fixed instruction shapes (quick tier: 5 of the 7 menus, 4 flag values); UDF inside a block is not a menu item '
             '(UNDEFINED-or-NOP under a failed condition is not exact).',
        technique='TLC model checking of the machine spec on IT programs + replay of TLC scenarios on the implementation judged by TLC',
        ref='DESIGN.md §4 C08'),
    'C12': dict(
        text='MC_PSR: TLC checks CPSRWriteByInstr/SPSRWriteByInstr against the property (unprivileged code cannot alter A/I/F/M; '
             'T/J/IT only on exception return; no reserved/illegal mode installed; NMFI; SCR.AW/FW; byte-mask discipline) over '
             'mask x return flag x mode x all 32 mode values x secure/non-secure x NMFI x AW/FW x RFR x extensions (1.1e6 states '
             'thorough). MC_Return: entry + standard return (SUBS PC,LR / RFE / LDM^, ARM and Thumb handlers) is the identity on '
             'the interrupted program. Conformance: the real cpsr/spsr_write_by_instr on the matrix, MSR/MRS/CPS/SETEND/hints/'
             'SUBS PC,LR/RFE/SRS/LDM^/STM^/SVC/SMC words in every mode and three extension configurations, and entry+return '
             'programs, all judged by TLC on the full state. Coprocessor gating: CDP/MCR/MRC/MCRR/MRRC/LDC/STC (A1/A2/T1/T2) x '
             'coprocessor number x every CPACR.cp<n> value x NSACR.cp<n> x security state x mode: TLC requires exactly the '
             'Undefined Instruction entry when access control denies and the not-implemented coprocessor hook otherwise (MC_Coproc '
             'checks the same on the spec against the property\'s wording). '
             'MC_Sys: TLC explores every interleaving of Step / IRQ / FIQ (up to 2 quick, 3 thorough interrupts, FIQ preempting '
             'the IRQ handler) on a small ARM and Thumb program with an SVC and checks interrupt transparency (everything User '
             'mode sees at the end equals the program\'s meaning), Props!SpecStepOK at every step and deadlock freedom; every '
             'complete schedule (quick: every 3rd of ~800) is replayed on the real code, each action judged by TLC.',
        note='coprocessor gating is specified for generic coprocessors (CP0-9, 12, 13) incl. the Virtualization Extensions (CPACR not '
             'applied in Hyp mode; HCPTR.TCP<n> traps the access to Hyp mode, UNDEFINED from Hyp mode) and for CP15 accesses trapped by '
             'HSTR.T<CRn>; WFI / WFE / SMC trapped by HCR.TWI / TWE / TSC are exact as well; CP10/11 (VFP / Advanced SIMD), the CP14/CP15 '
             'register transfers themselves, HCR.TIDCP and HSTR.TTEE are envelope-only; ERET A1 and banked MRS/MSR are documented as not '
             'implemented by the emulator; HSR syndromes are don\'t-care.',
        technique='TLC model checking of the PSR-write and return specs + TLC trace validation of API calls and instructions',
        ref='DESIGN.md §4 C12'),

    'C13': dict(
        text='MC_Mem: TLC checks Mem.tla (MemA/MemU pseudocode over the hub model) against the property\'s decision table '
             '(fault / legacy align-down / byte-wise), exact footprint, byte order by CPSR.E, store-load round trip, '
             'byte-wise equivalence and little-endian fetch on the whole matrix size x offset x E x A x U x arch {5,6,7} x '
             'MemA/MemU x read/write x priv (6144 scenarios). The same matrix is executed through the real mem_a_get/set, '
             'mem_u_get/set, mem_u_unpriv_get/set with random data and base addresses (incl. the top of the address space), '
             'and the value read, every RAM byte, DFSR/DFAR and the outcome are judged by TLC.',
        note='BE-32 (SCTLR.B) is not modelled; instruction-level accesses are C02; data values are random samples.',
        technique='TLC model checking of the memory-access spec + TLC trace validation of recorded API calls',
        ref='DESIGN.md §4 C13'),
    'C14': dict(
        text='MC_PMSA: TLC checks the region loop and CheckPermission of PMSA.tla against the property (highest-numbered '
             'enabled covering region with sub-region disables, AP prose table, background rule, abort bookkeeping) over two '
             'regions in nested/overlapping placements, all AP pairs and probe addresses at every (sub-)region boundary +/- 1 '
             '(8e5 states quick). Conformance: random MPU tables of up to 12 regions x boundary addresses through the real '
             'translate_address(), and random load/store/dual/multiple/unprivileged instructions with pointers at region '
             'boundaries through emulate_cycle(); grant/abort, DFSR, DFAR, LR_abt, SPSR_abt, mode, no write-back and no data '
             'moved are judged by TLC on the full post-state.',
        note='region tables and addresses are sampled; reserved AP encodings, misaligned region bases and unaligned '
             'accesses to Device/Strongly-ordered regions are UNPREDICTABLE (envelope only); instruction fetch faults are '
             'delivered by the implementation as data aborts (named deviation, not judged).',
        technique='TLC model checking of the PMSA spec + TLC trace validation of translate_address() and aborting instructions',
        ref='DESIGN.md §4 C14'),

    'C02': dict(
        text='ISA.tla!ExecLS/ExecLSD specify LDR/STR/LDRB/STRB/LDRH/STRH/LDRSB/LDRSH/LDRD/STRD (immediate, register, literal, '
             'unprivileged T forms) and ExecLDREX/ExecSTREX the exclusive forms (B/H/word/D) for ARM, 16-bit and 32-bit Thumb on top of Mem.tla (MemU/MemA, endianness, alignment '
             'policy); random words x P/U/W x registers x base addresses in RAM, at 0xFFFFFFxx and wrapping x alignment 0..3 x '
             'CPSR.E x SCTLR.A/U x arch 6/7 are executed by emulate_cycle() and the full post-state (registers, write-back, '
             'every memory byte, abort bookkeeping) is judged by TLC. MC_LS (TLC): the whole specified machine runs the load/store '
             'encodings x offset / pre- / post-indexed x U x affine basis of the offset field x shifted register offsets x bases in RAM, '
             'unaligned, at 0xFFFFFF80 and 0xFFFFFFFC (wrap) and is compared with the property wording written without the memory '
             'layer (address arithmetic mod 2^32, little-endian bytes of a property-side RAM image, sign extension as subtraction, '
             'byte-exact store footprint, write-back, PC load, frame); every one of its ~12.7k scenarios is then executed by emulate_cycle().',
        note='sampled operands; exclusive stores are specified as the emulator\'s stub monitors behave (checks, no store, status 1: '
             'a permitted outcome; success is not modelled); SWP/SWPB are envelope-only; UNKNOWN results of pre-v7 '
             'unaligned accesses are don\'t-care; word stores of SP through the T32 imm8 form are treated as unsure.',
        technique='TLA+ machine specification + TLC trace validation of recorded emulate_cycle() events',
        ref='DESIGN.md §4 C02'),
    'C03': dict(
        text='MC_LSM: TLC checks the LDM/STM pseudocode loops against the property wording (k-th lowest register <-> k-th word, '
             'exact footprint, write-back value, PUSH;POP identity) for structured lists (quick) / + every 29th of the 2^16 lists and '
             'all lists with <= 2 or >= 15 registers (thorough) '
             'x IA/IB/DA/DB x W x base incl. wrap. Conformance: random and structured lists for ARM LDM/STM, 16-bit '
             'PUSH/POP/LDM/STM, 32-bit LDM/STM/PUSH/POP and PUSH;POP programs executed by the real code, full state judged by TLC.',
        note='user-bank / exception-return LDM/STM forms, SRS and RFE are not specified yet (envelope only); registers loaded '
             'before an abort and a stored non-lowest base are UNKNOWN (don\'t-care).',
        technique='TLC model checking of the block-transfer pseudocode + TLC trace validation',
        ref='DESIGN.md §4 C03'),
    'C04': dict(
        text='ISA.tla specifies B (A1, T1-T4), BL/BLX immediate (A1, A2, T1, T2), BLX/BX register, CBZ/CBNZ, TBB/TBH and '
             'PC-writing ALU/load forms with BranchWritePC/BXWritePC/ALUWritePC/LoadWritePC; Arm!StepF advances the PC by the '
             'instruction length otherwise. Random offsets over all sign/size combinations, instruction addresses in low RAM '
             'and at 0xFFFFFFxx, arch 4..7, both instruction sets, are executed by emulate_cycle(); PC, LR, T and the rest of '
             'the state are judged by TLC. PC advance is additionally part of every exact verdict of C01-C03. MC_BR (TLC): the whole '
             'specified machine runs every branch encoding over the affine basis of its offset fields (B T1: every condition x every '
             'NZCV) at instruction addresses 0, 0x40, 0x42, 0x80000000 and just below 2^32 and is compared with the wording written '
             'arithmetically (offsets as signed integers from field weights): target, link value, instruction-set selection, '
             'alignment, PC reads (+8 / +4), TBB/TBH with a register and with the PC as table base, frame; every one of its ~18k '
             'scenarios is then executed by emulate_cycle() with a real fetch.',
        note='offsets are sampled on the affine basis and at random, not enumerated (the offset formation is affine); the CBZ known '
             'finding is re-observed on the MC_BR scenarios.',
        technique='TLA+ machine specification + TLC trace validation',
        ref='DESIGN.md §4 C04'),
    'C11': dict(
        text='MC_Exc: TLC checks the exception-entry pseudocode (Exc.tla) against the property statement (target mode by the '
             'routing rule, SPSR = old CPSR, return address per kind and instruction set, I/F/A masks, IT/J cleared, T/E from '
             'SCTLR/HSCTLR, vector base incl. high vectors/VBAR/MVBAR/HVBAR, SCR.NS cleared from Monitor, frame) over kind x '
             'source mode x T x IT x A/I/F x SCTLR.{V,VE,TE,EE} x SCR.{NS,EA,IRQ,FIQ,AW,FW} x HCR.{TGE,IMO,FMO} x extensions '
             'x PC (2e5 scenarios quick). The same TLC run prints every scenario; each is built on the real object, '
             'take_*_exception() is called and the full post-state is judged by TLC against Exc.tla (quick: every 5th).',
        note='external aborts, debug exceptions and virtual interrupts do not exist in the emulator; HSR is don\'t-care for '
             'interrupts routed to Hyp; Reset is specified as a relation (most state is UNKNOWN).',
        technique='TLC model checking of the exception-entry spec + scenario replay on the implementation judged by TLC',
        ref='DESIGN.md §4 C11'),
    'C16': dict(
        text='MC_Hub: TLC explores every history (depth 2 quick / 3 thorough) of reads/writes of sizes 1/2/4/8 at every '
             'address around 7 device layouts (odd sizes, adjacent, gapped, overlapping with first-match priority, top of '
             'the address space) and checks the operational hub model against the property\'s device/flat reading, size '
             'constancy and footprint. Every TLC behaviour (BFS depth 2: ~1e5, plus simulated depth-8) is replayed on a real '
             'MemoryControllerHub with RAM devices comparing device sizes, every byte and every value read, and catching '
             'host errors.',
        note='bytes of a write that crosses a device end may or may not be written (don\'t-care as the property states).',
        technique='TLC model checking of the hub spec + replay of every TLC behaviour on the implementation',
        ref='DESIGN.md §4 C16'),

    'C01': dict(
        text='ISA.tla/Decode.tla specify the data-processing instructions (all 16 ARM opcodes in immediate, register and '
             'register-shifted-register form, MOVW/MOVT, ADR, the 16-bit Thumb shift/add/sub/mov/cmp, data-processing and '
             'high-register forms, the 32-bit Thumb modified-immediate, shifted-register and plain-immediate forms) from '
             'the ARM ARM pseudocode on top of the TLC-checked limb arithmetic; seeded random (encoding, fields, full '
             'register file, NZCVQ/GE, IT state, mode, arch 4..7, cond) events are executed by the real emulate_cycle() '
             'with a real fetch and every event is judged by TLC (Trace_Step) on the complete post-state, so "nothing '
             'else changed" is checked on every event.',
        note='operand values are sampled (corner-biased + uniform), not enumerated; encodings the specification marks '
             'UNPREDICTABLE are judged by the envelope clauses only; the oracle is my transcription of the ARM ARM.',
        technique='TLA+ machine specification + TLC trace validation of recorded emulate_cycle() events',
        ref='DESIGN.md §4 C01'),
    'C05': dict(
        text='MC_Cond: TLC checks for all 16x16 (cond, NZCV) that the ConditionPassed pseudocode equals the 16-row table. '
             'Negative path: ARM words under every failing (cond, NZCV) pair, every 16-bit Thumb word (quick: every 4th) '
             'and random 32-bit Thumb words inside an IT block whose condition fails are executed by the real code; TLC '
             'requires the delta to be exactly {PC += len, IT advanced} (or UNDEFINED / not-implemented), with no '
             'per-instruction semantics needed. Positive path: the same word under a passing condition and under AL from '
             'the same state must have the same delta (pair events compared by TLC).',
        note='words are all 2^16 16-bit encodings plus random/pattern 32-bit words, not every encoding class; encodings '
             'the implementation itself flags UNPREDICTABLE get the envelope only.',
        technique='TLC model checking of the condition table + TLC trace validation (NOP-on-failed-condition relation)',
        ref='DESIGN.md §4 C05'),
    'C10': dict(
        text='MC_Regs: TLC explores all histories (depth 2 quick / 3 thorough) of register writes by current mode and by '
             'explicit mode, SPSR writes and mode switches, and checks that the LookUpRName table agrees with a ghost '
             'model written from the prose banking rule, that a write changes one physical cell and a mode switch none. '
             'Every TLC-generated behaviour (BFS depth 2 + simulated depth 8) is replayed on the real Registers object '
             'comparing all 34+7 cells and public reads after each action. Range: Trace_Step evaluates "all registers, '
             'CPSR, SPSRs, ELR in 0..2^32-1" on every event of wide sweeps with code and pointers at both ends of the '
             'address space. Bank-crossing instructions (RFE / SRS with write-back on every base register, LDM/STM user registers, LDM '
             'exception return, CPS / MSR mode changes, SUBS PC,LR) are executed from every mode with distinct values in all banks and '
             'judged by TLC on all 34 registers and SPSRs.',
        note='register values are tokens in the banking model (banking is value-agnostic); the range invariant is checked '
             'on sampled instruction words and states; exception entry/return histories are covered by C11/C12.',
        technique='TLC model checking of the banking model + replay of TLC behaviours on the implementation + trace validation',
        ref='DESIGN.md §4 C10'),
    'C18': dict(
        text='All 2^16 16-bit Thumb words (quick: one IT position per word; thorough: outside/inside/last), random and '
             'pattern-filled ARM and 32-bit Thumb words and random multi-instruction programs are stepped by the real '
             'emulate_cycle() in modes usr/svc/fiq/mon on PMSA v6, PMSA v7, VMSA v7 and no-security-extension '
             'configurations with the MPU off and permissive-on, plus translate_address() and loads/stores through random short- and '
             'long-descriptor page tables and against random MPU region tables, plus two-/three-step exception histories in the last '
             'instruction slots below 2^32 (exception-raising instruction, then the handler\'s store of the return state on the same '
             'object); TLC (Trace_Step) accepts an event only if its outcome is '
             'one of the specification\'s outcome classes (completed, undef, svc, smc, dabort, hyptrap, notimpl) - a '
             'host error has no action - and, where the step is specified, the right one. MC_Decode (TLC): StepF itself is total '
             'with an allowed outcome and a well-typed post-state on a skeleton holding every value of the class-selecting fields.',
        note='ARM and 32-bit Thumb words are sampled (uniform, pattern-filled, and class-preserving mutations of the 581 words of '
             'the repository tests; the exhaustive class partition is exercised by C06/C07 with the same hosterror clause); '
             'NotImplementedError is accepted from any mock hook.',
        technique='TLA+ outcome-class trace specification + exhaustive enumeration of the 16-bit space',
        ref='DESIGN.md §4 C18'),
    'C19': dict(
        text='UserConfined (Trace_Step.tla) - from User mode the post-state is User mode with A/I/F, all banked '
             'registers, SPSRs, ELR_hyp and every system register unchanged, or a privileged mode at an exception vector '
             'with SPSR.M = User - is evaluated by TLC on the implementation\'s own pre/post state for all 2^16 16-bit '
             'Thumb words, random/pattern ARM and Thumb-32 words and random programs started in User mode, secure and '
             'non-secure, MPU off/on, on four configurations. It needs no per-instruction oracle, so it covers '
             'unspecified and UNPREDICTABLE encodings too. MC_Decode (TLC): every exactly specified step of the specification '
             'itself satisfies UserConfined from User mode on the decode skeleton (Props!SpecStepOK). Second sentence of the property: '
             'LDRT/STRT/LDRBT/STRBT/LDRHT/STRHT/LDRSBT/LDRSHT words (ARM A1/A2, Thumb T1) and mem_u_unpriv_get/set calls are executed '
             'in privileged modes with the MPU on against a region whose AP field separates privileged from User rights (or the '
             'background region), aligned and unaligned under every SCTLR.A/U setting and both endiannesses, and judged exactly '
             '(abort vs transfer, memory, write-back, DFSR/DFAR).',
        note='32-bit words are sampled; the unprivileged-access events use PMSA regions (VMSA permissions are C15\'s).',
        technique='TLA+ confinement invariant evaluated by TLC trace validation on every User-mode event',
        ref='DESIGN.md §4 C19'),

    'C17': dict(
        text='TLC proves, for every operand at widths 1..8 and every shift amount 0..255, that the bit-string '
             'transcription of each ARM pseudocode primitive equals its arithmetic formulation (MC_BV), and that the '
             'limb library used for width 32/64 equals that reference (MC_W32, exhaustive at limb width 4); every '
             'helper of bits_ops.py/shift.py is then called on every operand tuple at widths 1..8 (quick 1..6), all '
             '4096x2 modified immediates, all (type,imm5) and corner/random 32/64-bit operands with every amount, and '
             'each call is judged by TLC against the specification (Trace_BV). Field views: every accessor of every '
             'register class x 5 base images x in-range values judged against the architectural bit positions in '
             'SysRegFields.tla (Trace_Fields), whose internal consistency MC_Fields checks.',
        note='Trusted: BV.tla / SysRegFields.tla as transcriptions of the ARM ARM (written from memory; double '
             'formulation and disjointness checks only catch internal inconsistency); width 32/64 operands are '
             'sampled (corners + seeded random), not enumerated; SUNAVCR.v position is consistency-only.',
        technique='TLA+ reference library model-checked by TLC + TLC trace validation of recorded helper calls',
        ref='DESIGN.md §4 C17'),
}

NOT_YET = 'check not built yet in this round (planned: DESIGN.md §4); nothing is claimed for it'

checks = []
na = []
for p in props:
    pid = p['id']
    if pid in CLAIMED:
        c = CLAIMED[pid]
        checks.append({
            'property_id': pid,
            'quick_cmd': './check %s --tier quick' % pid,
            'thorough_cmd': './check %s --tier thorough' % pid,
            'evidence_file': 'evidence/%s.json' % pid,
            'replay_cmd_template': './check %s --replay {path}' % pid,
            'engine': 'tla-arm',
            'level_claimed': {'category': 'model_checking', 'text': c['text'], 'design_ref': c['ref']},
            'level_note': c['note'],
            'technique': c['technique'],
        })
    else:
        na.append({'property_id': pid, 'reason': NOT_YET})

m = {
    'version': 1,
    'setup_cmd': './setup.sh',
    'hooks': {
        'guard': 'ARMULATOR_VERIF',
        'enable': 'no source hooks are needed: the implementation is sequential and its public API exposes the whole '
                  'abstract state; checks import /repo\'s working tree directly (sys.path[0]=/repo)',
        'baseline_off_cmd': 'cd /repo && /venv/bin/python -m pytest -ra -q -p no:cacheprovider --timeout=900 '
                            '--continue-on-collection-errors',
        'source_commits': [],
        'add_only': True,
    },
    'engines': [{
        'name': 'tla-arm', 'path': 'spec/ + harness/',
        'serves_properties': sorted(CLAIMED),
        'kind_free_text': 'explicit TLA+ specification of the ARM machine (spec/*.tla), bounded instances model-checked '
                          'by TLC (spec/mc), bound to the Python implementation by TLC trace validation of recorded '
                          'events (spec/trace) and by replay of TLC-generated behaviours into the real objects',
    }],
    'checks': checks,
    'not_applicable': na,
    'notes': 'exit 2 from a check means the verification machinery itself failed (SANY/TLC error, timeout, accepted '
             'canary) and is never a property verdict. known_findings.json lists recorded defects and fix: commits.',
}
json.dump(m, open(os.path.join(V, 'MANIFEST.json'), 'w'), indent=1)
print('MANIFEST.json: %d checks, %d not_applicable' % (len(checks), len(na)))
