#!/usr/bin/env python3
"""Regenerates /verif/MANIFEST.json from the table below (single source of truth for what is claimed)."""
import json
import os

V = os.path.dirname(os.path.dirname(os.path.abspath(__file__)))
props = [json.loads(l) for l in open(os.path.join(V, 'properties.jsonl'))]

CLAIMED = {
    'C17': dict(
        text='TLC proves, for every operand at widths 1..8 and every shift amount 0..255, that the bit-string '
             'transcription of each ARM pseudocode primitive equals its arithmetic formulation (MC_BV), and that the '
             'limb library used for width 32/64 equals that reference (MC_W32, exhaustive at limb width 4); every '
             'helper of bits_ops.py/shift.py is then called on every operand tuple at widths 1..8 (quick 1..6), all '
             '4096x2 modified immediates, all (type,imm5) and corner/random 32/64-bit operands with every amount, and '
             'each call is judged by TLC against the specification (Trace_BV). Field views: every accessor of every '
             'register class x 5 base images x in-range values judged against the architectural bit positions in '
             'SysRegFields.tla (Trace_Fields), whose internal consistency MC_Fields checks.',
        note='Trusted: BV.tla / SysRegFields.tla as transcriptions of the ARM ARM (written from memory; double '
             'formulation and disjointness checks only catch internal inconsistency); width 32/64 operands are '
             'sampled (corners + seeded random), not enumerated; SUNAVCR.v position is consistency-only.',
        technique='TLA+ reference library model-checked by TLC + TLC trace validation of recorded helper calls',
        ref='DESIGN.md §4 C17'),
}

NOT_YET = 'check not built yet in this round (planned: DESIGN.md §4); nothing is claimed for it'

checks = []
na = []
for p in props:
    pid = p['id']
    if pid in CLAIMED:
        c = CLAIMED[pid]
        checks.append({
            'property_id': pid,
            'quick_cmd': './check %s --tier quick' % pid,
            'thorough_cmd': './check %s --tier thorough' % pid,
            'evidence_file': 'evidence/%s.json' % pid,
            'replay_cmd_template': './check %s --replay {path}' % pid,
            'engine': 'tla-arm',
            'level_claimed': {'category': 'model_checking', 'text': c['text'], 'design_ref': c['ref']},
            'level_note': c['note'],
            'technique': c['technique'],
        })
    else:
        na.append({'property_id': pid, 'reason': NOT_YET})

m = {
    'version': 1,
    'setup_cmd': './setup.sh',
    'hooks': {
        'guard': 'ARMULATOR_VERIF',
        'enable': 'no source hooks are needed: the implementation is sequential and its public API exposes the whole '
                  'abstract state; checks import /repo\'s working tree directly (sys.path[0]=/repo)',
        'baseline_off_cmd': 'cd /repo && /venv/bin/python -m pytest -ra -q -p no:cacheprovider --timeout=900 '
                            '--continue-on-collection-errors',
        'source_commits': [],
        'add_only': True,
    },
    'engines': [{
        'name': 'tla-arm', 'path': 'spec/ + harness/',
        'serves_properties': sorted(CLAIMED),
        'kind_free_text': 'explicit TLA+ specification of the ARM machine (spec/*.tla), bounded instances model-checked '
                          'by TLC (spec/mc), bound to the Python implementation by TLC trace validation of recorded '
                          'events (spec/trace) and by replay of TLC-generated behaviours into the real objects',
    }],
    'checks': checks,
    'not_applicable': na,
    'notes': 'exit 2 from a check means the verification machinery itself failed (SANY/TLC error, timeout, accepted '
             'canary) and is never a property verdict. known_findings.json lists recorded defects and fix: commits.',
}
json.dump(m, open(os.path.join(V, 'MANIFEST.json'), 'w'), indent=1)
print('MANIFEST.json: %d checks, %d not_applicable' % (len(checks), len(na)))
