#!/bin/bash
# usage: multiseed.sh "<seeds>" [checks...]   - runs quick checks under several seeds, prints one summary line each
seeds=$1; shift
checks=${@:-C01 C02 C03 C04 C05 C06 C07 C08 C09 C10 C11 C12 C13 C14 C15 C16 C17 C18 C19 C20}
cd "$(dirname "$0")/.."
for s in $seeds; do
  for c in $checks; do
    out=$(VERIF_SEED=$s ./check $c --tier quick 2>&1); rc=$?
    echo "seed=$s $c rc=$rc $(echo "$out" | grep -v KNOWN | tail -1 | cut -c1-200)"
    if [ $rc -ne 0 ]; then echo "$out" | grep -A1 "^VIOLATION\|violations by site\|Error\|Traceback" | head -20 | cut -c1-400; fi
  done
done
