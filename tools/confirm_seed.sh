#!/bin/bash
# usage: confirm_seed.sh <worktree> <seed-id>
# Confirms a sub-agent's change in its scratch worktree (tests pass with the change; demo exits 1 with / 0 without) and only then
# copies it to /verif/seeded/<seed-id>/ (patch.diff, demo.py, meta.json).  Nothing is applied to /repo.
WT=$1; ID=$2
cd $WT || exit 2
git diff -- armulator > _seed/patch.diff
[ -s _seed/patch.diff ] || { echo "$ID: NOT CONFIRMED (empty patch)"; exit 3; }
git diff --stat -- tests | grep -q . && { echo "$ID: NOT CONFIRMED (tests edited)"; exit 3; }
T=$(/venv/bin/python -m pytest -q -p no:cacheprovider 2>&1 | tail -1)
/venv/bin/python _seed/demo.py > /dev/null 2>&1; W=$?
git apply -R _seed/patch.diff
/venv/bin/python _seed/demo.py > /dev/null 2>&1; WO=$?
git apply _seed/patch.diff
echo "$ID: tests: $T | demo with change: exit $W | without: exit $WO"
case "$T" in *failed*|*error*) echo "$ID: NOT CONFIRMED (tests)"; exit 3;; esac
if [ $W != 1 ] || [ $WO != 0 ]; then echo "$ID: NOT CONFIRMED (demo)"; exit 3; fi
mkdir -p /verif/seeded/$ID
cp _seed/* /verif/seeded/$ID/; rm -f /verif/seeded/$ID/p.diff
echo "$ID: CONFIRMED"
