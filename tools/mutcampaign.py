#!/venv/bin/python
"""Unguided mutation campaign (a self-assessment tool, not a registered check):
  tools/mutcampaign.py <n_survivors> <seed>
A scratch worktree of /repo is created under /tmp, one random small mutation at a time is applied to the implementation,
mutants killed by the repository's own tests are discarded, and for each survivor the quick checks mapped to the mutated
file are run against the worktree (ARMULATOR_REPO).  Prints one line per survivor: detected / MISSED / machinery.
Missed mutants need manual triage (many are equivalent)."""
import os
import random
import re
import subprocess
import sys
import time

VERIF = os.path.dirname(os.path.dirname(os.path.abspath(__file__)))
WT = '/tmp/mut_repo_%d' % os.getpid()

OPS = [(r'==', '!='), (r'!=', '=='), (r'<=', '<'), (r'>=', '>'), (r' < ', ' <= '), (r' > ', ' >= '), (r' and ', ' or '),
       (r' or ', ' and '), (r' \+ ', ' - '), (r' - ', ' + '), (r'\bnot ', ''), (r'\bTrue\b', 'False'), (r'\bFalse\b', 'True'),
       (r'<<', '>>'), (r' \| ', ' & '), (r' & ', ' | ')]


def sh(cmd, cwd=None, env=None, timeout=3000):
    p = subprocess.run(cmd, shell=True, cwd=cwd, env=env, stdout=subprocess.PIPE, stderr=subprocess.STDOUT, text=True,
                       timeout=timeout)
    return p.returncode, p.stdout


def files():
    out = []
    base = os.path.join(WT, 'armulator', 'armv6')
    for root, _, fs in os.walk(base):
        for f in fs:
            if f.endswith('.py') and f != '__init__.py':
                out.append(os.path.relpath(os.path.join(root, f), WT))
    return out


def weight(path):
    if os.environ.get('MUT_CORE') and '/opcodes/' in path:
        return 0
    if path.endswith(('arm_v6.py', 'registers.py')):
        return 60
    if path.endswith(('shift.py', 'bits_ops.py', 'memory_controller_hub.py', 'memory_types.py')):
        return 25
    if '/decoders/' in path:
        return 3
    if '/abstract_opcodes/' in path:
        return 2
    return 1


def checks_for(path):
    if '/opcodes/' in path:
        return ['C06', 'C07']
    if path.endswith(('shift.py', 'bits_ops.py')):
        return ['C17', 'C01']
    if '/all_registers/' in path:
        return ['C17', 'C12']
    if path.endswith('registers.py'):
        return ['C10', 'C11', 'C12']
    if path.endswith(('memory_controller_hub.py', 'memory_types.py')):
        return ['C16', 'C13']
    if path.endswith('arm_v6.py'):
        return ['C13', 'C14', 'C15', 'C12', 'C18']
    return ['C18', 'C06']


def mutate(rnd):
    fl = files()
    path = rnd.choices(fl, weights=[weight(f) for f in fl])[0]
    src = open(os.path.join(WT, path)).read().split('\n')
    cands = []
    for i, line in enumerate(src):
        s = line.strip()
        if not s or s.startswith(('#', 'import', 'from', 'def ', 'class ', '@', 'print', '"""', 'raise', 'assert')):
            continue
        for k, (pat, rep) in enumerate(OPS):
            for m in re.finditer(pat, line):
                cands.append((i, k, m.start(), m.end()))
        for m in re.finditer(r'(?<![\w.])(\d+)(?![\w.])', line):
            cands.append((i, -1, m.start(), m.end()))
    if not cands:
        return None
    i, k, a, b = rnd.choice(cands)
    line = src[i]
    if k >= 0:
        new = line[:a] + re.sub(OPS[k][0], OPS[k][1], line[a:b]) + line[b:]
    else:
        n = int(line[a:b])
        new = line[:a] + str(n + rnd.choice([1, -1]) if n > 0 else 1) + line[b:]
    if new == line:
        return None
    src[i] = new
    open(os.path.join(WT, path), 'w').write('\n'.join(src))
    return path, i + 1, line.strip(), new.strip()


def main():
    want, seed = int(sys.argv[1]), int(sys.argv[2])
    rnd = random.Random(seed)
    sh('git -C /repo worktree add -q --detach %s HEAD' % WT)
    env = dict(os.environ, ARMULATOR_REPO=WT, VERIF_SEED='1')
    found = tried = 0
    try:
        while found < want and tried < want * 30:
            tried += 1
            sh('git checkout -q -- .', cwd=WT)
            m = mutate(rnd)
            if m is None:
                continue
            path, ln, old, new = m
            rc, _ = sh('/venv/bin/python -m py_compile %s' % path, cwd=WT)
            if rc:
                continue
            rc, out = sh('/venv/bin/python -m pytest -x -q -p no:cacheprovider --timeout=120 tests', cwd=WT,
                         env=dict(os.environ, PYTHONPATH=WT), timeout=900)
            if rc != 0:
                continue                                   # killed by the repository's own tests
            found += 1
            t0 = time.time()
            verdicts = []
            for c in checks_for(path):
                rc, out = sh('./check %s --tier quick' % c, cwd=VERIF, env=env)
                verdicts.append('%s=%s' % (c, {0: 'pass', 1: 'DETECTED', 2: 'machinery'}.get(rc, rc)))
                if rc == 1:
                    break
            det = any('DETECTED' in v for v in verdicts)
            print('%s %s:%d  [%s]  ->  [%s]   %s  (%.0fs)' % ('detected' if det else 'MISSED  ', path.replace('armulator/armv6/', ''), ln, old, new,
                                                            ' '.join(verdicts), time.time() - t0), flush=True)
    finally:
        sh('git -C /repo worktree remove --force %s' % WT)
        sh('git -C /repo worktree prune')
    print('survivors %d of %d mutants tried' % (found, tried))


if __name__ == '__main__':
    main()
