#!/venv/bin/python
"""debug helper: run one instruction on the real code from a small description and print what it did
usage: dbg.py <hexword> [thumb] [key=value ...]   keys: R<n>, cpsr, pc, arch, sctlr, mem<off>=byte"""
import sys
sys.path.insert(0, '/verif'); sys.path.insert(0, '/repo')
from harness import core, machine as M
w = int(sys.argv[1], 16)
thumb = 'thumb' in sys.argv
kv = dict(a.split('=') for a in sys.argv[2:] if '=' in a)
path, cfg = M.make_config(arch_version=int(kv.get('arch', 6)))
arm = M.new_arm(path); arm.take_reset(); arm.registers.sctlr.m = 0
if 'sctlr' in kv: arm.registers.sctlr.value = int(kv['sctlr'], 0)
pc = int(kv.get('pc', '64'), 0)
arm.registers.cpsr.value = int(kv.get('cpsr', '0x1d3' if not thumb else '0x1f3'), 0)
for k, v in kv.items():
    if k.startswith('R'):
        arm.registers.set(int(k[1:]), int(v, 0))
    if k.startswith('mem'):
        arm.mem.memories[0].mem.memory_array[int(k[3:])] = int(v, 0)
arm.registers.branch_to(pc)
m = arm.mem.memories[0].mem.memory_array
if thumb and w >> 16:
    m[pc:pc+2] = (w >> 16).to_bytes(2, 'little'); m[pc+2:pc+4] = (w & 0xffff).to_bytes(2, 'little')
elif thumb:
    m[pc:pc+2] = w.to_bytes(2, 'little')
else:
    m[pc:pc+4] = w.to_bytes(4, 'little')
before = bytes(m)
instr = arm.fetch_instruction()
cls = arm.decode_instruction(instr)
print('decoded class:', cls)
if cls:
    o = cls.from_bitarray(instr, arm)
    print('operands:', {k: v for k, v in vars(o).items()} if o else None)
arm.registers.branch_to(pc)
out, c, n = M.run_action(arm, {'n': 'Step'})
print('outcome', out, c, 'unpredictable prints', n, getattr(arm, '_last_tb', None))
print('regs', [hex(arm.registers.get(i)) for i in range(15)], 'pc', hex(arm.registers.pc_store_value()), 'cpsr', hex(arm.registers.cpsr.value))
print('mem changes', [(i, before[i], m[i]) for i in range(len(m)) if before[i] != m[i]])
