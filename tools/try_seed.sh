#!/bin/bash
# usage: try_seed.sh <worktree> <seed-id> <check-id ...>
# 1. confirm in the scratch worktree: tests pass with the change, demo exits 1 with / 0 without
# 2. copy the seed to /verif/seeded/<seed-id>/
# 3. apply to /repo, run the given checks (quick), undo
WT=$1; ID=$2; shift 2
set -u
cd $WT || exit 2
git diff -- armulator > _seed/patch.diff
echo "== tests with change"; /venv/bin/python -m pytest -q -p no:cacheprovider 2>&1 | tail -1
echo "== demo with change"; /venv/bin/python _seed/demo.py > /dev/null 2>&1; echo "exit $?"
git apply -R _seed/patch.diff
echo "== demo without change"; /venv/bin/python _seed/demo.py > /dev/null 2>&1; echo "exit $?"
git apply _seed/patch.diff
mkdir -p /verif/seeded/$ID
cp _seed/patch.diff _seed/demo.py _seed/meta.json /verif/seeded/$ID/ 2>/dev/null
cd /repo && git status --short | grep -v '^??' | head -3
git -C /repo apply /verif/seeded/$ID/patch.diff || { echo "PATCH DOES NOT APPLY"; exit 2; }
cd /verif
for c in "$@"; do
  echo "== check $c on seeded tree"
  ./check $c --tier quick 2>&1 | grep -v "^  TLC" | tail -4 | cut -c1-330
  echo "exit ${PIPESTATUS[0]}"
done
git -C /repo checkout -- .
git -C /repo status --short | grep -v '^??' | head
