#!/bin/bash
# runs every check's thorough tier once, one summary line each (used to time the thorough tier and to flush rare alarms)
cd "$(dirname "$0")/.."
checks=${@:-C01 C02 C03 C04 C05 C06 C07 C08 C09 C10 C11 C12 C13 C14 C15 C16 C17 C18 C19 C20}
for c in $checks; do
  t0=$(date +%s)
  out=$(./check $c --tier thorough 2>&1); rc=$?
  echo "$c rc=$rc wall=$(( $(date +%s) - t0 ))s $(echo "$out" | grep -v KNOWN | tail -1 | cut -c1-200)"
  if [ $rc -ne 0 ]; then echo "$out" | grep -A1 "^VIOLATION\|violations by site\|Error\|Traceback" | head -20 | cut -c1-400; fi
done
