#!/venv/bin/python
"""run one model-checking instance the way the checks do:  tools/mc.py MC_Coproc [CONST=value ...]"""
import sys
sys.path.insert(0, '/verif')
from harness import tlc
consts = dict(a.split('=', 1) for a in sys.argv[2:])
r = tlc.run_mc(sys.argv[1], constants=consts or None, coverage=False)
print({k: v for k, v in r.items() if k != 'out'})
print(r['out'][-3000:])
