#!/bin/bash
# usage: eval_seeds.sh [-j N] [-t tier] <seed-id>[:Cxx,Cyy] ...
# For each seed in /verif/seeded: make a scratch worktree of /repo (HEAD + uncommitted nothing), apply the patch,
# run the check of the seed's own property (or the listed checks) against the worktree (ARMULATOR_REPO), with
# evidence/replays redirected to a scratch directory, and remove the worktree.  /repo and /verif/evidence are
# never touched.  One summary line per (seed, check):   SEED <id> <check> exit=<rc> violations=<n> first=<...>
J=4; TIER=quick
while getopts "j:t:" o; do case $o in j) J=$OPTARG;; t) TIER=$OPTARG;; esac; done
shift $((OPTIND-1))
one() {
  spec=$1; tier=$2
  id=${spec%%:*}; checks=${spec#*:}
  [ "$checks" = "$spec" ] && checks=$(echo $id | cut -c1-3)
  wt=$(mktemp -d /tmp/se_wt.XXXXXX); rmdir $wt
  git -C /repo worktree add --detach -q $wt HEAD 2>/dev/null || { echo "SEED $id worktree failed"; return; }
  if ! git -C $wt apply /verif/seeded/$id/patch.diff 2>/dev/null; then
    echo "SEED $id PATCH-DOES-NOT-APPLY"; git -C /repo worktree remove --force $wt; return
  fi
  out=$(mktemp -d /tmp/se_out.XXXXXX)
  for c in $(echo $checks | tr ',' ' '); do
    log=$out/$c.log
    ( cd /verif && ARMULATOR_REPO=$wt VERIF_OUT_DIR=$out ./check $c --tier $tier > $log 2>&1 ); rc=$?
    nv=$(grep -c '^VIOLATION' $log)
    summ=$(grep -v '^  TLC' $log | grep -i 'violations\|MACHINERY' | tail -2 | tr '\n' ' ' | cut -c1-300)
    echo "SEED $id $c exit=$rc VIOLATION-lines=$nv :: $summ"
  done
  rm -rf $out
  git -C /repo worktree remove --force $wt
}
export -f one
printf '%s\n' "$@" | xargs -P $J -I{} bash -c "one {} $TIER"
