#!/venv/bin/python
"""Self-assessment (not a registered check): which implementation opcode classes are never judged EXACTLY by the decode
checks (cube members + class words)?  Prints the classes and the spec paths their events took."""
import sys, random, collections
sys.path.insert(0,'/verif'); sys.path.insert(0,'/repo')
from harness import core, decodecheck as D, campaign as C, sweeps as S
core.capture_impl_stdout()
ctx = core.Ctx('CXX','quick',11)
rnd = random.Random(11)
ex = collections.Counter(); tot = collections.Counter(); paths = collections.defaultdict(collections.Counter)
cw = S.class_word_list(11, 8)
allcls=set()
for which, thumb in (('arm', False), ('t32', True)):
    leaves = D.cubes.partition(which)
    allcls |= {l[2] for l in leaves}
    words, ng = D.select_words(leaves, rnd, 4, 1, 1)
    words += [(w, None, 'classword') for th, w in cw if th == thumb]
    groups, res = D.run_words(ctx, rnd, words, thumb=thumb)
    for g, e, v in res:
        cls = e['cls'] or '(none)'
        tot[cls] += 1
        p = v['path']
        if p.startswith('exact:') and not p.startswith('exact:condfail') and p != 'exact:UNDEFINED':
            ex[cls] += 1
        paths[cls][':'.join(p.split(':')[:3])] += 1
never = sorted(c for c in tot if ex[c] == 0)
core.out('impl classes executed %d, never exact: %d; cube classes never executed: %s' % (len(tot), len(never), sorted(c for c in allcls if c not in tot and not c.startswith('raise') and c!='None')))
for c in never:
    core.out('%-40s %4d %s' % (c, tot[c], dict(paths[c].most_common(3))))
