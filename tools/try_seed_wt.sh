#!/bin/bash
# usage: try_seed_wt.sh <worktree> <seed-id> <check-id ...>
# Like try_seed.sh, but the checks run against the scratch worktree itself (ARMULATOR_REPO) with evidence/replays
# redirected to a scratch directory, so /repo and /verif/evidence are never touched and several trials can run
# while other work goes on.  The seed is copied to /verif/seeded/<seed-id>/ only if it is confirmed
# (tests pass with the change; demo exits 1 with / 0 without).
WT=$1; ID=$2; shift 2
set -u
cd $WT || exit 2
git diff -- armulator > _seed/patch.diff
T=$(/venv/bin/python -m pytest -q -p no:cacheprovider 2>&1 | tail -1); echo "== tests with change: $T"
/venv/bin/python _seed/demo.py > /dev/null 2>&1; W=$?; echo "== demo with change: exit $W"
git apply -R _seed/patch.diff
/venv/bin/python _seed/demo.py > /dev/null 2>&1; WO=$?; echo "== demo without change: exit $WO"
git apply _seed/patch.diff
case "$T" in *failed*|*error*) echo "NOT CONFIRMED (tests)"; exit 3;; esac
if [ $W != 1 ] || [ $WO != 0 ]; then echo "NOT CONFIRMED (demo)"; exit 3; fi
mkdir -p /verif/seeded/$ID
cp _seed/patch.diff _seed/demo.py _seed/meta.json /verif/seeded/$ID/ 2>/dev/null
OUT=$(mktemp -d /tmp/seedout.XXXXXX)
cd /verif
for c in "$@"; do
  echo "== check $c on seeded tree"
  ARMULATOR_REPO=$WT VERIF_OUT_DIR=$OUT ./check $c --tier quick 2>&1 | grep -v "^  TLC" | tail -4 | cut -c1-330
  echo "exit ${PIPESTATUS[0]}"
done
rm -rf $OUT
