------------------------------ MODULE MC_Return ------------------------------
(***************************************************************************)
(* C12 (round trip) / C08 (IT saved and restored) on the spec: entering an *)
(* exception (Exc.tla) and executing its standard return instruction       *)
(* (Arm!StepF on SUBS PC,LR,#n / MOVS PC,LR / RFE after SRS-style frame /  *)
(* LDM ..^) resumes the interrupted program with its CPSR, all registers   *)
(* of its mode and the expected PC -- for interrupted ARM, Thumb and       *)
(* mid-IT-block states, handlers in ARM (SCTLR.TE = 0) and Thumb (TE = 1). *)
(***************************************************************************)
EXTENDS Arm
VARIABLES sc
vars == <<sc>>
MkWordBits(pairs) == LET RECURSIVE f(_) f(k) == IF k = 0 THEN Zero ELSE SetBitW(f(k - 1), pairs[k][1], pairs[k][2]) IN f(Len(pairs))
Kinds == {"SVC", "Undef", "IRQ", "FIQ", "DAbort"}
Mem0 == [devs |-> <<[b |-> Zero, n |-> 64]>>, base |-> <<[j \in 1..64 |-> 0]>>, w |-> <<>>]
RegVal(i) == <<300 + i, 700 + 31 * i>>
S0(p) ==
  LET c == WOr(SetM(SetIT(MkWordBits(<< <<5, p.t>>, <<30, 1>>, <<29, 1>>, <<27, 1>>, <<17, 1>>, <<9, p.e>> >>), IF p.t = 1 THEN p.it ELSE 0), p.mode), Zero)
      s0 == [R |-> [r \in RNames |-> IF r = "PC" THEN <<1, 4096>> ELSE <<9, 9>>], cpsr |-> c,
             spsr |-> [m \in SpsrNames |-> <<5, 5>>], elr |-> Zero,
             sys |-> [SCTLR |-> MkWordBits(<< <<30, p.te>>, <<22, 1>> >>), SCR |-> Zero, HCR |-> Zero, HSCTLR |-> Zero,
                      VBAR |-> <<0, 32>>, MVBAR |-> Zero, HVBAR |-> Zero, NSACR |-> Zero, DFSR |-> Zero, DFAR |-> Zero, MPUIR |-> Zero],
             mem |-> Mem0, ev |-> [evreg |-> 0, wfe |-> 0, wfi |-> 0],
             cfg |-> [arch |-> 7, pmsa |-> TRUE, sec |-> TRUE, virt |-> FALSE, lpae |-> FALSE, irqvec |-> Zero, fiqvec |-> Zero]]
      RECURSIVE fill(_, _)
      fill(s, i) == IF i > 14 THEN s ELSE fill(Rset(s, i, RegVal(i)), i + 1)
  IN fill(s0, 0)

Init == sc = [stage |-> 0]
Pick == sc.stage = 0 /\ \E k \in Kinds, mode \in {USR, SYS, SVC, IRQ}, t \in {0, 1}, it \in {0, 100, 72}, te \in {0, 1}, e \in {0, 1},
                           ret \in {"dp", "rfe", "ldm"} :
          /\ (t = 0 => it = 0)
          /\ sc' = [stage |-> 1, kind |-> k, mode |-> mode, t |-> t, it |-> it, te |-> te, e |-> e, ret |-> ret]
Next == Pick
Spec == Init /\ [][Next]_vars
Done == sc.stage = 1

Pre == S0(sc)
Len0 == IF sc.t = 1 THEN 2 ELSE 4                       \* the interrupted SVC / UDF instruction is 16-bit in Thumb state
Entered ==
  CASE sc.kind = "SVC"    -> TakeSVC(Pre, Len0)
    [] sc.kind = "Undef"  -> TakeUndefInstr(Pre)
    [] sc.kind = "IRQ"    -> TakePhysicalIRQ(Pre)
    [] sc.kind = "FIQ"    -> TakePhysicalFIQ(Pre)
    [] sc.kind = "DAbort" -> TakeDataAbort(Pre, [alignment |-> FALSE, secondstage |-> FALSE])
\* standard return: SUBS PC, LR, #n with n = 0 (SVC, Undef: return after), 4 (IRQ/FIQ), 8 (DAbort: retry)
RetN == CASE sc.kind \in {"SVC", "Undef"} -> 0 [] sc.kind \in {"IRQ", "FIQ"} -> 4 [] sc.kind = "DAbort" -> 8
\* the handler runs in ARM (TE = 0) or Thumb (TE = 1) state
RetWordDP == IF sc.te = 0 THEN <<57950 , 61440 + RetN>>            \* E25EF0nn  SUBS PC, LR, #n
             ELSE <<62430, 36608 + RetN>>                          \* F3DE 8Fnn  SUBS PC, LR, #n (T1)
\* frame-based returns: the handler first adjusts LR, pushes {LR, SPSR} (SRS) resp. {LR} and returns by RFE / LDM ^
Returned ==
  LET h == Entered IN
  IF sc.ret = "dp" THEN StepF(h, [n |-> "Exec", w |-> RetWordDP, len |-> 32])
  ELSE LET h1 == Rset(Rset(h, 14, AddInt(Rget(h, 14), -RetN)), 13, <<0, 32>>)          \* LR -= n ; SP = 32
           x1 == IF sc.ret = "rfe" THEN ExecSRS(X0(h1), [mode |-> Mode(h1), inc |-> FALSE, wordhigher |-> FALSE, wback |-> TRUE])
                 ELSE ExecSTM(X0(h1), [k |-> "stm", n |-> 13, regs |-> 16384 + 7, wback |-> TRUE, am |-> "DB"])
           h2 == [x1.s EXCEPT !.mem = Normalize(@)]
       IN IF sc.ret = "rfe"
          THEN StepF(h2, [n |-> "Exec", len |-> 32,
                          w |-> IF sc.te = 0 THEN <<63677, 2560>> ELSE <<59837, 49152>>])    \* RFEIA SP! : F8BD0A00 / E9BD C000
          ELSE StepF(h2, [n |-> "Exec", len |-> 32, w |-> <<59645, 32775>>])                  \* LDMIA SP!, {r0-r2, pc}^ : E8FD8007
ExpectedPC == CASE sc.kind \in {"SVC", "Undef"} -> AddInt(Pre.R.PC, Len0) [] OTHER -> Pre.R.PC
SavedIT == IF sc.kind = "SVC" THEN ITAdvance(PIT(Pre.cpsr)) ELSE PIT(Pre.cpsr)

EntrySavesIT == Done => (PIT(Entered.cpsr) = 0 /\ PIT(Entered.spsr[SpsrName(Mode(Entered))]) = SavedIT)
\* (the Thumb LDM ^ form does not exist: that combination is skipped)
\* an exception taken to the mode that was interrupted overwrites that mode's LR and SPSR: not a round trip
Applicable == ~(sc.ret = "ldm" /\ sc.te = 1) /\ Mode(Entered) # sc.mode
RoundTrip == (Done /\ Applicable) =>
  LET r == Returned IN
  /\ r.exact /\ r.out = "completed"
  /\ r.s.R.PC = ExpectedPC
  /\ r.s.cpsr = SetIT(Pre.cpsr, SavedIT)                          \* CPSR restored (SVC: IT state of the next instruction)
  /\ \A n \in 0..14 : Rget(r.s, n) = Rget(Pre, n)                \* every register of the interrupted mode
  /\ r.s.sys = Pre.sys
=============================================================================
