SPECIFICATION Spec
CONSTANTS DEPTH = 2
          GEN = FALSE
INVARIANT VisibleOK
INVARIANT SpsrOK
INVARIANT BankingOK
INVARIANT SpsrPrivate
INVARIANT Emit
PROPERTY WriteLocal
CHECK_DEADLOCK FALSE
