------------------------------- MODULE MC_VMSA -------------------------------
(***************************************************************************)
(* C15 on the spec: the short-descriptor walk and checks of VMSA.tla       *)
(* against the property's statement, for descriptor templates (fault, page *)
(* table -> {fault, large page, small page}, section, supersection) x      *)
(* AP/APX x domain x DACR field x SCTLR.{M, AFE} x TTBCR.{N, PD0, PD1} x   *)
(* FCSE PID x VA placement (TTBR0 / TTBR1 side of the split, low 32 MiB)   *)
(* x read/write x privileged/unprivileged.  The expected physical address  *)
(* is written with plain arithmetic on the block size.                     *)
(***************************************************************************)
EXTENDS VMSA
CONSTANTS FULL
VARIABLES sc
vars == <<sc>>
MkWordBits(pairs) == LET RECURSIVE f(_) f(k) == IF k = 0 THEN Zero ELSE SetBitW(f(k - 1), pairs[k][1], pairs[k][2]) IN f(Len(pairs))
Kinds == {"l1fault", "section", "super", "l2fault", "large", "small"}
\* physical layout: TTBR1 table at 0x4000 (16 KiB), TTBR0 table at 0x8000, one L2 table at 0xC000
L2Base == <<0, 49152>>
PABase == <<4660, 0>>                     \* 0x12340000 ... block-aligned output base (also 16 MiB aligned: 0x12000000 for super)
OutBase(kind) == CASE kind = "section" -> <<4656, 0>> [] kind = "super" -> <<4608, 0>> [] kind = "large" -> <<4660, 0>> [] kind = "small" -> <<4660, 20480>> [] OTHER -> Zero
L1Desc(p) ==
  LET ap == p.ap  dom == p.dom IN
  CASE p.kind = "l1fault" -> <<43690, 43688>>
    [] p.kind \in {"l2fault", "large", "small"} -> WOr(L2Base, <<0, dom * 32 + 1>>)
    [] p.kind = "section" -> WOr(OutBase("section"), <<0, (ap \div 4) * 32768 + (ap % 4) * 1024 + dom * 32 + 2>>)
    [] p.kind = "super" -> WOr(OutBase("super"), <<4, (ap \div 4) * 32768 + (ap % 4) * 1024 + 2>>)
L2Desc(p) ==
  LET ap == p.ap  c == (ap \div 4) * 512 + (ap % 4) * 16 IN
  CASE p.kind = "l2fault" -> <<21845, 21844>>
    [] p.kind = "large" -> WOr(OutBase("large"), <<0, c + 1>>)
    [] p.kind = "small" -> WOr(OutBase("small"), <<0, c + 2>>)
    [] OTHER -> Zero
\* the VA probed: index i1 in the L1 table, i2 in the L2 table, low offset off
VA(p) == WOr(WOr(<<p.i1 * 16, 0>>, <<0, p.i2 * 4096>>), <<0, p.off>>)          \* i1 < 4096: VA<31:20> = i1 ; VA<19:12> : i2 (i2 < 16 here)
ZeroBase == [j \in 1..36864 |-> 0]
MemFor(p) ==
  LET mva == IF Slice(VA(p), 31, 25) = 0 THEN InsertW(VA(p), 31, 25, <<0, p.pid>>) ELSE VA(p)
      idx == ToNat(LSRw(mva, 20))
      use0 == p.n = 0 \/ IsZeroW(LSRw(mva, 32 - p.n))
      tbase == IF use0 THEN 32768 ELSE 16384
      l1off == tbase + 4 * idx - 16384          \* offset into the device [0x4000, 0xC000)
      l2off == 49152 - 16384 + 4 * ToNat(ExtractW(mva, 19, 12))
      d1 == L1Desc(p)  d2 == L2Desc(p)
      bytes(off, d) == [k \in 1..4 |-> <<1, off + k - 1, Byte(d, k - 1)>>]
  IN [devs |-> <<[b |-> <<0, 16384>>, n |-> 36864]>>, base |-> <<ZeroBase>>, w |-> bytes(l1off, d1) \o bytes(l2off, d2)]
S(p) ==
  [R |-> [r \in RNames |-> Zero], cpsr |-> <<0, IF p.priv THEN 19 ELSE 16>>, spsr |-> [m \in SpsrNames |-> Zero], elr |-> Zero,
   sys |-> [SCTLR |-> MkWordBits(<< <<0, p.m>>, <<29, p.afe>>, <<28, 1>> >>), SCR |-> Zero, HCR |-> Zero, HSCTLR |-> Zero,
            VBAR |-> Zero, MVBAR |-> Zero, HVBAR |-> Zero, DFSR |-> Zero, DFAR |-> Zero,
            TTBCR |-> <<0, p.n + 16 * p.pd0 + 32 * p.pd1>>, TTBR0 |-> <<0, 32768>>, TTBR1 |-> <<0, 16384>>,
            DACR |-> LSLw(<<0, p.dacr>>, 2 * (IF p.kind = "super" THEN 0 ELSE p.dom)), PRRR |-> <<0, 43690>>, NMRR |-> Zero,
            FCSEIDR |-> <<p.pid * 512, 0>>],
   mem |-> MemFor(p), ev |-> [evreg |-> 0, wfe |-> 0, wfi |-> 0],
   cfg |-> [arch |-> 7, pmsa |-> FALSE, sec |-> TRUE, virt |-> FALSE, lpae |-> FALSE]]

Init == sc = [stage |-> 0]
Pick1 == sc.stage = 0 /\ \E kind \in Kinds, ap \in 0..7, dacr \in 0..3, afe \in {0, 1}, m \in {0, 1} :
           sc' = [stage |-> 1, kind |-> kind, ap |-> ap, dacr |-> dacr, afe |-> afe, m |-> m]
Pick2 == sc.stage = 1 /\ \E n \in (IF FULL THEN 0..7 ELSE {0, 2, 7}), pd0 \in {0, 1}, pd1 \in {0, 1}, pid \in {0, 5},
                            i1 \in (IF FULL THEN {0, 1, 31, 33, 1023, 1025, 4095} ELSE {0, 33, 4095}), priv \in BOOLEAN, wr \in BOOLEAN, dom \in {0, 9} :
           sc' = [sc EXCEPT !.stage = 2] @@ [n |-> n, pd0 |-> pd0, pd1 |-> pd1, pid |-> pid, i1 |-> i1, i2 |-> 3, off |-> 291,
                                             priv |-> priv, wr |-> wr, dom |-> dom]
Next == Pick1 \/ Pick2
Spec == Init /\ [][Next]_vars
Done == sc.stage = 2

T == TranslateV(X0(S(sc)), VA(sc), sc.priv, sc.wr, 4, TRUE)
MVA == IF Slice(VA(sc), 31, 25) = 0 THEN InsertW(VA(sc), 31, 25, <<0, sc.pid>>) ELSE VA(sc)
Use0 == sc.n = 0 \/ IsZeroW(LSRw(MVA, 32 - sc.n))
Disabled == IF Use0 THEN sc.pd0 = 1 ELSE sc.pd1 = 1
Dom == IF sc.kind = "super" THEN 0 ELSE sc.dom
Level == IF sc.kind \in {"l1fault", "section", "super"} THEN 1 ELSE 2
\* the property: which fault, in priority order translation -> access flag -> domain -> permission
APeff == IF sc.afe = 1 THEN (sc.ap \div 2) * 2 + 1 ELSE sc.ap
PermDenied == CASE APeff = 0 -> TRUE [] APeff = 1 -> ~sc.priv [] APeff = 2 -> (~sc.priv) /\ sc.wr [] APeff = 3 -> FALSE
                [] APeff = 4 -> FALSE [] APeff = 5 -> (~sc.priv) \/ sc.wr [] APeff = 6 -> sc.wr [] APeff = 7 -> sc.wr
Expected ==
  IF sc.m = 0 THEN "flat"
  ELSE IF Disabled THEN "TRANSLATION1"
  ELSE IF sc.kind = "l1fault" THEN "TRANSLATION1"
  ELSE IF sc.kind = "l2fault" THEN "TRANSLATION2"
  ELSE IF sc.afe = 1 /\ sc.ap % 2 = 0 THEN (IF Level = 1 THEN "ACCESS_FLAG1" ELSE "ACCESS_FLAG2")
  ELSE IF sc.dacr = 0 THEN (IF Level = 1 THEN "DOMAIN1" ELSE "DOMAIN2")
  ELSE IF sc.dacr = 3 THEN "ok"
  ELSE IF sc.dacr = 2 \/ (sc.ap = 4 /\ sc.afe = 0) THEN "unpredictable"      \* reserved DACR field / reserved AP encoding
  ELSE IF PermDenied THEN (IF Level = 1 THEN "PERMISSION1" ELSE "PERMISSION2") ELSE "ok"
FSOf(e) == CASE e = "TRANSLATION1" -> 5 [] e = "TRANSLATION2" -> 7 [] e = "ACCESS_FLAG1" -> 3 [] e = "ACCESS_FLAG2" -> 6
             [] e = "DOMAIN1" -> 9 [] e = "DOMAIN2" -> 11 [] e = "PERMISSION1" -> 13 [] e = "PERMISSION2" -> 15
\* expected physical address by block size (plain arithmetic on the offset inside the block)
BlockBits == CASE sc.kind = "section" -> 20 [] sc.kind = "super" -> 24 [] sc.kind = "large" -> 16 [] sc.kind = "small" -> 12 [] OTHER -> 0
ExpPA == WOr(OutBase(sc.kind), WAnd(MVA, WNot(TopMask(32 - BlockBits))))
OutcomeOK == Done =>
  CASE Expected = "flat" -> Ok(T.x) /\ T.pa = MVA
    [] Expected = "ok" -> Ok(T.x) /\ ~T.x.unp /\ T.pa = ExpPA /\ T.ext = (IF sc.kind = "super" THEN 0 ELSE 0)
    [] Expected = "unpredictable" -> T.x.unp
    [] OTHER -> /\ T.x.ab.t = "dabort"
                /\ Slice(T.x.s.sys.DFSR, 3, 0) + 16 * Bit(T.x.s.sys.DFSR, 10) = FSOf(Expected)
                /\ Bit(T.x.s.sys.DFSR, 11) = (IF sc.wr THEN 1 ELSE 0)
                /\ T.x.s.sys.DFAR = MVA
                /\ ((Expected \in {"DOMAIN1", "DOMAIN2", "PERMISSION1", "PERMISSION2", "TRANSLATION2", "ACCESS_FLAG2"}) =>
                       Slice(T.x.s.sys.DFSR, 7, 4) = Dom)
=============================================================================
