SPECIFICATION Spec
CONSTANTS DEPTH = 2
          GEN = FALSE
INVARIANT SizeConst
INVARIANT ReadOK
INVARIANT FlatOK
INVARIANT DevOK
INVARIANT Emit
PROPERTY Footprint
CHECK_DEADLOCK FALSE
