------------------------------- MODULE MC_Cond -------------------------------
(* C05/C08 on the spec: (a) all 16 x 16 (cond, NZCV): pseudocode formulation = literal
   table; (b) the operational ITAdvance machine started from IT fc,mask yields exactly
   the declarative pattern for every legal (fc, mask) and retires after ITLen steps. *)
EXTENDS Cond, Integers, TLC
VARIABLES cond, fc, mask, it, k
vars == <<cond, fc, mask, it, k>>
Init == cond = -1 /\ fc = -1 /\ mask = 0 /\ it = 0 /\ k = 0
PickCond == cond = -1 /\ fc = -1 /\ cond' \in 0..15 /\ UNCHANGED <<fc, mask, it, k>>
PickIT   == cond = -1 /\ fc = -1 /\ \E f \in 0..15, m \in 1..15 :
               ITLegal(f, m) /\ fc' = f /\ mask' = m /\ it' = f * 16 + m /\ k' = 1 /\ cond' = cond
Advance  == fc # -1 /\ InITBlock(it) /\ it' = ITAdvance(it) /\ k' = k + 1 /\ UNCHANGED <<cond, fc, mask>>
Next == PickCond \/ PickIT \/ Advance
Spec == Init /\ [][Next]_vars

CondTableOK == cond # -1 => \A f \in 0..15 : ConditionHolds(cond, f) = CondRow(cond, f)
\* while in the block the condition of the k-th instruction is the pattern's
ITCondOK  == (fc # -1 /\ k \in 1..ITLen(mask)) => (InITBlock(it) /\ ITCond(it) = ITPattern(fc, mask)[k])
ITLastOK  == (fc # -1 /\ k \in 1..ITLen(mask)) => (LastInITBlock(it) <=> k = ITLen(mask))
ITRetires == (fc # -1 /\ k = ITLen(mask) + 1) => it = 0
ITNoOverrun == fc # -1 => k <= ITLen(mask) + 1
ITInverse == (fc # -1 /\ k \in 1..ITLen(mask)) => ITCond(it) \in {fc, IF fc % 2 = 0 THEN fc + 1 ELSE fc - 1}
=============================================================================
