SPECIFICATION Spec
CONSTANTS GEN = FALSE
INVARIANT OutcomeOK
INVARIANT Emit
CHECK_DEADLOCK FALSE
