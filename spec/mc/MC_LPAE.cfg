SPECIFICATION Spec
INVARIANT OutcomeOK
CHECK_DEADLOCK FALSE
