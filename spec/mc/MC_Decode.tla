------------------------------ MODULE MC_Decode ------------------------------
(***************************************************************************)
(* C06 / C07 on the spec: the decode function is TOTAL and well-formed on  *)
(* a skeleton of the instruction space that contains every value of the    *)
(* class-selecting fields: ARM bits 27:20 x 7:4 x cond in {AL, 1111} with  *)
(* three fillings of the remaining bits; every 16-bit Thumb halfword       *)
(* sampled by its top 10 bits x 3 fillings x IT position; 32-bit Thumb     *)
(* hw1<15:4> x hw2<15:12> x 3 fillings.  Every result is a record with a   *)
(* known family k, an encoding name, an `unp` flag, and (when executable)  *)
(* every operand field its family's semantics reads: Exec on a fixed state *)
(* must evaluate without error for every executable, predictable result.   *)
(***************************************************************************)
EXTENDS Props
CONSTANTS T16ALL,                       \* TRUE: every one of the 2^16 halfwords (thorough tier); FALSE: top 10 bits x 3 fillings
          MODES                         \* processor modes of the pre-state (16 = User, 19 = Supervisor)
VARIABLES sc
vars == <<sc>>
MkWordBits(pairs) == LET RECURSIVE f(_) f(k) == IF k = 0 THEN Zero ELSE SetBitW(f(k - 1), pairs[k][1], pairs[k][2]) IN f(Len(pairs))
Fill == {0, 1, 2}
FillBits(f, mask) == CASE f = 0 -> Zero [] f = 1 -> mask [] f = 2 -> WAnd(mask, <<21845, 43690>>)
Init == sc = [stage |-> 0]
PickARM == sc.stage = 0 /\ \E a \in 0..255, b \in 0..15, c \in {14, 15, 0}, f \in Fill, md \in MODES :
             sc' = [stage |-> 1, iset |-> 0, len |-> 32, it |-> 0, md |-> md,
                    w |-> WOr(WOr(<<c * 4096 + a * 16, b * 16>>, Zero), FillBits(f, <<15, 65295>>))]
PickT16 == sc.stage = 0 /\ \E a \in 0..1023, f \in (IF T16ALL THEN 0..63 ELSE Fill), it \in {0, 100, 72}, md \in MODES :
             /\ a \div 32 \notin {29, 30, 31}
             /\ sc' = [stage |-> 1, iset |-> 1, len |-> 16, it |-> it, md |-> md,
                       w |-> <<0, a * 64 + (IF T16ALL THEN f ELSE Lo(FillBits(f, <<0, 63>>)))>>]
PickT32 == sc.stage = 0 /\ \E a \in 0..4095, b \in 0..15, f \in Fill, md \in MODES :
             /\ a \div 128 \in {29, 30, 31}
             /\ sc' = [stage |-> 1, iset |-> 1, len |-> 32, it |-> 0, md |-> md,
                       w |-> WOr(<<a * 16, b * 4096>>, FillBits(f, <<15, 4095>>))]
Next == PickARM \/ PickT16 \/ PickT32
Spec == Init /\ [][Next]_vars
Done == sc.stage = 1
Kinds == Executable \cup {"undef", "unspec", "unpred", "unimpl", "nopish"}
DX == [it |-> sc.it, arch |-> 7, hyp |-> FALSE]
I == Decode(sc.iset, sc.w, sc.len, DX)
S0 == [R |-> [r \in RNames |-> IF r = "PC" THEN <<0, 64>> ELSE <<0, 96>>], cpsr |-> <<(IF sc.iset = 1 THEN (sc.it % 4) * 512 ELSE 0), (IF sc.iset = 1 THEN 32 + (sc.it \div 4) * 1024 ELSE 0) + sc.md>>,
       spsr |-> [m \in SpsrNames |-> <<0, 16>>], elr |-> Zero,
       sys |-> [SCTLR |-> MkWordBits(<< <<22, 1>> >>), SCR |-> Zero, HCR |-> Zero, HSCTLR |-> Zero, VBAR |-> Zero, MVBAR |-> Zero,
                HVBAR |-> Zero, NSACR |-> Zero, CPACR |-> <<0, 3>>, DFSR |-> Zero, DFAR |-> Zero, MPUIR |-> Zero],
       mem |-> [devs |-> <<[b |-> Zero, n |-> 256]>>, base |-> <<[j \in 1..256 |-> j % 256]>>, w |-> <<>>],
       ev |-> [evreg |-> 0, wfe |-> 0, wfi |-> 0],
       cfg |-> [arch |-> 7, pmsa |-> TRUE, sec |-> TRUE, virt |-> FALSE, lpae |-> FALSE, v7r |-> FALSE]]
WellFormed == Done => (I.k \in Kinds /\ I.enc \in STRING /\ I.unp \in BOOLEAN)
\* the semantics of every executable, predictable result can be evaluated (all operand fields present, in range)
Executes == (Done /\ I.k \in Executable /\ ~I.unp) =>
              LET r == StepF(S0, [n |-> "Exec", w |-> sc.w, len |-> sc.len]) IN r.out \in STRING /\ RegsTypeOK(r.s)
\* C10 / C18 / C19 on the specification: every step StepF specifies exactly has an allowed outcome, a well-typed
\* post-state, and (from User mode) stays confined
SpecOK == Done => SpecStepOK(S0, [n |-> "Exec", w |-> sc.w, len |-> sc.len])
=============================================================================
