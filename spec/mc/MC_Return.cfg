SPECIFICATION Spec
INVARIANT EntrySavesIT
INVARIANT RoundTrip
CHECK_DEADLOCK FALSE
