SPECIFICATION Spec
INVARIANT CondTableOK
INVARIANT ITCondOK
INVARIANT ITLastOK
INVARIANT ITRetires
INVARIANT ITNoOverrun
INVARIANT ITInverse
CHECK_DEADLOCK FALSE
