-------------------------------- MODULE MC_IT --------------------------------
(***************************************************************************)
(* C08 on the spec: the whole machine (Arm!StepF with real fetch from      *)
(* memory, Exc!TakePhysicalIRQ, exception return) running                  *)
(*        IT<x><y><z> fc ; I1 ; I2 ; I3 ; I4 ; I5                          *)
(* for every legal (firstcond, mask) x NZCV, where Ik increments register   *)
(* Rk (16-bit ADDS encoding: must not set flags inside the block; variant  *)
(* menus use the 32-bit ADD.W and a flag-setting CMP), with an IRQ taken   *)
(* before any instruction and returned from by SUBS PC, LR, #4.            *)
(* Property (declarative, from the IT instruction's description): exactly  *)
(* the first ITLen(mask) instructions are conditional, the k-th under      *)
(* ITPattern(fc, mask)[k]; so at the end Rk = 1 iff k > len or its         *)
(* condition held; flags unchanged by the block's ADDs; IT state empty.    *)
(***************************************************************************)
EXTENDS Arm, Json
CONSTANTS GEN, FLAGSET, MENUS
VARIABLES s, sc, irqdone, steps
vars == <<s, sc, irqdone, steps>>
MkWordBits(pairs) == LET RECURSIVE f(_) f(k) == IF k = 0 THEN Zero ELSE SetBitW(f(k - 1), pairs[k][1], pairs[k][2]) IN f(Len(pairs))

CodeBase == 64
\* menu m: which instruction forms fill slots 1..5:  "a" = ADDS Rk,#1 (16-bit), "w" = ADD.W Rk,Rk,#1 (32-bit), "c" = CMP R6,#0 then nothing
\*         "s" = SVC #0 (handler at VBAR+8: MOVS PC, LR), "l" = LDR R0,[R7] with R7 = 1 and SCTLR.A = 1: alignment fault, the handler
\*         (VBAR+16: MOV R7,#192 ; SUBS PC,LR,#8) repairs R7 and re-executes the LDR under the restored IT state
Menu(m) == CASE m = 0 -> <<"a", "a", "a", "a", "a">> [] m = 1 -> <<"w", "a", "w", "a", "a">> [] m = 2 -> <<"a", "c", "a", "a", "a">>
             [] m = 3 -> <<"a", "s", "a", "a", "a">> [] m = 4 -> <<"s", "a", "a", "s", "a">> [] m = 5 -> <<"a", "l", "a", "a", "a">>
             [] m = 6 -> <<"a", "a", "l", "s", "a">> [] m = 7 -> <<"a", "m", "a", "a", "a">> [] m = 8 -> <<"m", "a", "a", "m", "a">>
SlotBytes(form, k) ==
  CASE form = "a" -> <<1, 48 + k>>                                   \* 0x3k01  ADDS Rk, #1
    [] form = "w" -> <<k, 241, 1, k>>                                \* 0xF10k 0k01  ADD.W Rk, Rk, #1
    [] form = "c" -> <<0, 46>>                                       \* 0x2E00  CMP R6, #0
    [] form = "s" -> <<0, 223>>                                      \* 0xDF00  SVC #0
    [] form = "l" -> <<56, 104>>                                     \* 0x6838  LDR R0, [R7]
    [] form = "m" -> <<136, 243, 0, 136>>                            \* 0xF388 8800  MSR APSR_nzcvq, R8   (R8 = 0x66000000: NZCV := 0110;
                                                                     \*   bits 26:24 of R8 are set and must NOT reach CPSR.IT<1:0> / J)
RECURSIVE Cat(_, _)
Cat(seqs, k) == IF k > Len(seqs) THEN <<>> ELSE seqs[k] \o Cat(seqs, k + 1)
Program(fc, mask, m) == <<fc * 16 + mask, 191>> \o Cat([k \in 1..5 |-> SlotBytes(Menu(m)[k], k)], 1)     \* 0xBFxx IT
ProgLen(m) == 2 + (CASE m = 1 -> 14 [] m = 7 -> 12 [] m = 8 -> 14 [] OTHER -> 10)
\* IRQ vector (VBAR = 128, offset 24): SUBS PC, LR, #4 (ARM, E25EF004), handler runs in ARM state (SCTLR.TE = 0)
\* 136: E1B0F00E MOVS PC,LR (SVC) ; 140: 0 ; 144: E3A070C0 MOV R7,#192 ; 148: E25EF008 SUBS PC,LR,#8 (data abort) ; 152: E25EF004 (IRQ)
Handlers == <<14, 240, 176, 225,  0, 0, 0, 0,  192, 112, 160, 227,  8, 240, 94, 226,  4, 240, 94, 226>>
HasL(m) == \E k \in 1..5 : Menu(m)[k] = "l"
MemImage(fc, mask, m) ==
  LET prog == Program(fc, mask, m) IN
  [j \in 1..256 |-> IF j - 1 >= CodeBase /\ j - 1 < CodeBase + Len(prog) THEN prog[j - CodeBase]
                    ELSE IF j - 1 >= 136 /\ j - 1 < 156 THEN Handlers[j - 136] ELSE 0]
S0(fc, mask, fl, m) ==
  [R |-> [r \in RNames |-> IF r = "PC" THEN <<0, CodeBase>> ELSE IF r \in {"R6usr", "R7usr"} THEN <<0, 1>> ELSE IF r = "R8usr" THEN <<26112, 0>> ELSE Zero],
   cpsr |-> WOr(<<fl * 4096, 32 + 16>>, Zero),                       \* NZCV = fl, T = 1, mode User, I = 0
   spsr |-> [mm \in SpsrNames |-> Zero], elr |-> Zero,
   sys |-> [SCTLR |-> MkWordBits(<< <<22, 1>>, <<1, IF HasL(m) THEN 1 ELSE 0>> >>), SCR |-> Zero, HCR |-> Zero, HSCTLR |-> Zero, VBAR |-> <<0, 128>>, MVBAR |-> Zero,
            HVBAR |-> Zero, NSACR |-> Zero, DFSR |-> Zero, DFAR |-> Zero, MPUIR |-> Zero],
   mem |-> [devs |-> <<[b |-> Zero, n |-> 256]>>, base |-> <<MemImage(fc, mask, m)>>, w |-> <<>>],
   ev |-> [evreg |-> 0, wfe |-> 0, wfi |-> 0],
   cfg |-> [arch |-> 7, pmsa |-> TRUE, sec |-> TRUE, virt |-> FALSE, lpae |-> FALSE, irqvec |-> Zero, fiqvec |-> Zero]]

Init == s = <<>> /\ sc = [stage |-> 0] /\ irqdone = FALSE /\ steps = 0
Pick == /\ sc.stage = 0
        /\ \E fc \in 0..14, mask \in 1..15, fl \in FLAGSET, m \in MENUS, irqat \in 0..7 :
             /\ ITLegal(fc, mask)
             /\ sc' = [stage |-> 1, fc |-> fc, mask |-> mask, fl |-> fl, m |-> m, irqat |-> irqat]
             /\ s' = S0(fc, mask, fl, m)
        /\ UNCHANGED <<irqdone, steps>>
EndPC == <<0, CodeBase + ProgLen(sc.m)>>
InProgram == Lo(s.R.PC) >= CodeBase /\ Lo(s.R.PC) < CodeBase + ProgLen(sc.m) /\ Hi(s.R.PC) = 0
\* irqat = k: the IRQ is taken just before the k-th program step (0 = never)
TakeIRQ == /\ sc.stage = 1 /\ ~irqdone /\ sc.irqat # 0 /\ steps = sc.irqat - 1 /\ InProgram
           /\ s' = TakePhysicalIRQ(s) /\ irqdone' = TRUE /\ UNCHANGED <<sc, steps>>
Step == /\ sc.stage = 1 /\ (irqdone \/ sc.irqat = 0 \/ steps # sc.irqat - 1 \/ ~InProgram)
        /\ s.R.PC # EndPC
        /\ LET r == StepF(s, [n |-> "Step"]) IN
           /\ r.exact /\ r.out \in {"completed", "svc", "dabort"}
           /\ s' = [r.s EXCEPT !.mem = Normalize(@)]
        /\ steps' = IF InProgram THEN steps + 1 ELSE steps
        /\ UNCHANGED <<sc, irqdone>>
\* a finished run stutters; any other state without a successor is a deadlock (the specification could not step)
Finished == sc.stage = 1 /\ s.R.PC = EndPC /\ UNCHANGED vars
Next == Pick \/ TakeIRQ \/ Step \/ Finished
Spec == Init /\ [][Next]_vars

-----------------------------------------------------------------------------
Running == sc.stage = 1
AtEnd == Running /\ s.R.PC = EndPC /\ PM(s.cpsr) = USR
BLen == ITLen(sc.mask)
Pat == ITPattern(sc.fc, sc.mask)
\* flags seen by slot k: the initial flags, unless the menu's CMP R6,#0 (R6 = 1 -> NZCV = 0010) ran before it
\* slots that write the flags when they execute: "c" (CMP R6,#0 with R6 = 1 -> 0010) and "m" (MSR APSR_nzcvq, R8 -> 0110)
FlagVal(form) == IF form = "c" THEN 2 ELSE 6
RECURSIVE FlagsAt(_)
FlagsAt(k) == IF k = 1 THEN sc.fl
              ELSE LET f == FlagsAt(k - 1)  form == Menu(sc.m)[k - 1] IN
                   IF form \in {"c", "m"} /\ (k - 1 > BLen \/ ConditionHolds(Pat[k - 1], f)) THEN FlagVal(form) ELSE f
Executes(k) == k > BLen \/ ConditionHolds(Pat[k], FlagsAt(k))
Expected(k) == IF Menu(sc.m)[k] \in {"c", "s", "l", "m"} THEN 0 ELSE IF Executes(k) THEN 1 ELSE 0
\* IT state register while slot k is the next instruction: k - 1 advances of firstcond:mask
RECURSIVE ITAt(_)
ITAt(k) == IF k = 1 THEN sc.fc * 16 + sc.mask ELSE ITAdvance(ITAt(k - 1))
SlotAt(a) == CHOOSE k \in 1..6 : CodeBase + 2 * k = a           \* 16-bit menus only: slot k sits at CodeBase + 2k
LastSvcSlot == IF \E k \in 1..5 : Menu(sc.m)[k] = "s" /\ Executes(k)
               THEN CHOOSE k \in 1..5 : Menu(sc.m)[k] = "s" /\ Executes(k) /\ \A j \in (k + 1)..5 : ~(Menu(sc.m)[j] = "s" /\ Executes(j))
               ELSE 0

\* never stuck: every state inside the program can step exactly (fetch, decode, execute are specified)
Progress == (Running /\ s.R.PC # EndPC) => ENABLED (Step \/ TakeIRQ)
FinalRegs == AtEnd => \A k \in 1..5 : Rget(s, k) = <<0, Expected(k)>>
ITRetired == AtEnd => PIT(s.cpsr) = 0
\* flags at the end: the unconditional 16-bit ADDS after the block sets them; with 5 = BLen + something it is slot BLen+1..5
\* inside the block the 16-bit ADDS encodings must leave NZCV alone:
FlagsKeptInBlock == (Running /\ InProgram /\ PM(s.cpsr) = USR /\ InITBlock(PIT(s.cpsr))) =>
                       PNZCV(s.cpsr) = FlagsAt(IF sc.m = 1 THEN 5 ELSE (Lo(s.R.PC) - CodeBase) \div 2)
\* the condition the next block instruction will execute under is the pattern's
CondOK == (Running /\ InProgram /\ PM(s.cpsr) = USR /\ InITBlock(PIT(s.cpsr))) =>
            \E k \in 1..BLen : ITCond(PIT(s.cpsr)) = Pat[k] /\ (LastInITBlock(PIT(s.cpsr)) <=> k = BLen)
\* exception entry saves the IT state and clears it
IRQSavesIT == (Running /\ PM(s.cpsr) # USR) => PIT(s.cpsr) = 0
\* a supervisor call is taken exactly when its slot's condition holds; it saves the IT state *advanced* past the SVC and its own return address
SvcOK == /\ (Running /\ PM(s.cpsr) = SVC) =>
              LET k == SlotAt(Lo(s.R.LRsvc)) - 1 IN
                /\ Menu(sc.m)[k] = "s" /\ Executes(k)
                /\ PIT(s.spsr.svc) = ITAt(k + 1) /\ PM(s.spsr.svc) = USR
         /\ AtEnd => s.R.LRsvc = (IF LastSvcSlot = 0 THEN Zero ELSE <<0, CodeBase + 2 * LastSvcSlot + 2>>)
\* a data abort saves the IT state of the aborting instruction itself (not advanced) and LR = instruction + 8; the LDR is re-executed
AbortOK == /\ (Running /\ PM(s.cpsr) = ABT) =>
                LET k == SlotAt(Lo(s.R.LRabt) - 8) IN
                  Menu(sc.m)[k] = "l" /\ Executes(k) /\ PIT(s.spsr.abt) = ITAt(k) /\ PM(s.spsr.abt) = USR
           /\ AtEnd => Rget(s, 7) = (IF \E k \in 1..5 : Menu(sc.m)[k] = "l" /\ Executes(k) THEN <<0, 192>> ELSE <<0, 1>>)
Emit == (GEN /\ AtEnd) => PrintT(ToJson(sc))
=============================================================================
