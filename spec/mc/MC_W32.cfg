SPECIFICATION Spec
CONSTANTS SMAX = 255
          YSTEP = 1
INVARIANT AddOK
INVARIANT LogicOK
INVARIANT ShiftOK
INVARIANT SliceOK
INVARIANT MulDivOK
INVARIANT QuadOK
CHECK_DEADLOCK FALSE
