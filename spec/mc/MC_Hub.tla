------------------------------- MODULE MC_Hub --------------------------------
(***************************************************************************)
(* C16 on the spec: every history of <= DEPTH reads/writes of sizes        *)
(* 1/2/4/8 at every address around small device layouts (odd sizes,        *)
(* adjacent, gapped, overlapping with first-match priority, one layout at  *)
(* the top of the address space).  The operational model is Hub.tla; the   *)
(* ghost `flat` is the property's own reading: physical memory is a flat   *)
(* map address -> byte over the addresses covered by some device, zero     *)
(* elsewhere.  With GEN = TRUE behaviours are printed for replay on the    *)
(* real MemoryControllerHub.                                               *)
(***************************************************************************)
EXTENDS Hub, Json
CONSTANTS DEPTH, GEN
VARIABLES lay, mem, flat, gdev, step, last, hist, crossedYet
vars == <<lay, mem, flat, gdev, step, last, hist, crossedYet>>

\* layouts: sequences of <<begin (small Nat or offset from 2^32 - 16 when hi), size>>
Layouts == << << <<8, 3>> >>,                                   \* one odd-sized device
              << <<8, 3>>, <<11, 2>> >>,                         \* adjacent
              << <<8, 2>>, <<13, 5>> >>,                         \* gap
              << <<8, 8>>, <<10, 3>> >>,                         \* overlapping: the first one wins
              << <<10, 3>>, <<8, 8>> >>,                         \* overlapping, small one first
              << <<8, 1>>, <<9, 1>>, <<10, 8>> >> >>             \* three devices, two of one byte
HiLayout == << <<8, 8>> >>                                       \* [2^32-8, 2^32): placed by Addr() below
Sizes == {1, 2, 4, 8}
\* address space of an instance: lo = 0 means addresses are small numbers, hi = TRUE adds 2^32 - 16
Addr(hi, a) == IF hi THEN <<MM, MM - 15 + a>> ELSE <<0, a>>
MkMem(hi, L) == [devs |-> [d \in 1..Len(L) |-> [b |-> Addr(hi, L[d][1]), n |-> L[d][2]]],
                 base |-> [d \in 1..Len(L) |-> [j \in 1..L[d][2] |-> 0]], w |-> <<>>]
AddrRange(L) == LET lo == L[1][1] hi == L[Len(L)][1] + L[Len(L)][2] IN 6..20

Init == lay = <<FALSE, <<>>>> /\ mem = [devs |-> <<>>, base |-> <<>>, w |-> <<>>] /\ flat = <<>> /\ gdev = <<>> /\ step = 0
        /\ last = [k |-> "none"] /\ hist = <<>> /\ crossedYet = FALSE
Pick == /\ step = 0 /\ lay[2] = <<>>
        /\ \E hi \in BOOLEAN : \E L \in (IF hi THEN {HiLayout} ELSE {Layouts[k] : k \in 1..Len(Layouts)}) :
             /\ lay' = <<hi, L>>
             /\ mem' = MkMem(hi, L)
             /\ flat' = [a \in 0..31 |-> 0]
             /\ gdev' = [d \in 1..Len(L) |-> [j \in 1..L[d][2] |-> 0]]
             /\ hist' = IF GEN THEN <<[a |-> "layout", hi |-> hi, devs |-> L]>> ELSE <<>>
        /\ UNCHANGED <<step, last, crossedYet>>
Overlapping == \E d \in 1..Len(lay[2]), e \in 1..Len(lay[2]) :
                 d < e /\ lay[2][d][1] < lay[2][e][1] + lay[2][e][2] /\ lay[2][e][1] < lay[2][d][1] + lay[2][d][2]
Covered(a) == \E d \in 1..Len(lay[2]) : a >= lay[2][d][1] /\ a < lay[2][d][1] + lay[2][d][2]
\* the device that serves address a (first match), as the property words it
FirstCover(a) == CHOOSE d \in 1..Len(lay[2]) : /\ a >= lay[2][d][1] /\ a < lay[2][d][1] + lay[2][d][2]
                                              /\ \A e \in 1..(d - 1) : ~(a >= lay[2][e][1] /\ a < lay[2][e][1] + lay[2][e][2])
Crosses(a, sz) == Covered(a) /\ a + sz > lay[2][FirstCover(a)][1] + lay[2][FirstCover(a)][2]
Val(k, sz) == [i \in 1..sz |-> (16 * k + i) % 256]
Write(a, sz) ==
  /\ step < DEPTH /\ lay[2] # <<>>
  /\ LET r == HubWrite(mem, Addr(lay[1], a), Val(step + 1, sz))
         m2 == Normalize(r.mem)
     IN /\ mem' = m2
        /\ last' = [k |-> "write", a |-> a, sz |-> sz, dc |-> r.dc]
        /\ hist' = IF GEN THEN Append(hist, [a |-> "write", addr |-> a, sz |-> sz, bytes |-> Val(step + 1, sz),
                                            dc |-> {<<c[1], c[2]>> : c \in r.dc}, post |-> m2.base]) ELSE hist
  \* the flat reading of the property: an in-device, non-crossing write changes exactly [a, a+sz)
  /\ flat' = IF Covered(a) /\ ~Crosses(a, sz) THEN [x \in 0..31 |-> IF x >= a /\ x < a + sz THEN Val(step + 1, sz)[x - a + 1] ELSE flat[x]]
             ELSE flat
  \* the device reading: bytes [a - begin, a - begin + sz) of the FIRST device covering a, nothing else
  /\ gdev' = IF Covered(a) /\ ~Crosses(a, sz)
             THEN LET d == FirstCover(a)  o == a - lay[2][d][1] IN
                  [gdev EXCEPT ![d] = [j \in 1..lay[2][d][2] |-> IF j - 1 >= o /\ j - 1 < o + sz THEN Val(step + 1, sz)[j - o] ELSE gdev[d][j]]]
             ELSE gdev
  /\ crossedYet' = (crossedYet \/ Crosses(a, sz))
  /\ step' = step + 1 /\ UNCHANGED lay
Read(a, sz) ==
  /\ step < DEPTH /\ lay[2] # <<>>
  /\ LET r == HubRead(mem, Addr(lay[1], a), sz) IN
     /\ last' = [k |-> "read", a |-> a, sz |-> sz, bytes |-> r.bytes, crossed |-> r.crossed]
     /\ hist' = IF GEN THEN Append(hist, [a |-> "read", addr |-> a, sz |-> sz, bytes |-> r.bytes,
                                         crossed |-> r.crossed, post |-> mem.base]) ELSE hist
  /\ step' = step + 1 /\ UNCHANGED <<lay, mem, flat, gdev, crossedYet>>
Next == Pick \/ \E a \in 6..20, sz \in Sizes : Write(a, sz) \/ Read(a, sz)
Spec == Init /\ [][Next]_vars

\* no device ever changes size
SizeConst == \A d \in 1..Len(mem.devs) : Len(mem.base[d]) = mem.devs[d].n
\* a read of mapped, non-crossing bytes returns the flat contents; unmapped reads return zero
ReadOK == last.k = "read" =>
   /\ (~Covered(last.a) => last.bytes = [i \in 1..last.sz |-> 0])
   /\ ((Covered(last.a) /\ ~Crosses(last.a, last.sz) /\ ~crossedYet) =>
          /\ ~last.crossed
          /\ LET d == FirstCover(last.a)  o == last.a - lay[2][d][1] IN last.bytes = [i \in 1..last.sz |-> gdev[d][o + i]]
          /\ (~Overlapping => last.bytes = [i \in 1..last.sz |-> flat[last.a + i - 1]]))
   /\ (Crosses(last.a, last.sz) <=> last.crossed)
\* the device contents are exactly the flat map seen through the first-match rule; a history
\* containing a boundary-crossing write is exempt (its in-range bytes may or may not be written)
DevOK == (~crossedYet) => mem.base = gdev
FlatOK == (~crossedYet /\ ~Overlapping) => \A d \in 1..Len(mem.devs) : \A j \in 1..mem.devs[d].n :
            LET a == lay[2][d][1] + j - 1 IN FirstCover(a) = d => mem.base[d][j] = flat[a]
\* a write changes only cells of the first matching device inside [off, off+sz)
WriteStep == last'.k = "write" /\ step' = step + 1
Footprint == [][ WriteStep =>
                   LET a == last'.a  sz == last'.sz IN
                   \A d \in 1..Len(mem.devs) : \A j \in 1..mem.devs[d].n :
                      mem'.base[d][j] # mem.base[d][j] =>
                         (Covered(a) /\ d = FirstCover(a) /\ (j - 1) >= a - lay[2][d][1] /\ (j - 1) < a - lay[2][d][1] + sz) ]_vars
Emit == (GEN /\ step = DEPTH) => PrintT(ToJson(hist))
=============================================================================
