------------------------------- MODULE MC_PSR --------------------------------
(***************************************************************************)
(* C12 (PSR masks) on the spec: CPSRWriteByInstr / SPSRWriteByInstr        *)
(* against the property's statement, over byte mask (16) x exception-      *)
(* return flag x current mode x new mode value (all 32) x secure /         *)
(* non-secure x NMFI x SCR.AW/FW x NSACR.RFR x extensions; the old CPSR    *)
(* and the written value differ in every field (old = ~value).             *)
(***************************************************************************)
EXTENDS PSR
CONSTANTS FULL
VARIABLES sc
vars == <<sc>>
Exts == {<<FALSE, FALSE>>, <<TRUE, FALSE>>, <<TRUE, TRUE>>}
MkWordBits(pairs) == LET RECURSIVE f(_) f(k) == IF k = 0 THEN Zero ELSE SetBitW(f(k - 1), pairs[k][1], pairs[k][2]) IN f(Len(pairs))
Init == sc = [stage |-> 0]
Pick1 == sc.stage = 0 /\ \E ext \in Exts, ns \in {0, 1}, nmfi \in {0, 1}, aw \in {0, 1}, fw \in {0, 1}, rfr \in {0, 1} :
          \E m \in GoodModes([sec |-> ext[1], virt |-> ext[2]]) :
            /\ (m = HYP => ns = 1) /\ ((~ext[1]) => (ns = 0 /\ aw = 0 /\ fw = 0 /\ rfr = 0))
            /\ sc' = [stage |-> 1, ext |-> ext, ns |-> ns, nmfi |-> nmfi, aw |-> aw, fw |-> fw, rfr |-> rfr, mode |-> m]
Pick2 == sc.stage = 1 /\ \E mask \in (IF FULL THEN 0..15 ELSE {0, 1, 2, 4, 8, 9, 3, 15}), ret \in BOOLEAN,
                            vm \in (IF FULL THEN 0..31 ELSE {16, 17, 18, 19, 22, 23, 26, 27, 31, 0, 20, 21}), hi \in {0, 1} :
          sc' = [sc EXCEPT !.stage = 2] @@ [mask |-> mask, ret |-> ret, vm |-> vm, hi |-> hi]
Next == Pick1 \/ Pick2
Spec == Init /\ [][Next]_vars
Done == sc.stage = 2

\* value: mode field vm, every other bit = hi; old CPSR: every other bit = 1 - hi, mode = current
V   == IF sc.hi = 1 THEN <<MM, (MM - 31) + sc.vm>> ELSE <<0, sc.vm>>
Old == IF sc.hi = 1 THEN <<0, sc.mode>> ELSE <<MM, (MM - 31) + sc.mode>>
S == [R |-> [r \in RNames |-> Zero], cpsr |-> Old, spsr |-> [m \in SpsrNames |-> Old], elr |-> Zero,
      sys |-> [SCTLR |-> MkWordBits(<< <<27, sc.nmfi>> >>), SCR |-> MkWordBits(<< <<0, sc.ns>>, <<5, sc.aw>>, <<4, sc.fw>> >>),
               NSACR |-> MkWordBits(<< <<19, sc.rfr>> >>), HCR |-> Zero, HSCTLR |-> Zero, VBAR |-> Zero, MVBAR |-> Zero,
               HVBAR |-> Zero],
      cfg |-> [sec |-> sc.ext[1], virt |-> sc.ext[2]]]
W  == CPSRWriteByInstr(S, V, sc.mask, sc.ret)
N  == W.s.cpsr
Priv == sc.mode # USR
Same(hi, lo) == ExtractW(N, hi, lo) = ExtractW(Old, hi, lo)
Took(hi, lo) == ExtractW(N, hi, lo) = ExtractW(V, hi, lo)
Changed(hi, lo) == ~Same(hi, lo)

\* unprivileged code cannot alter A, I, F, M
UnprivOK == (Done /\ ~Priv) => (Same(8, 6) /\ Same(4, 0))
\* execution state bits (J, T, IT) change only on exception return
ExecStateOK == (Done /\ ~sc.ret) => (Same(26, 24) /\ Same(15, 10) /\ Same(5, 5))
\* a reserved / illegal mode number is never installed
NoBadMode == Done => LET m == PM(N) IN
   /\ ~BadMode(S.cfg, m)
   /\ (m # sc.mode => (m = sc.vm /\ Priv /\ BitOf(sc.mask, 0) = 1))
   /\ ((m # sc.mode /\ m = MON) => IsSecure(S))
   /\ ((m # sc.mode /\ m = HYP) => (sc.mode = MON /\ sc.ns = 1))   \* Hyp can only be entered from Monitor mode with SCR.NS = 1
   /\ ((m # sc.mode /\ m = FIQ /\ ~IsSecure(S)) => sc.rfr = 0)
   /\ ((sc.mode = HYP /\ m # HYP) => sc.ret)
\* NMFI: F is never set by an instruction; SCR.AW / FW gate A / F in Non-secure state without the virtualization extensions
NMFIOK == (Done /\ sc.nmfi = 1) => ~(Bit(Old, 6) = 0 /\ Bit(N, 6) = 1)
AWFWOK == (Done /\ sc.ext[1] /\ ~sc.ext[2] /\ ~IsSecure(S)) =>
   /\ (sc.aw = 0 => Same(8, 8))
   /\ (sc.fw = 0 => Same(6, 6))
\* byte-mask discipline: a field changes only if its byte is selected
MaskOK == Done =>
   /\ (BitOf(sc.mask, 3) = 0 => Same(31, 24))
   /\ (BitOf(sc.mask, 2) = 0 => Same(23, 16))
   /\ (BitOf(sc.mask, 1) = 0 => Same(15, 8))
   /\ (BitOf(sc.mask, 0) = 0 => Same(7, 0))
   /\ Same(23, 20)                                            \* reserved bits
\* what a permitted write does: selected, permitted fields take the new value
TakesOK == Done =>
   /\ (BitOf(sc.mask, 3) = 1 => Took(31, 27))
   /\ (BitOf(sc.mask, 2) = 1 => Took(19, 16))
   /\ (BitOf(sc.mask, 1) = 1 => Took(9, 9))
   /\ ((BitOf(sc.mask, 0) = 1 /\ Priv) => Took(7, 7))
   /\ ((sc.ret /\ BitOf(sc.mask, 0) = 1) => Took(5, 5))
   /\ ((sc.ret /\ BitOf(sc.mask, 1) = 1) => Took(15, 10))
   /\ ((sc.ret /\ BitOf(sc.mask, 3) = 1) => Took(26, 24))
\* SPSR writes: User/System have no SPSR; bad mode numbers are not stored
SP == SPSRWriteByInstr(S, V, sc.mask)
SpsrOK == Done =>
   /\ (sc.mode \in {USR, SYS} => (SP.unp /\ SP.s = S))
   /\ (sc.mode \notin {USR, SYS} =>
         LET p == SP.s.spsr[SpsrName(sc.mode)] IN
         /\ ~BadMode(S.cfg, PM(p)) \/ PM(p) = PM(Old)
         /\ \A m \in SpsrNames \ {SpsrName(sc.mode)} : SP.s.spsr[m] = S.spsr[m]
         /\ SP.s.cpsr = S.cpsr
         /\ (BitOf(sc.mask, 3) = 1 => ExtractW(p, 31, 24) = ExtractW(V, 31, 24))
         /\ (BitOf(sc.mask, 3) = 0 => ExtractW(p, 31, 24) = ExtractW(Old, 31, 24))
         /\ (BitOf(sc.mask, 1) = 1 => ExtractW(p, 15, 8) = ExtractW(V, 15, 8))
         /\ ExtractW(p, 23, 20) = ExtractW(Old, 23, 20))
=============================================================================
