SPECIFICATION Spec
CONSTANTS FULL = FALSE
INVARIANT UnprivOK
INVARIANT ExecStateOK
INVARIANT NoBadMode
INVARIANT NMFIOK
INVARIANT AWFWOK
INVARIANT MaskOK
INVARIANT TakesOK
INVARIANT SpsrOK
CHECK_DEADLOCK FALSE
