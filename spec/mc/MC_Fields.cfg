SPECIFICATION Spec
INVARIANT WellFormed
INVARIANT Disjoint
INVARIANT NonEmpty
CHECK_DEADLOCK FALSE
