SPECIFICATION Spec
CONSTANTS GEN = FALSE
          FULL = FALSE
INVARIANT ExactOK
INVARIANT TargetOK
INVARIANT ISetOK
INVARIANT LinkOK
INVARIANT AlignOK
INVARIANT ReadPCOK
INVARIANT FrameOK
INVARIANT Emit
CHECK_DEADLOCK FALSE
