------------------------------- MODULE MC_PMSA -------------------------------
(***************************************************************************)
(* C14 on the spec: PMSA.tla (the TranslateAddressP region loop and        *)
(* CheckPermission) against the property's own statement:                  *)
(*   - the deciding region is the HIGHEST-numbered enabled region whose    *)
(*     base/size and non-disabled sub-region cover the address;            *)
(*   - its AP field versus privilege and direction decides (prose table);  *)
(*   - with no region: background rule (SCTLR.BR, privileged only);        *)
(*   - a denied access leaves a Data Abort pending with DFSR.FS/WnR, DFAR. *)
(* Two regions (slots 2 and 9; 5 and 11 stay disabled) in nested and       *)
(* overlapping placements, probe addresses at every region and sub-region  *)
(* boundary +/- 1 and at 0 / 2^32 - 1.                                     *)
(***************************************************************************)
EXTENDS PMSA
CONSTANTS FULL
VARIABLES sc
vars == <<sc>>

Sys0 == [n \in {"SCTLR", "SCR", "HCR", "HSCTLR", "VBAR", "MVBAR", "HVBAR", "DFSR", "DFAR", "MPUIR"} \cup
              {DRSRn[k] : k \in 1..12} \cup {DRBARn[k] : k \in 1..12} \cup {DRACRn[k] : k \in 1..12} |-> Zero]
MkRSR(en, rsize, sd) == <<0, sd * 256 + rsize * 2 + en>>
MkS(p) ==
  LET sys1 == [Sys0 EXCEPT !["SCTLR"] = <<(IF p.br = 1 THEN 2 ELSE 0), p.m>>,          \* BR = bit 17, M = bit 0
                           !["MPUIR"] = <<0, 12 * 256>>,
                           !["DFSR"] = <<0, 4080>>,                                     \* stale status to be overwritten
                           ![DRSRn[3]] = MkRSR(1, p.ra.rsize, p.ra.sd), ![DRBARn[3]] = p.ra.base, ![DRACRn[3]] = <<0, p.apa * 256>>,
                           ![DRSRn[10]] = MkRSR(p.rb.en, p.rb.rsize, p.rb.sd), ![DRBARn[10]] = p.rb.base, ![DRACRn[10]] = <<0, p.apb * 256>>,
                           ![DRSRn[6]] = MkRSR(0, 31, 0), ![DRACRn[6]] = <<0, 768>>,   \* disabled 4 GiB region must not count
                           ![DRSRn[12]] = MkRSR(0, 31, 0)]
  IN [R |-> [r \in RNames |-> Zero], cpsr |-> <<0, IF p.priv THEN 19 ELSE 16>>, spsr |-> [m \in SpsrNames |-> Zero],
      elr |-> Zero, sys |-> sys1, mem |-> [devs |-> <<>>, base |-> <<>>, w |-> <<>>],
      ev |-> [evreg |-> 0, wfe |-> 0, wfi |-> 0],
      cfg |-> [arch |-> 7, pmsa |-> TRUE, sec |-> TRUE, virt |-> FALSE, lpae |-> FALSE]]

\* (bases are aligned to the region size: a misaligned base is UNPREDICTABLE programming, reported via x.unp)
RegA == {r \in [rsize : {4, 7, 11, 31}, base : {Zero, <<0, 4096>>}, sd : {0, 165}] : r.rsize = 31 => r.base = Zero}
RegB == {r \in [en : {0, 1}, rsize : {1, 7, 31}, base : {Zero, <<0, 4096 + 256>>}, sd : {0, 128}] : r.rsize = 31 => r.base = Zero}
\* probe addresses: boundaries of a region with its 8 sub-regions, +/- 1
Probe(r) ==
  LET lsbit == r.rsize + 1
      sz(k) == LSLw(<<0, 1>>, k)
      subs == IF lsbit >= 8 /\ lsbit < 32 THEN {Add(r.base, LSLw(<<0, j>>, lsbit - 3)) : j \in {1, 2, 5, 7}} ELSE {}
      ends == IF lsbit < 32 THEN {Add(r.base, sz(lsbit))} ELSE {}
      pts == {r.base} \cup subs \cup ends
  IN pts \cup {AddInt(a, -1) : a \in pts} \cup {AddInt(a, 1) : a \in pts}
Probes(p) == (IF FULL THEN Probe(p.ra) \cup Probe(p.rb) ELSE {a \in Probe(p.ra) \cup Probe(p.rb) : Lo(a) % 2 = 1 \/ a = p.ra.base})
             \cup {Zero, <<MM, MM>>}

Init == sc = [stage |-> 0]
Pick1 == sc.stage = 0 /\ \E ra \in RegA, rb \in RegB : sc' = [stage |-> 1, ra |-> ra, rb |-> rb]
Pick2 == sc.stage = 1 /\ \E va \in Probes(sc), apa \in {0, 1, 2, 3, 5, 6}, apb \in (IF FULL THEN {0, 3, 5} ELSE {0, 3}),
                            priv \in BOOLEAN, wr \in BOOLEAN, m \in {0, 1}, br \in {0, 1} :
           sc' = [stage |-> 2, ra |-> sc.ra, rb |-> sc.rb, va |-> va, apa |-> apa, apb |-> apb, priv |-> priv, wr |-> wr,
                  m |-> m, br |-> br]
Next == Pick1 \/ Pick2
Spec == Init /\ [][Next]_vars
Done == sc.stage = 2
S == MkS(sc)
T == TranslateP(X0(S), sc.va, sc.priv, sc.wr, TRUE)

\* ---- the property ----
\* plain-arithmetic coverage test of one region (second formulation: compare base/size as intervals, by sub-region index)
Covers(r, en, va) ==
  /\ en = 1
  /\ LET lsbit == r.rsize + 1 IN
     IF lsbit = 32 THEN (r.sd \div 2^(Slice(va, 31, 29))) % 2 = 0
     ELSE /\ Le(r.base, va) /\ Lt(Sub(va, r.base), LSLw(<<0, 1>>, lsbit))
          /\ (lsbit >= 8 => (r.sd \div 2^(ToNat(LSRw(Sub(va, r.base), lsbit - 3)))) % 2 = 0)
Deciding == IF Covers(sc.rb, sc.rb.en, sc.va) THEN 9 ELSE IF Covers(sc.ra, 1, sc.va) THEN 2 ELSE -1
PriorityOK == Done => (LoopResult(S, sc.va) = Deciding /\ Decider(S, sc.va) = Deciding)
Allowed ==
  IF sc.m = 0 THEN TRUE
  ELSE IF Deciding = -1 THEN sc.br = 1 /\ sc.priv
  ELSE APAllows(IF Deciding = 9 THEN sc.apb ELSE sc.apa, sc.priv, sc.wr)
GrantOK == Done => (Ok(T.x) <=> Allowed)
FlatOK  == Done => T.pa = sc.va
AbortOK == (Done /\ ~Allowed) =>
   /\ T.x.ab.t = "dabort"
   /\ T.x.s.sys.DFAR = sc.va
   /\ Slice(T.x.s.sys.DFSR, 3, 0) + 16 * Bit(T.x.s.sys.DFSR, 10) = (IF Deciding = -1 THEN 0 ELSE 13)
   /\ Bit(T.x.s.sys.DFSR, 11) = (IF sc.wr THEN 1 ELSE 0)
   /\ Bit(T.x.s.sys.DFSR, 12) = 0 /\ Slice(T.x.s.sys.DFSR, 9, 4) = 0
   /\ [T.x.s EXCEPT !.sys.DFSR = Zero, !.sys.DFAR = Zero] = [S EXCEPT !.sys.DFSR = Zero, !.sys.DFAR = Zero]
NoChangeOK == (Done /\ Allowed) => T.x.s = S
=============================================================================
