SPECIFICATION Spec
CONSTANTS FULL = FALSE
INVARIANT PriorityOK
INVARIANT GrantOK
INVARIANT FlatOK
INVARIANT AbortOK
INVARIANT NoChangeOK
CHECK_DEADLOCK FALSE
