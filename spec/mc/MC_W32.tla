------------------------------- MODULE MC_W32 --------------------------------
(* Links the limb arithmetic TLC actually runs (W32) to the reference (BV):
   at limb width L = 4 (8-bit words, 16-bit "quads") every W32 operator equals the BV
   operator on ALL operands and all shift amounts 0..SMAX.  One state per x; the
   invariants quantify over y / carry / amount. *)
EXTENDS Naturals, Integers, Sequences, TLC
CONSTANTS SMAX, YSTEP
B == INSTANCE BV
W == INSTANCE W32 WITH L <- 4
VARIABLES x
Init == x = -1
Next == x = -1 /\ x' \in 0..255
Spec == Init /\ [][Next]_x
N == 8
V(w) == w[1] * 16 + w[2]
K(v) == <<v \div 16, v % 16>>
QV(q) == ((q[1] * 16 + q[2]) * 16 + q[3]) * 16 + q[4]
Act == x >= 0
YS == {y \in 0..255 : y % YSTEP = 0 \/ y \in {1, 15, 16, 17, 127, 128, 129, 254, 255}}

AddOK == Act => \A y \in 0..255, c \in {0, 1} :
   LET r == W!AddC(K(x), K(y), c) IN
   /\ <<V(r[1]), r[2], r[3]>> = B!AddWithCarry(x, y, c, N)
   /\ V(W!Sub(K(x), K(y))) = (x - y) % 256
   /\ V(W!Neg(K(x))) = (0 - x) % 256
   /\ W!Lt(K(x), K(y)) = (x < y) /\ W!Le(K(x), K(y)) = (x <= y) /\ W!Eq(K(x), K(y)) = (x = y)
   /\ \A d \in {-255, -17, -16, -1, 0, 1, 15, 16, 255} : V(W!AddInt(K(x), d)) = (x + d) % 256
LogicOK == Act => \A y \in 0..255 :
   /\ \A i \in 0..7 : /\ W!Bit(W!WAnd(K(x), K(y)), i) = B!Bit(x, i) * B!Bit(y, i)
                      /\ W!Bit(W!WOr(K(x), K(y)), i)  = (IF B!Bit(x, i) + B!Bit(y, i) > 0 THEN 1 ELSE 0)
                      /\ W!Bit(W!WXor(K(x), K(y)), i) = (B!Bit(x, i) + B!Bit(y, i)) % 2
                      /\ W!Bit(W!WNot(K(x)), i) = 1 - B!Bit(x, i)
ShiftOK == Act => \A s \in 1..SMAX :
   LET f(p) == <<V(p[1]), p[2]>> IN
   /\ f(W!LSL_C(K(x), s)) = B!LSL_C(x, N, s)
   /\ f(W!LSR_C(K(x), s)) = B!LSR_C(x, N, s)
   /\ f(W!ASR_C(K(x), s)) = B!ASR_C(x, N, s)
   /\ f(W!ROR_C(K(x), s)) = B!ROR_C(x, N, s)
   /\ \A c \in {0, 1} : /\ f(W!RRX_C(K(x), c)) = B!RRX_C(x, N, c)
                        /\ \A t \in B!SRType : (t = "RRX" => s = 1) =>
                              f(W!Shift_C(K(x), t, s, c)) = B!Shift_C(x, N, t, s, c)
                        /\ \A t \in B!SRType : f(W!Shift_C(K(x), t, 0, c)) = <<x, c>>
SliceOK == Act =>
   /\ \A hi \in 0..7 : \A lo \in 0..hi : (hi - lo + 1 <= 4) => W!Slice(K(x), hi, lo) = B!Slice(x, hi, lo)
   /\ \A i \in 0..7 : W!Bit(K(x), i) = B!Bit(x, i)
   /\ W!TopBit(K(x)) = B!Bit(x, 7)
   /\ \A k \in 0..8 : V(W!TopMask(k)) = 256 - 2^(8 - k)
   /\ \A k \in 1..7 : (x < 2^k) => V(W!SignExtN(x, k)) = B!SignExtend(x, k, 8)
   /\ W!BitCountW(K(x)) = B!BitCount(x, 8)
   /\ W!CLZ(K(x)) = B!CountLeadingZeroBits(x, 8)
   /\ W!LowestSetBitW(K(x)) = B!LowestSetBit(x, 8)
   /\ \A i \in 0..7 : W!Bit(W!RBITw(K(x)), i) = B!Bit(x, 7 - i)
   /\ W!IsWord(K(x)) /\ ~W!IsWord(<<x, 16>>) /\ ~W!IsWord(<<-1, 0>>)
MulDivOK == Act => \A y \in YS :
   /\ QV(W!MulUU(K(x), K(y))) = x * y
   /\ QV(W!MulSS(K(x), K(y))) = (B!SInt(x, 8) * B!SInt(y, 8)) % 65536
   /\ V(W!MulLo(K(x), K(y))) = (x * y) % 256
   /\ (y # 0) => /\ V(W!UDivMod(K(x), K(y))[1]) = x \div y
                 /\ V(W!UDivMod(K(x), K(y))[2]) = x % y
   /\ (y # 0) => LET sx == B!SInt(x, 8)  sy == B!SInt(y, 8)
                     ax == IF sx < 0 THEN -sx ELSE sx
                     ay == IF sy < 0 THEN -sy ELSE sy
                     q  == IF (sx < 0) # (sy < 0) THEN -(ax \div ay) ELSE ax \div ay
                 IN V(W!SDiv(K(x), K(y))) = q % 256
QuadOK == Act => \A y \in YS : \A z \in {0, 1, 15, 16, 127, 128, 255} :
   LET p == <<x \div 16, x % 16, y \div 16, y % 16>>
       q == <<z \div 16, z % 16, x \div 16, x % 16>> IN
   /\ QV(W!QAdd(p, q)) = (QV(p) + QV(q)) % 65536
   /\ W!QAddC(p, q, 1)[2] = (IF QV(p) + QV(q) + 1 >= 65536 THEN 1 ELSE 0)
   /\ QV(W!QSub(p, q)) = (QV(p) - QV(q)) % 65536
   /\ QV(W!QNeg(p)) = (0 - QV(p)) % 65536
   /\ W!QLt(p, q) = (QV(p) < QV(q))
   /\ QV(W!QSExt(K(x))) = B!SignExtend(x, 8, 16) /\ QV(W!QZExt(K(x))) = x
   /\ QV(W!QAsrL(p)) = B!ASR(QV(p), 16, 4)
=============================================================================
