-------------------------------- MODULE MC_S2 --------------------------------
(***************************************************************************)
(* Stage 2 on the spec (beyond the listed properties: the part of the      *)
(* translation system C15 does not name): VMSA!WalkS2 / TranslateV /       *)
(* AttrsV with HCR.VM = 1, Non-secure, stage 1 off (so the intermediate    *)
(* physical address is the virtual address) against a statement written    *)
(* from the prose of the Virtualization Extensions:                        *)
(*   walk shapes   invalid / block at level 1 (VTCR.SL0 = 1), table ->     *)
(*                 invalid / block at level 2, table -> table -> invalid / *)
(*                 reserved / page at level 3; SL0 = 0 starts at level 2   *)
(*                 in concatenated tables indexed by IPA<31:21>            *)
(*   VTCR.T0SZ     0 and -8 (SL0 = 1), 0 and 4 (SL0 = 0): input range     *)
(*   permissions   HAP<2:1>: 00 none, 01 read-only, 10 write-only, 11 RW   *)
(*   access flag, unaligned access to Device / Strongly-ordered memory     *)
(*   output        descriptor base : IPA offset by block size, PA<39:32>   *)
(*   attributes    S2AttrDecode(MemAttr) combined with the stage-1-off     *)
(*                 attributes (Strongly-ordered, or Normal write-back when *)
(*                 HCR.DC = 1): strongest type wins, weakest cacheability   *)
(* Every stage-2 fault is NotImpl (taken to Hyp mode: the emulator's hook). *)
(***************************************************************************)
EXTENDS VMSA, Json
CONSTANTS FULL                           \* FALSE: a reduced grid (1e5 states); TRUE: 2.2e6 states, 14 min
VARIABLES sc
vars == <<sc>>
MkWordBits(pairs) == LET RECURSIVE f(_) f(k) == IF k = 0 THEN Zero ELSE SetBitW(f(k - 1), pairs[k][1], pairs[k][2]) IN f(Len(pairs))
Shapes == {"l1inv", "l1block", "l2inv", "l2block", "l3inv", "l3resv", "page"}
\* device [0x4000, 0xD000): first lookup table at 0x8000, level-2 table (SL0 = 1) at 0x9000, level-3 table at 0xC000
T1 == 32768  L2T == 36864  L3T == 49152
OutBase(shape) == CASE shape = "l1block" -> <<49152, 0>> [] shape = "l2block" -> <<4672, 0>> [] OTHER -> <<4660, 20480>>
TableD(base) == [lo |-> <<0, base + 3>>, hi |-> <<24576, 0>>]                 \* APTable bits set: ignored at stage 2
LeafD(shape, p, islevel3) ==
  [lo |-> WOr(OutBase(shape), <<0, p.sh * 256 + p.hap * 64 + p.af * 1024 + p.ma * 4 + (IF islevel3 THEN 3 ELSE 1)>>), hi |-> <<0, 37>>]
Inval == [lo |-> <<43690, 43690>>, hi |-> <<21845, 21845>>]
Resv3 == [lo |-> <<4660, 20480 + 1024 + 1>>, hi |-> Zero]
D1(p) == CASE p.shape = "l1inv" -> Inval [] p.shape = "l1block" -> LeafD("l1block", p, FALSE) [] OTHER -> TableD(L2T)
D2(p) == CASE p.shape = "l2inv" -> Inval [] p.shape = "l2block" -> LeafD("l2block", p, FALSE) [] OTHER -> TableD(L3T)
D3(p) == CASE p.shape = "l3inv" -> Inval [] p.shape = "l3resv" -> Resv3 [] OTHER -> LeafD("page", p, TRUE)
VA(p) == <<p.i1 * 16384 + p.i2 * 32 + p.i3 \div 16, (p.i3 % 16) * 4096 + 288 + p.mis>>
ZeroBase == [j \in 1..36864 |-> 0]
MemFor(p) ==
  LET bytes8(off, d) == [k \in 1..4 |-> <<1, off - 16384 + k - 1, Byte(d.lo, k - 1)>>] \o [k \in 1..4 |-> <<1, off - 16384 + 3 + k, Byte(d.hi, k - 1)>>]
      w1 == IF p.sl0 = 1 THEN bytes8(T1 + 8 * p.i1, D1(p)) ELSE <<>>
      \* SL0 = 0: the first lookup is at level 2 in the concatenated tables at T1, index IPA<31:21> = i1:i2
      w2 == IF p.sl0 = 0 THEN bytes8(T1 + 8 * (p.i1 * 512 + p.i2), D2(p))
            ELSE IF p.shape \notin {"l1inv", "l1block"} THEN bytes8(L2T + 8 * p.i2, D2(p)) ELSE <<>>
      w3 == IF p.shape \in {"l3inv", "l3resv", "page"} THEN bytes8(L3T + 8 * p.i3, D3(p)) ELSE <<>>
  IN [devs |-> <<[b |-> <<0, 16384>>, n |-> 36864]>>, base |-> <<ZeroBase>>, w |-> w1 \o w2 \o w3]
T0Enc(t0) == IF t0 < 0 THEN 16 + (t0 + 16) ELSE t0                          \* S : T0SZ<3:0>
S(p) ==
  [R |-> [r \in RNames |-> Zero], cpsr |-> <<0, IF p.priv THEN 19 ELSE 16>>, spsr |-> [m \in SpsrNames |-> Zero], elr |-> Zero,
   sys |-> [SCTLR |-> MkWordBits(<< <<28, 1>> >>), SCR |-> <<0, 1>>, HCR |-> MkWordBits(<< <<0, 1>>, <<12, p.dc>> >>), HSCTLR |-> Zero,
            VBAR |-> Zero, MVBAR |-> Zero, HVBAR |-> Zero, DFSR |-> Zero, DFAR |-> Zero,
            VTCR |-> <<32768, p.sl0 * 64 + T0Enc(p.t0)>>, VTTBR |-> <<0, T1>>, VTTBRH |-> Zero,
            TTBCR |-> Zero, TTBR0 |-> Zero, TTBR0H |-> Zero, TTBR1 |-> Zero, TTBR1H |-> Zero, MAIR0 |-> Zero, MAIR1 |-> Zero,
            DACR |-> Zero, PRRR |-> Zero, NMRR |-> Zero, FCSEIDR |-> Zero],
   mem |-> MemFor(p), ev |-> [evreg |-> 0, wfe |-> 0, wfi |-> 0],
   cfg |-> [arch |-> 7, pmsa |-> FALSE, sec |-> TRUE, virt |-> TRUE, lpae |-> TRUE]]

MemAttrs == IF FULL THEN {0, 1, 5, 6, 7, 10, 11, 15, 14} ELSE {0, 1, 5, 10, 15}
Init == sc = [stage |-> 0]
Pick1 == sc.stage = 0 /\ \E shape \in Shapes, hap \in 0..3, af \in {0, 1}, ma \in MemAttrs, sh \in (IF FULL THEN {0, 2, 3} ELSE {0, 2}) :
           sc' = [stage |-> 1, shape |-> shape, hap |-> hap, af |-> af, ma |-> ma, sh |-> sh]
Pick2 == sc.stage = 1 /\ \E sl0 \in {0, 1}, t0 \in {0, -8, 4}, dc \in {0, 1}, i1 \in (IF FULL THEN {0, 1, 3} ELSE {0, 1}), i2 \in (IF FULL THEN {0, 5, 511} ELSE {5, 200}),
                            i3 \in (IF FULL THEN {0, 7, 511} ELSE {7}), priv \in (IF FULL THEN BOOLEAN ELSE {TRUE}), wr \in BOOLEAN, mis \in {0, 1} :
           /\ (sl0 = 1 => t0 \in {0, -8}) /\ (sl0 = 0 => t0 \in {0, 4})
           /\ (sl0 = 0 => sc.shape \notin {"l1inv", "l1block"})
           /\ sc' = [sc EXCEPT !.stage = 2] @@ [sl0 |-> sl0, t0 |-> t0, dc |-> dc, i1 |-> i1, i2 |-> i2, i3 |-> i3, priv |-> priv, wr |-> wr, mis |-> mis]
Next == Pick1 \/ Pick2
Spec == Init /\ [][Next]_vars
Done == sc.stage = 2

T == TranslateV(X0(S(sc)), VA(sc), sc.priv, sc.wr, 4, sc.mis = 0)
A == AttrsV(S(sc), VA(sc))
\* the statement
InRange == sc.t0 <= 0 \/ sc.i1 = 0                                \* T0SZ = 4: IPA<39:28> must be zero (i1 = IPA<31:30>; IPA<29:28> = i2<8:7>)
InRange4 == sc.t0 # 4 \/ (sc.i1 = 0 /\ sc.i2 < 128)
S2Ty == CASE sc.ma = 0 -> "SO" [] sc.ma = 1 -> "DEV" [] OTHER -> "NORMAL"
Expected ==
  IF ~InRange4 THEN "fault"
  ELSE IF sc.shape \in {"l1inv", "l2inv", "l3inv", "l3resv"} THEN "fault"
  ELSE IF sc.af = 0 THEN "fault"
  ELSE IF sc.mis = 1 /\ (sc.dc = 0 \/ S2Ty # "NORMAL") THEN "fault"     \* unaligned access to Strongly-ordered (stage 1, DC = 0) or S2 Device / SO memory
  ELSE IF sc.wr /\ sc.hap \div 2 = 0 THEN "fault"
  ELSE IF (~sc.wr) /\ sc.hap % 2 = 0 THEN "fault"
  ELSE "ok"
BlockBits == CASE sc.shape = "l1block" -> 30 [] sc.shape = "l2block" -> 21 [] OTHER -> 12
ExpPA == WOr(OutBase(sc.shape), WAnd(VA(sc), WNot(TopMask(32 - BlockBits))))
OutcomeOK == Done =>
  CASE Expected = "ok" -> Ok(T.x) /\ ~T.x.unp /\ T.pa = ExpPA /\ T.ext = 37
    [] OTHER -> T.x.ni # "" /\ T.x.ab.t = "none"
\* combined attributes of a successful translation: stage 1 off gives Strongly-ordered (DC = 0) or Normal write-back,
\* read/write-allocate, Non-shareable (DC = 1); the stronger type wins; cacheability is the weaker of the two; the hints are stage 1's
Cach(m2) == CASE m2 = 1 -> 0 [] m2 = 2 -> 2 [] m2 = 3 -> 3
AttrOK == (Done /\ Expected = "ok") =>
  LET a == A.at.a  dcs == A.at.dc IN
  /\ A.ns = 1
  /\ IF sc.dc = 0 \/ S2Ty = "SO" THEN a.ty = "SO" /\ a.sh = 1 /\ a.osh = 1
     ELSE IF S2Ty = "DEV" THEN a.ty = "DEV"
     ELSE /\ a.ty = "NORMAL" /\ dcs = {}
          /\ a.ia = Cach(sc.ma % 4) /\ a.oa = Cach(sc.ma \div 4)
          /\ a.ih = 3 /\ a.oh = 3
          /\ (IF a.ia = 0 /\ a.oa = 0 THEN a.sh = 1 /\ a.osh = 1
              ELSE a.sh = sc.sh \div 2 /\ a.osh = (IF sc.sh = 2 THEN 1 ELSE 0))
\* vacuity probes (expected to be violated when run by hand)
NeverOk == Done => Expected # "ok"
=============================================================================
