-------------------------------- MODULE MC_DP --------------------------------
(***************************************************************************)
(* C01 on the spec, and the scenario generator of its spec -> code half.   *)
(* The whole machine (fetchless Exec of an ARM A1 data-processing word:    *)
(* Decode, Operand2 / shifter, DPCompute, flag update, PC advance) is run   *)
(* over the grid                                                           *)
(*   16 opcodes x S x carry-in x operand-2 form                            *)
(*     immediate    (rotation 0 and non-zero rotations)                    *)
(*     register     LSL/LSR/ASR/ROR by #0/#1/#31/#32, RRX                  *)
(*     register-shifted register with Rs<7:0> in {0,1,31,32,33,255} and    *)
(*                  Rs = 256 (only the bottom byte counts)                 *)
(*   x (Rn), y (Rm)  in VALS x VALS                                        *)
(* and the result is compared with the property's own wording, written     *)
(* WITHOUT AddWithCarry:                                                   *)
(*   - the unsigned carry of x + y + c is "result <u x" (c = 0) or         *)
(*     "result <=u x" (c = 1); of x - y - (1 - c): "x >=u y" / "x >u y";    *)
(*     signed overflow is "operands of equal sign (for SUB: different      *)
(*     sign) and result of the other sign"                                 *)
(*   - logical operations take C from the shifter and leave V alone        *)
(*   - N = result<31>, Z = (result = 0); flags change only when S = 1      *)
(*   - compare operations write no register                                *)
(*   - frame: nothing but Rd, NZCV and the PC changes; the PC advances by 4*)
(* With GEN = TRUE every grid point is printed; the harness executes it on *)
(* the real emulate_cycle() and TLC judges the step (Trace_Step).          *)
(***************************************************************************)
EXTENDS Props, Json, TLC
CONSTANTS GEN, NV
AllVals == << <<0, 0>>, <<MM, MM>>, <<32768, 0>>, <<32767, MM>>, <<0, 1>>, <<43690, 43690>>, <<0, 255>>, <<MM, MM - 1>> >>
VALS == {AllVals[k] : k \in 1..NV}
VARIABLES sc
vars == <<sc>>

Ops == <<"AND", "EOR", "SUB", "RSB", "ADD", "ADC", "SBC", "RSC", "TST", "TEQ", "CMP", "CMN", "ORR", "MOV", "BIC", "MVN">>
Imm12s == {0, 1, 255, 258, 1279, 2303, 3327, 4095}       \* rot 0: 0, 1, 0xFF; 0x102 -> ROR 2; 0x4FF / 0x8FF / 0xCFF / 0xFFF
ImmShifts == {<<0, 0>>, <<0, 1>>, <<0, 31>>, <<1, 1>>, <<1, 0>>, <<2, 1>>, <<2, 0>>, <<3, 1>>, <<3, 31>>, <<3, 0>>}   \* <<type, imm5>>
RsVals == {<<0, 0>>, <<0, 1>>, <<0, 31>>, <<0, 32>>, <<0, 33>>, <<0, 255>>, <<0, 256>>}
\* Rd = r0, Rn = r1, Rm = r2, Rs = r3, cond = AL
Word(form, op, S, a, b) ==
  LET rn == IF op \in {13, 15} THEN 0 ELSE 1 IN                                          \* MOV / MVN: the Rn field is (0)(0)(0)(0)
  CASE form = "imm" -> <<57856 + op * 32 + S * 16 + rn, a>>                              \* E2.. : imm12 = a
    [] form = "reg" -> <<57344 + op * 32 + S * 16 + rn, b * 128 + a * 32 + 2>>           \* E0.. : type a, imm5 b
    [] form = "rsr" -> <<57344 + op * 32 + S * 16 + rn, 3 * 256 + a * 32 + 16 + 2>>      \* E0.. : type a, Rs = r3
St(x, y, rs, c) ==
  [R |-> [r \in RNames |-> CASE r = "PC" -> <<0, 64>> [] r = "R1usr" -> x [] r = "R2usr" -> y [] r = "R3usr" -> rs
                             [] r = "R0usr" -> <<23130, 42405>> [] OTHER -> <<0, 96>>],
   cpsr |-> <<c * 8192 + 16384 + 4096, 19>>,          \* Z = 1 and V = 1 before the step, C = c, N = 0; Supervisor, ARM
   spsr |-> [m \in SpsrNames |-> Zero], elr |-> Zero,
   sys |-> [SCTLR |-> SetBitW(Zero, 22, 1), SCR |-> Zero, HCR |-> Zero, HSCTLR |-> Zero, VBAR |-> Zero, MVBAR |-> Zero,
            HVBAR |-> Zero, NSACR |-> Zero, CPACR |-> Zero, HCPTR |-> Zero, DFSR |-> Zero, DFAR |-> Zero, MPUIR |-> Zero],
   mem |-> [devs |-> <<[b |-> Zero, n |-> 256]>>, base |-> <<[j \in 1..256 |-> 0]>>, w |-> <<>>],
   ev |-> [evreg |-> 0, wfe |-> 0, wfi |-> 0],
   cfg |-> [arch |-> 7, pmsa |-> TRUE, sec |-> TRUE, virt |-> FALSE, lpae |-> FALSE, v7r |-> FALSE]]

Init == sc = [stage |-> 0]
\* two levels of choice so that TLC's workers share the grid (successors of one state are computed by one worker), and the
\* step itself is computed once per grid point and kept in the state (sc.r) instead of once per invariant
Pick1 == /\ sc.stage = 0
         /\ \E op \in 0..15, S \in 0..1, c \in 0..1, form \in {"imm", "reg", "rsr"} :
              /\ (op \in 8..11 => S = 1)
              /\ sc' = [stage |-> 1, form |-> form, op |-> op, S |-> S, c |-> c]
Fin(p) == LET st == St(p.x, p.y, p.rs, p.c)
              w  == Word(p.form, p.op, p.S, p.a, p.b)
          IN [p EXCEPT !.stage = 2] @@ [pre |-> st, w |-> w, r |-> StepF(st, [n |-> "Exec", w |-> w, len |-> 32])]
Pick2 == /\ sc.stage = 1
         /\ \E x \in VALS, y \in VALS :
              \/ /\ sc.form = "imm" /\ y = (CHOOSE v \in VALS : TRUE)
                 /\ \E a \in Imm12s : sc' = Fin(sc @@ [x |-> x, y |-> y, a |-> a, b |-> 0, rs |-> Zero])
              \/ /\ sc.form = "reg"
                 /\ \E t \in ImmShifts : sc' = Fin(sc @@ [x |-> x, y |-> y, a |-> t[1], b |-> t[2], rs |-> Zero])
              \/ /\ sc.form = "rsr"
                 /\ \E ty \in 0..3, rs \in RsVals : sc' = Fin(sc @@ [x |-> x, y |-> y, a |-> ty, b |-> 0, rs |-> rs])
Next == Pick1 \/ Pick2
Spec == Init /\ [][Next]_vars
Done == sc.stage = 2

pre  == sc.pre
W    == sc.w
R    == sc.r
post == R.s
opn  == Ops[sc.op + 1]
res  == post.R.R0usr
\* second operand and shifter carry, taken from the instruction the specification decoded (Operand2 is checked against the
\* shift lemmas of MC_BV / MC_W32 / APA_W32; this instance is about what the instruction does WITH it)
o2   == Operand2(X0(pre), Decode(0, W, 32, [it |-> 0, arch |-> 7, hyp |-> FALSE]).o2)
ExactOK == Done => R.exact /\ R.out = "completed"
\* the value each operation must produce, from the prose of A8.8 (no AddWithCarry): r, and for the arithmetic ones C and V
Sign(w) == TopBit(w)
LogicalRes == CASE opn \in {"AND", "TST"} -> WAnd(sc.x, o2.v) [] opn \in {"EOR", "TEQ"} -> WXor(sc.x, o2.v)
                [] opn = "ORR" -> WOr(sc.x, o2.v) [] opn = "BIC" -> WAnd(sc.x, WNot(o2.v))
                [] opn = "MOV" -> o2.v [] opn = "MVN" -> WNot(o2.v)
IsLogical == opn \in {"AND", "EOR", "TST", "TEQ", "ORR", "MOV", "BIC", "MVN"}
\* arithmetic: a + b + cin with (a, b, cin) per operation; subtraction is a + NOT b + cin: the property-side wording
\* is about the mathematical a - b - (1 - cin)
ArA == IF opn \in {"RSB", "RSC"} THEN o2.v ELSE sc.x
ArB == IF opn \in {"RSB", "RSC"} THEN sc.x ELSE o2.v
IsSub == opn \in {"SUB", "RSB", "CMP", "SBC", "RSC"}
Cin == CASE opn \in {"ADD", "CMN"} -> 0 [] opn \in {"SUB", "RSB", "CMP"} -> 1 [] OTHER -> sc.c
ArithOK(r) ==
  IF IsSub
  THEN \* r = a - b - (1 - cin) mod 2^32: adding b (+ 1 - cin) back gives a; C = no borrow; V = signs differ and sign(r) # sign(a)
       /\ (IF Cin = 1 THEN Add(r, ArB) ELSE Add(Add(r, ArB), <<0, 1>>)) = ArA
       /\ PC_(post.cpsr) = (IF sc.S = 1 THEN (IF Cin = 1 THEN B2N(Le(ArB, ArA)) ELSE B2N(Lt(ArB, ArA))) ELSE sc.c)
       /\ (sc.S = 1 => PV(post.cpsr) = B2N(Sign(ArA) # Sign(ArB) /\ Sign(r) # Sign(ArA)))
  ELSE /\ (IF Cin = 1 THEN Sub(Sub(r, ArB), <<0, 1>>) ELSE Sub(r, ArB)) = ArA
       /\ PC_(post.cpsr) = (IF sc.S = 1 THEN (IF Cin = 1 THEN B2N(Le(r, ArA)) ELSE B2N(Lt(r, ArA))) ELSE sc.c)
       /\ (sc.S = 1 => PV(post.cpsr) = B2N(Sign(ArA) = Sign(ArB) /\ Sign(r) # Sign(ArA)))
\* the value the flags are computed from: the register written, or for compares the value the spec computed (recomputed here)
CmpRes == IF IsLogical THEN LogicalRes
          ELSE DPCompute(opn, sc.x, o2, sc.c)[1]
Val == IF sc.op \in 8..11 THEN CmpRes ELSE res
ValueOK == Done =>
  IF IsLogical THEN /\ Val = LogicalRes
                    /\ PC_(post.cpsr) = (IF sc.S = 1 THEN o2.c ELSE sc.c)
                    /\ PV(post.cpsr) = 1                                          \* V untouched (it was 1)
  ELSE ArithOK(Val)
NZOK == Done =>
  IF sc.S = 1 THEN PN(post.cpsr) = Sign(Val) /\ PZ(post.cpsr) = B2N(IsZeroW(Val))
  ELSE PNZCV(post.cpsr) = PNZCV(pre.cpsr)
FrameOK == Done =>
  /\ \A r \in RNames \ {"PC", "R0usr"} : post.R[r] = pre.R[r]
  /\ (sc.op \in 8..11 => post.R.R0usr = pre.R.R0usr)
  /\ post.R.PC = <<0, 68>>
  /\ WAnd(WXor(post.cpsr, pre.cpsr), <<4095, MM>>) = Zero                        \* only NZCV may change
  /\ post.spsr = pre.spsr /\ post.elr = pre.elr /\ post.sys = pre.sys /\ post.mem = pre.mem /\ post.ev = pre.ev
  /\ RegsTypeOK(post)
Emit == (GEN /\ Done) => PrintT(ToJson([w |-> W, x |-> sc.x, y |-> sc.y, rs |-> sc.rs, c |-> sc.c]))
=============================================================================
