SPECIFICATION Spec
CONSTANTS GEN = FALSE
          STEPS = 2
INVARIANT Isolation
INVARIANT Emit
CHECK_DEADLOCK FALSE
