SPECIFICATION Spec
CONSTANTS GEN = FALSE
          STEPS = 2
INVARIANT Isolation
INVARIANT SensitiveInv
INVARIANT Emit
CHECK_DEADLOCK FALSE
