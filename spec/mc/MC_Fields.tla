------------------------------ MODULE MC_Fields ------------------------------
(* Sanity of the field table itself: every field lies inside 0..31, segments are
   well-formed, and two different fields of one register are disjoint unless they are
   declared aliases (SCTLR.HA/BR ...).  One state per register class. *)
EXTENDS SysRegFields, Integers, FiniteSets, TLC
Classes == {"CPSR", "SCTLR", "HSCTLR", "SCR", "HCR", "HSR", "HSTR", "HCPTR", "HDCR", "HPFAR", "HTCR", "VTCR",
            "TTBCR", "DFSR", "FCSEIDR", "FPEXC", "CPACR", "NSACR", "PRRR", "MPUIR", "DRSR", "DRACR", "MIDR",
            "IdPfr1", "JMCR", "TEECR", "SDER", "PMCR", "DBGDIDR", "DACR", "NMRR", "VBAR"}
Names == {"n", "z", "c", "v", "q", "j", "ge", "e", "a", "i", "f", "t", "m", "it", "isetstate", "cp15ben", "b", "sw",
          "rr", "ha", "br", "wxn", "dz", "uwxn", "fi", "u", "ve", "ee", "nmfi", "tre", "afe", "te", "ie", "ns", "irq",
          "fiq", "ea", "fw", "aw", "net", "scd", "hce", "sif", "vm", "swio", "ptw", "fmo", "imo", "amo", "vf", "vi",
          "va", "fb", "bsu", "dc", "twi", "twe", "tsc", "tidcp", "tac", "tsw", "tpc", "tpu", "ttlb", "tvm", "tge",
          "ec", "il", "iss", "ttee", "tjdbx", "tase", "tta", "tcpac", "hpmn", "tpmcr", "tpm", "hpme", "tde", "tda",
          "tdosa", "tdra", "fipa", "t0sz", "irgn0", "orgn0", "sh0", "s", "sl0", "pd0", "pd1", "eae", "epd0", "t1sz",
          "a1", "epd1", "irgn1", "orgn1", "sh1", "fs", "domain", "lpae", "wnr", "ext", "cm", "status", "pid", "ex",
          "en", "trcdis", "d32dis", "asedis", "nsd32dis", "nsasedis", "rfr", "nstrcdis", "ds0", "ds1", "ns0", "ns1",
          "nu", "dregion", "iregion", "rsize", "tex", "ap", "xn", "revision", "primary_part_number", "architecture",
          "variant", "implementer", "pm", "se", "m_profile", "gt", "je", "xed", "suiden", "suniden", "p", "d", "x",
          "dp", "idcode", "imp", "se_imp", "pcsr_imp", "nsuhd_imp", "devid_imp", "version", "ctx_cmps", "brps", "wrps"}
Fams == {"cp_n", "tcp_n", "t_n", "tid_n", "d_n", "tr_n", "nos_n", "ir_n", "or_n", "sd_n", "base_address"}
VARIABLE cls
Init == cls = "none"
Next == cls = "none" /\ cls' \in Classes
Spec == Init /\ [][Next]_cls
BitsOf(segs) == UNION {s[2]..s[1] : s \in {segs[k] : k \in 1..Len(segs)}}
All(c) == {<<f, -1>> : f \in {g \in Names : Field(c, g) # NoField}} \cup
          {<<fam, k>> \in Fams \X (0..15) : IndexedField(c, fam, k) # NoField}
Segs(c, fk) == IF fk[2] = -1 THEN Field(c, fk[1]) ELSE IndexedField(c, fk[1], fk[2])
WellFormed == cls # "none" => \A fk \in All(cls) :
   LET sg == Segs(cls, fk) IN
   /\ Len(sg) \in {1, 2}
   /\ \A k \in 1..Len(sg) : sg[k][1] >= sg[k][2] /\ sg[k][1] <= 31 /\ sg[k][2] >= 0
   /\ (Len(sg) = 2 => (sg[1][2]..sg[1][1]) \cap (sg[2][2]..sg[2][1]) = {})
   /\ Cardinality(BitsOf(sg)) = FieldWidth(sg)
Disjoint == cls # "none" => \A fk \in All(cls), gk \in All(cls) :
   (fk # gk /\ BitsOf(Segs(cls, fk)) \cap BitsOf(Segs(cls, gk)) # {}) =>
      (fk[2] = -1 /\ gk[2] = -1 /\ {<<cls, fk[1]>>, <<cls, gk[1]>>} \in Aliases)
NonEmpty == cls # "none" => All(cls) # {}
=============================================================================
