------------------------------- MODULE MC_Regs -------------------------------
(***************************************************************************)
(* C10 (banking) on the spec.  Register values are abstracted to tokens:   *)
(* the k-th write stores the token k, so a value identifies the write that *)
(* produced it.  The operational model is State!LookUpRName over the 34    *)
(* physical cells; the ghost `vis` is maintained from the PROSE of the     *)
(* property ("R0-R7 shared by all modes, R8-R12 private FIQ copy, SP and LR *)
(* (and SPSR) private per exception mode, User = System, Hyp shares the    *)
(* User LR"): vis[m][n] is what mode m must see in register n.             *)
(* With GEN = TRUE a history variable records the behaviour and Emit       *)
(* prints it (as JSON) at depth DEPTH for replay on the real Registers.    *)
(***************************************************************************)
EXTENDS State, Json
CONSTANTS DEPTH, GEN
VARIABLES R, spsr, mode, vis, vspsr, step, hist
vars == <<R, spsr, mode, vis, vspsr, step, hist>>
CFG == [sec |-> TRUE, virt |-> TRUE]
Modes == GoodModes(CFG)                      \* usr fiq irq svc mon abt hyp und sys

\* the banking table of the property text
SPClass(m) == IF m \in {USR, SYS} THEN USR ELSE m
LRClass(m) == IF m \in {USR, SYS, HYP} THEN USR ELSE m
SameBank(n, a, b) ==
  \/ n \in 0..7
  \/ n \in 8..12 /\ ((a = FIQ) <=> (b = FIQ))
  \/ n = 13 /\ SPClass(a) = SPClass(b)
  \/ n = 14 /\ LRClass(a) = LRClass(b)

Init == /\ R = [r \in RNames |-> 0] /\ spsr = [m \in SpsrNames |-> 0] /\ mode = SVC
        /\ vis = [m \in Modes |-> [n \in 0..14 |-> 0]] /\ vspsr = [m \in Modes |-> 0]
        /\ step = 0 /\ hist = <<>>
Rec(a) == IF GEN THEN Append(hist, a) ELSE hist
Snapshot(RR, ss, mm) == [R |-> RR, spsr |-> ss, mode |-> mm]

WriteRmode(n, m) ==
  /\ step < DEPTH
  /\ LET RR == [R EXCEPT ![LookUpRName(n, m)] = step + 1] IN
     /\ R' = RR
     /\ hist' = Rec([a |-> "WriteRmode", n |-> n, m |-> m, v |-> step + 1, post |-> Snapshot(RR, spsr, mode)])
  /\ vis' = [b \in Modes |-> IF SameBank(n, m, b) THEN [vis[b] EXCEPT ![n] = step + 1] ELSE vis[b]]
  /\ step' = step + 1 /\ UNCHANGED <<spsr, mode, vspsr>>
Write(n) ==
  /\ step < DEPTH
  /\ LET RR == [R EXCEPT ![LookUpRName(n, mode)] = step + 1] IN
     /\ R' = RR
     /\ hist' = Rec([a |-> "Write", n |-> n, m |-> mode, v |-> step + 1, post |-> Snapshot(RR, spsr, mode)])
  /\ vis' = [b \in Modes |-> IF SameBank(n, mode, b) THEN [vis[b] EXCEPT ![n] = step + 1] ELSE vis[b]]
  /\ step' = step + 1 /\ UNCHANGED <<spsr, mode, vspsr>>
WriteSPSR ==
  /\ step < DEPTH /\ HasSpsr(mode)
  /\ LET ss == [spsr EXCEPT ![SpsrName(mode)] = step + 1] IN
     /\ spsr' = ss
     /\ hist' = Rec([a |-> "WriteSPSR", n |-> 0, m |-> mode, v |-> step + 1, post |-> Snapshot(R, ss, mode)])
  /\ vspsr' = [vspsr EXCEPT ![mode] = step + 1]
  /\ step' = step + 1 /\ UNCHANGED <<R, mode, vis>>
SwitchMode(m) ==
  /\ step < DEPTH /\ m # mode
  /\ mode' = m
  /\ hist' = Rec([a |-> "SwitchMode", n |-> 0, m |-> m, v |-> 0, post |-> Snapshot(R, spsr, m)])
  /\ step' = step + 1 /\ UNCHANGED <<R, spsr, vis, vspsr>>
Next == \/ \E n \in 0..14, m \in Modes : WriteRmode(n, m)
        \/ \E n \in 0..14 : Write(n)
        \/ WriteSPSR
        \/ \E m \in Modes : SwitchMode(m)
Spec == Init /\ [][Next]_vars

\* every mode sees, through LookUpRName, exactly what the prose says it must see
VisibleOK == \A m \in Modes, n \in 0..14 : R[LookUpRName(n, m)] = vis[m][n]
SpsrOK    == \A m \in Modes : HasSpsr(m) => spsr[SpsrName(m)] = vspsr[m]
\* static form of the table: two modes share the physical cell iff the prose says they share the bank
BankingOK == \A n \in 0..14, a \in Modes, b \in Modes : (LookUpRName(n, a) = LookUpRName(n, b)) <=> SameBank(n, a, b)
SpsrPrivate == \A a \in Modes, b \in Modes : (HasSpsr(a) /\ HasSpsr(b) /\ a # b) => SpsrName(a) # SpsrName(b)
\* a write changes exactly one physical cell, a mode switch none
WriteLocal == [][ Cardinality({r \in RNames : R'[r] # R[r]}) <= 1 /\
                  Cardinality({m \in SpsrNames : spsr'[m] # spsr[m]}) <= 1 /\
                  (mode' # mode => (R' = R /\ spsr' = spsr)) ]_vars
Emit == (GEN /\ step = DEPTH) => PrintT(ToJson(hist))
=============================================================================
