SPECIFICATION Spec
CONSTANTS MODES = {19}
INVARIANT WellFormed
INVARIANT Executes
INVARIANT SpecOK
CHECK_DEADLOCK FALSE
