SPECIFICATION Spec
CONSTANTS T16ALL = FALSE
          MODES = {19}
INVARIANT WellFormed
INVARIANT Executes
INVARIANT SpecOK
CHECK_DEADLOCK FALSE
