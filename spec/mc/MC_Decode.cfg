SPECIFICATION Spec
INVARIANT WellFormed
INVARIANT Executes
CHECK_DEADLOCK FALSE
