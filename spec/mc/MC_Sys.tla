------------------------------- MODULE MC_Sys --------------------------------
(***************************************************************************)
(* The whole specified machine on a small program with a system call,      *)
(* under every placement of up to MAXI asynchronous interrupts:            *)
(*                                                                         *)
(*   loop: ADD r0,r0,#1 ; STR r0,[r1] ; LDR r2,[r1] ; CMP r2,#2 ; SVC #0 ; *)
(*         BNE loop                      (ARM and 16-bit Thumb variants)   *)
(*   SVC vector: MOVS pc,lr     IRQ / FIQ vectors: SUBS pc,lr,#4           *)
(*                                                                         *)
(* TLC explores every interleaving of Step (Arm!StepF: fetch from memory,  *)
(* decode, execute, exception entry), IRQ and FIQ (Exc!TakePhysicalIRQ /   *)
(* FIQ, enabled when not masked; an FIQ may preempt the IRQ handler).      *)
(* Properties (C11 + C12, "entering an exception and executing its         *)
(* standard return resumes the interrupted program with its CPSR,          *)
(* registers and PC intact"):                                              *)
(*   Transparent  - whenever the program reaches its end, everything User  *)
(*                  mode can see equals the interrupt-free run;            *)
(*   StepsOK      - every step satisfies Props!SpecStepOK;                 *)
(*   no deadlock  - the specification can always step until the end.       *)
(* GEN prints the initial state and every complete schedule; the harness   *)
(* replays them on the real code (emulate_cycle / take_physical_*_         *)
(* exception) and TLC judges every step.                                   *)
(***************************************************************************)
EXTENDS Props, Json
CONSTANTS GEN, MAXI
VARIABLES s, v, hist, nint
vars == <<s, v, hist, nint>>
MkWordBits(pairs) == LET RECURSIVE f(_) f(k) == IF k = 0 THEN Zero ELSE SetBitW(f(k - 1), pairs[k][1], pairs[k][2]) IN f(Len(pairs))
LE32(w) == <<w[4], w[3], w[2], w[1]>>                         \* <<b3, b2, b1, b0>> written most significant first -> memory order
ProgARM == LE32(<<226, 128, 0, 1>>) \o LE32(<<229, 129, 0, 0>>) \o LE32(<<229, 145, 32, 0>>) \o LE32(<<227, 82, 0, 2>>) \o
           LE32(<<239, 0, 0, 0>>) \o LE32(<<26, 255, 255, 249>>)
ProgThumb == <<1, 48,  8, 96,  10, 104,  2, 42,  0, 223,  249, 209>>
Prog(vv) == IF vv = "arm" THEN ProgARM ELSE ProgThumb
EndPC(vv) == <<0, 16 + Len(Prog(vv))>>
Vectors == [j \in 0..255 |->
              IF j \in 136..139 THEN LE32(<<225, 176, 240, 14>>)[j - 135]          \* 0x88 SVC: MOVS pc, lr
              ELSE IF j \in 152..155 THEN LE32(<<226, 94, 240, 4>>)[j - 151]      \* 0x98 IRQ: SUBS pc, lr, #4
              ELSE IF j \in 156..159 THEN LE32(<<226, 94, 240, 4>>)[j - 155]      \* 0x9C FIQ: SUBS pc, lr, #4
              ELSE 0]
MemImage(vv) == [j \in 1..256 |-> IF j - 1 >= 16 /\ j - 1 < 16 + Len(Prog(vv)) THEN Prog(vv)[j - 16] ELSE Vectors[j - 1]]
S0(vv) ==
  [R |-> [r \in RNames |-> IF r = "PC" THEN <<0, 16>> ELSE IF r = "R1usr" THEN <<0, 96>> ELSE IF r = "R0usr" THEN Zero ELSE <<0, 7>>],
   cpsr |-> <<0, (IF vv = "thumb" THEN 32 ELSE 0) + 16>>,                    \* User mode, A I F clear
   spsr |-> [mm \in SpsrNames |-> Zero], elr |-> Zero,
   sys |-> [SCTLR |-> MkWordBits(<< <<22, 1>> >>), SCR |-> Zero, HCR |-> Zero, HSCTLR |-> Zero, VBAR |-> <<0, 128>>, MVBAR |-> Zero,
            HVBAR |-> Zero, NSACR |-> Zero, CPACR |-> Zero, HCPTR |-> Zero, DFSR |-> Zero, DFAR |-> Zero, MPUIR |-> Zero],
   mem |-> [devs |-> <<[b |-> Zero, n |-> 256]>>, base |-> <<MemImage(vv)>>, w |-> <<>>],
   ev |-> [evreg |-> 0, wfe |-> 0, wfi |-> 0],
   cfg |-> [arch |-> 7, pmsa |-> TRUE, sec |-> TRUE, virt |-> FALSE, lpae |-> FALSE, irqvec |-> Zero, fiqvec |-> Zero]]
Norm(st) == [st EXCEPT !.mem = Normalize(@)]

Init == s = <<>> /\ v = "" /\ hist = <<>> /\ nint = 0
Running == v # ""
AtEnd == Running /\ s.R.PC = EndPC(v) /\ PM(s.cpsr) = USR
Rec(a) == IF GEN THEN Append(hist, a) ELSE hist
Step == /\ Running /\ ~AtEnd
        /\ LET r == StepF(s, [n |-> "Step"]) IN
           /\ r.exact /\ r.out \in {"completed", "svc"}
           /\ s' = Norm(r.s)
        /\ hist' = Rec("Step") /\ UNCHANGED <<v, nint>>
TakeIRQ == /\ Running /\ ~AtEnd /\ nint < MAXI /\ PI(s.cpsr) = 0
       /\ s' = Norm(TakePhysicalIRQ(s)) /\ hist' = Rec("IRQ") /\ nint' = nint + 1 /\ UNCHANGED v
TakeFIQ == /\ Running /\ ~AtEnd /\ nint < MAXI /\ PF(s.cpsr) = 0
       /\ s' = Norm(TakePhysicalFIQ(s)) /\ hist' = Rec("FIQ") /\ nint' = nint + 1 /\ UNCHANGED v
Finished == AtEnd /\ UNCHANGED vars

UserRegs == {"R0usr", "R1usr", "R2usr", "R3usr", "R4usr", "R5usr", "R6usr", "R7usr", "R8usr", "R9usr", "R10usr", "R11usr", "R12usr",
             "SPusr", "LRusr", "PC"}
UserView(st) == [R |-> [r \in UserRegs |-> st.R[r]], cpsr |-> st.cpsr, mem |-> st.mem.base]
\* what the program computes, read off its text: two iterations, r0 = r2 = mem[0x60] = 2, flags of CMP 2,2 (Z and C set), PC at
\* the end, everything else User mode can see as at the start.  The interrupt-free run is one of the explored behaviours.
ExpView(vv) ==
  LET u == UserView(S0(vv)) IN
  [R |-> [u.R EXCEPT !.R0usr = <<0, 2>>, !.R2usr = <<0, 2>>, !.PC = EndPC(vv)],
   cpsr |-> <<24576, Lo(S0(vv).cpsr)>>,
   mem |-> <<[u.mem[1] EXCEPT ![97] = 2]>>]
Pick == v = "" /\ \E vv \in {"arm", "thumb"} : v' = vv /\ s' = S0(vv) /\ UNCHANGED <<hist, nint>>
Next == Pick \/ Step \/ TakeIRQ \/ TakeFIQ \/ Finished
Spec == Init /\ [][Next]_vars
Transparent == AtEnd => UserView(s) = ExpView(v)
StepsOK == (Running /\ ~AtEnd) => SpecStepOK(s, [n |-> "Step"])
\* exception modes are entered with IRQs masked, FIQ entry masks both
MasksOK == (Running /\ PM(s.cpsr) = IRQ => PI(s.cpsr) = 1) /\ (Running /\ PM(s.cpsr) = FIQ => PI(s.cpsr) = 1 /\ PF(s.cpsr) = 1)
EmitInit == (GEN /\ Running /\ hist = <<>>) =>
  PrintT(ToJson([kind |-> "init", v |-> v, R |-> s.R, cpsr |-> s.cpsr, vbar |-> s.sys.VBAR, sctlr |-> s.sys.SCTLR, mem |-> s.mem.base[1]]))
Emit == (GEN /\ AtEnd) => PrintT(ToJson([kind |-> "sched", v |-> v, sched |-> hist]))
=============================================================================
