-------------------------------- MODULE MC_LS --------------------------------
(***************************************************************************)
(* C02 on the spec, and the scenario generator of its spec -> code half.   *)
(* The whole machine (fetchless Exec: Decode, ExecLS / ExecLSD, MemU /     *)
(* MemA, the hub, LoadWritePC, PC advance) runs the single-register load / *)
(* store encodings                                                         *)
(*   ARM   LDR/STR/LDRB/STRB immediate (offset, pre-indexed, post-indexed) *)
(*         LDR/STR/LDRB/STRB register with every kind of shifted offset    *)
(*         LDRH/STRH/LDRSB/LDRSH immediate and register, LDRD/STRD imm     *)
(*         LDR literal, LDR pc (interworking)                              *)
(*   Thumb LDR/STR/LDRB/STRB/LDRH/STRH imm5 (T1), SP-relative (T2),        *)
(*         LDR literal T1 (at addresses = 0 and = 2 mod 4), imm12 (T3),    *)
(*         imm8 with P/U/W (T4), LDRD/STRD (T1)                            *)
(* over base registers in the middle of the RAM at 0x0, unaligned, in the  *)
(* RAM ending at 2^32 and 4 bytes below 2^32 (so that base + offset wraps),*)
(* and the affine basis of every offset field.  The result is compared     *)
(* with the property's wording written WITHOUT the spec's memory layer:    *)
(*   AddrOK    the bytes come from / go to base (+/-) offset mod 2^32      *)
(*             (offset addressing and pre-indexing) or base (post-indexing)*)
(*   LoadOK    Rt = the little-endian value of exactly `size` bytes, zero- *)
(*             or sign-extended (sign extension as integer subtraction)    *)
(*   StoreOK   exactly the bytes [address, address + size) change, to the  *)
(*             low bytes of Rt, lowest byte first; nothing else in memory  *)
(*   WbackOK   the base is written back to base (+/-) offset exactly for   *)
(*             pre- and post-indexed forms                                 *)
(*   LoadPCOK  a load into the PC branches to the loaded word, bit 0       *)
(*             selecting the instruction set                               *)
(*   FrameOK   nothing else changes; the PC advances by the length         *)
(* With GEN = TRUE every scenario is printed; the harness executes it on   *)
(* the real emulate_cycle() (real fetch) and TLC judges the step.          *)
(***************************************************************************)
EXTENDS Props, Json, TLC
CONSTANTS GEN, FULL
VARIABLES sc
vars == <<sc>>

\* RAM image: device 1 = [0, 256), device 2 = [0xFFFFFF00, 2^32); every byte differs from its neighbours
MemByte(d, off) == (off * 7 + 3 + 101 * d) % 256
HiBase == <<MM, 65280>>
Basis(n) == {0, 2^n - 1, 2^(n - 1) - 1} \cup {2^k : k \in 0..(n - 1)}
Few(n)   == {0, 1, 4, 2^(n - 1), 2^n - 1}
Bases == {<<0, 128>>, <<0, 129>>, <<0, 130>>, <<MM, 65408>>, <<MM, 65532>>, <<0, 4>>}
Data  == <<23130, 42405>>                \* r0 = 0x5A5AA5A5 (store data / overwritten by loads)
Data4 == <<4660, 22136>>                 \* r4, r5 (LDRD / STRD)
Data5 == <<39612, 57072>>

\* ---- instruction words ----
\* p.op: 0 STR, 1 LDR, 2 STRB, 3 LDRB (ls_*) ; 0 STRH, 1 LDRH, 2 LDRSB, 3 LDRSH (xls_*) ; 0 STRD, 1 LDRD
PUW(q) == q.p * 256 + q.u * 128 + q.w * 32
Word(q) ==
  CASE q.k = "ls_a1"  -> <<58368 + PUW(q) + (q.op \div 2) * 64 + (q.op % 2) * 16 + 1, q.imm>>                 \* E4/E5.. Rn=r1 Rt=r0
    [] q.k = "lsr_a1" -> <<58880 + PUW(q) + (q.op \div 2) * 64 + (q.op % 2) * 16 + 1, q.sh5 * 128 + q.sty * 32 + 2>>   \* E6/E7.. Rm=r2
    [] q.k = "xls_a1" -> <<57344 + PUW(q) + 64 + (IF q.op = 0 THEN 0 ELSE 16) + 1,
                           (q.imm \div 16) * 256 + (CASE q.op \in {0, 1} -> 176 [] q.op = 2 -> 208 [] q.op = 3 -> 240) + (q.imm % 16)>>
    [] q.k = "xlsr_a1" -> <<57344 + PUW(q) + (IF q.op = 0 THEN 0 ELSE 16) + 1,
                           (CASE q.op \in {0, 1} -> 176 [] q.op = 2 -> 208 [] q.op = 3 -> 240) + 2>>
    [] q.k = "lsd_a1" -> <<57344 + PUW(q) + 64 + 1, 16384 + (q.imm \div 16) * 256 + (IF q.op = 1 THEN 208 ELSE 240) + (q.imm % 16)>>   \* Rt = r4
    [] q.k = "lit_a1" -> <<58655 + q.u * 128, q.imm>>                                                 \* E51F/E59F 0...: LDR r0, [pc, #+/-imm]
    [] q.k = "ldrpc_a1" -> <<58769, 61440>>                                                                   \* E591F000  LDR pc, [r1]
    [] q.k = "ls_t1"  -> <<0, (CASE q.op = 0 -> 24576 [] q.op = 1 -> 26624 [] q.op = 2 -> 28672 [] q.op = 3 -> 30720
                                 [] q.op = 4 -> 32768 [] q.op = 5 -> 34816) + q.imm * 64 + 8>>               \* Rn = r1, Rt = r0
    [] q.k = "lssp_t2" -> <<0, (IF q.op = 1 THEN 38912 ELSE 36864) + q.imm>>                                  \* 9000/9800 | imm8, Rt = r0
    [] q.k = "lit_t1" -> <<0, 18432 + q.imm>>                                                                 \* 4800 | imm8
    [] q.k = "ls_t3"  -> <<(CASE q.op = 0 -> 63680 [] q.op = 1 -> 63696 [] q.op = 2 -> 63616 [] q.op = 3 -> 63632
                               [] q.op = 4 -> 63648 [] q.op = 5 -> 63664 [] q.op = 6 -> 63888 [] q.op = 7 -> 63920) + 1, q.imm>>
    [] q.k = "ls_t4"  -> <<(CASE q.op = 0 -> 63552 [] q.op = 1 -> 63568 [] q.op = 2 -> 63488 [] q.op = 3 -> 63504
                               [] q.op = 4 -> 63520 [] q.op = 5 -> 63536 [] q.op = 6 -> 63760 [] q.op = 7 -> 63792) + 1,
                            2048 + q.p * 1024 + q.u * 512 + q.w * 256 + q.imm>>
    [] q.k = "lsd_t1" -> <<59392 + PUW(q) + 64 + q.op * 16 + 1, 16384 + 1280 + q.imm>>                        \* E8/E9 .. Rt=r4 Rt2=r5
ThumbK(q) == q.k \in {"ls_t1", "lssp_t2", "lit_t1", "ls_t3", "ls_t4", "lsd_t1"}
ILen(q) == IF q.k \in {"ls_t1", "lssp_t2", "lit_t1"} THEN 16 ELSE 32
\* what the encoding means (the property side reads these, not the decoder's record)
\* T-forms: op 0 STR 1 LDR 2 STRB 3 LDRB 4 STRH 5 LDRH 6 LDRSB 7 LDRSH
IsLoad(q) == CASE q.k \in {"lit_a1", "lit_t1", "ldrpc_a1"} -> TRUE [] OTHER -> q.op % 2 = 1 \/ (q.k \in {"xls_a1", "xlsr_a1"} /\ q.op >= 1)
                                                                             \/ (q.k \in {"ls_t3", "ls_t4"} /\ q.op >= 6)
Size(q) == CASE q.k \in {"ls_a1", "lsr_a1"} -> IF q.op >= 2 THEN 1 ELSE 4
             [] q.k \in {"xls_a1", "xlsr_a1"} -> IF q.op = 2 THEN 1 ELSE 2
             [] q.k \in {"lsd_a1", "lsd_t1"} -> 8
             [] q.k \in {"ls_t1", "ls_t3", "ls_t4"} -> (CASE q.op \in {0, 1} -> 4 [] q.op \in {2, 3, 6} -> 1 [] q.op \in {4, 5, 7} -> 2)
             [] OTHER -> 4
Signed(q) == (q.k \in {"xls_a1", "xlsr_a1"} /\ q.op >= 2) \/ (q.k \in {"ls_t3", "ls_t4"} /\ q.op >= 6)

St(q) ==
  [R |-> [r \in RNames |-> CASE r = "PC" -> q.ia [] r = "R1usr" -> q.rn [] r = "R2usr" -> q.rm [] r = "SPsvc" -> q.rn
                             [] r = "R0usr" -> Data [] r = "R4usr" -> Data4 [] r = "R5usr" -> Data5 [] OTHER -> <<0, 96>>],
   cpsr |-> <<8192, (IF ThumbK(q) THEN 32 ELSE 0) + 19>>,                          \* C = 1 (RRX shifts it in); Supervisor
   spsr |-> [m \in SpsrNames |-> Zero], elr |-> Zero,
   sys |-> [SCTLR |-> SetBitW(Zero, 22, 1), SCR |-> Zero, HCR |-> Zero, HSCTLR |-> Zero, VBAR |-> Zero, MVBAR |-> Zero,
            HVBAR |-> Zero, NSACR |-> Zero, CPACR |-> Zero, HCPTR |-> Zero, DFSR |-> Zero, DFAR |-> Zero, MPUIR |-> Zero],
   mem |-> [devs |-> <<[b |-> Zero, n |-> 256], [b |-> HiBase, n |-> 256]>>,
            base |-> <<[j \in 1..256 |-> IF q.k = "ldrpc_a1" /\ j \in 129..132 THEN Byte(q.rm, j - 129) ELSE MemByte(1, j - 1)],
                       [j \in 1..256 |-> MemByte(2, j - 1)]>>, w |-> <<>>],
   ev |-> [evreg |-> 0, wfe |-> 0, wfi |-> 0],
   cfg |-> [arch |-> 7, pmsa |-> TRUE, sec |-> TRUE, virt |-> FALSE, lpae |-> FALSE, v7r |-> FALSE]]

Dflt == [imm |-> 0, p |-> 1, u |-> 1, w |-> 0, op |-> 1, sty |-> 0, sh5 |-> 0, rn |-> <<0, 128>>, rm |-> Zero, ia |-> <<0, 64>>]

\* ---- the property's reading of the scenario ----
OffMag(q) == CASE q.k \in {"ls_a1", "xls_a1", "lsd_a1", "lit_a1", "ls_t3", "ls_t4"} -> FromNat(q.imm)
               [] q.k \in {"ls_t1"} -> FromNat(q.imm * Size(q))
               [] q.k \in {"lssp_t2", "lit_t1", "lsd_t1"} -> FromNat(q.imm * 4)
               [] q.k = "xlsr_a1" -> q.rm
               [] q.k = "lsr_a1" -> \* DecodeImmShift + Shift with carry-in 1, spelled out per shift type
                    (CASE q.sty = 0 -> LSLw(q.rm, q.sh5)
                       [] q.sty = 1 -> LSRw(q.rm, IF q.sh5 = 0 THEN 32 ELSE q.sh5)
                       [] q.sty = 2 -> ASRw(q.rm, IF q.sh5 = 0 THEN 32 ELSE q.sh5)
                       [] q.sty = 3 -> IF q.sh5 = 0 THEN <<32768 + (q.rm[1] \div 2), (q.rm[2] \div 2) + (q.rm[1] % 2) * 32768>> ELSE RORw(q.rm, q.sh5))
               [] OTHER -> Zero
IsLit(q) == q.k \in {"lit_a1", "lit_t1"}
BaseVal(q) == IF IsLit(q) THEN LET pc == AddInt(q.ia, IF ThumbK(q) THEN 4 ELSE 8) IN <<pc[1], (pc[2] \div 4) * 4>> ELSE q.rn
OffAddr(q) == IF q.u = 1 THEN Add(BaseVal(q), OffMag(q)) ELSE Sub(BaseVal(q), OffMag(q))
Index(q) == IF q.k \in {"ls_t1", "lssp_t2", "lit_t1", "ls_t3", "lit_a1", "ldrpc_a1"} THEN TRUE ELSE q.p = 1
\* ARM: wback = (P = 0) or (W = 1); Thumb T4 / LDRD T1: wback = (W = 1) (post-indexed is P = 0, W = 1 there)
WBack(q) == IF q.k \in {"ls_t1", "lssp_t2", "lit_t1", "ls_t3", "lit_a1", "ldrpc_a1"} THEN FALSE
            ELSE IF q.k \in {"ls_t4", "lsd_t1"} THEN q.w = 1 ELSE q.p = 0 \/ q.w = 1
Addr(q)  == IF Index(q) THEN OffAddr(q) ELSE BaseVal(q)
\* byte of the initial RAM at a 32-bit address (0 outside both devices)
Byte0(q, a) == IF a[1] = 0 /\ a[2] < 256 THEN St(q).mem.base[1][a[2] + 1]
               ELSE IF a[1] = MM /\ a[2] >= 65280 THEN MemByte(2, a[2] - 65280) ELSE 0
InRam(a) == (a[1] = 0 /\ a[2] < 256) \/ (a[1] = MM /\ a[2] >= 65280)
\* scenarios kept: the access lies inside one device or entirely outside both (a boundary-crossing access is C16's subject);
\* no unaligned access in the Strongly-ordered top of the default memory map, doubleword accesses word-aligned, base /= Rt
Kept(q) == LET a == Addr(q)  n == Size(q) IN
  /\ (InRam(a) <=> InRam(AddInt(a, n - 1))) /\ (InRam(a) => AddInt(a, n - 1)[1] = a[1])
  /\ (a[1] # 0 => a[2] % (IF n = 8 THEN 4 ELSE n) = 0)
  /\ (n = 8 => a[2] % 4 = 0)
  /\ (q.k = "ldrpc_a1" => TRUE)
Fin(q0) == LET q == q0 @@ Dflt
               st == St(q)
               w == Word(q)
           IN [stage |-> 2, q |-> q, pre |-> st, w |-> w, len |-> ILen(q), r |-> StepF(st, [n |-> "Exec", w |-> w, len |-> ILen(q)])]

Kinds == {"ls_a1", "lsr_a1", "xls_a1", "xlsr_a1", "lsd_a1", "lit_a1", "ldrpc_a1", "ls_t1", "lssp_t2", "lit_t1", "ls_t3", "ls_t4", "lsd_t1"}
PUWs == {<<1, 0>>, <<1, 1>>, <<0, 0>>}                    \* <<P, W>>: offset, pre-indexed, post-indexed  (P = 0, W = 1 is LDRT/STRT)
TPUWs == {<<1, 0>>, <<1, 1>>, <<0, 1>>}                   \* Thumb: offset (with U = 1 in T4: the LDRT/STRT form), pre-, post-indexed
I12 == IF FULL THEN Basis(12) ELSE Few(12)
I8  == IF FULL THEN Basis(8) ELSE Few(8)
Init == sc = [stage |-> 0]
Pick1 == /\ sc.stage = 0
         /\ \E k \in Kinds, rn \in Bases : sc' = [stage |-> 1, k |-> k, rn |-> rn]
Try(q) == Kept(q @@ Dflt) /\ sc' = Fin(q)
Pick2 ==
  /\ sc.stage = 1
  /\ LET k == sc.k  b == [k |-> k, rn |-> sc.rn] IN
     \/ /\ k = "ls_a1" /\ \E pw \in PUWs, u \in 0..1, op \in 0..3, imm \in I12 : Try(b @@ [p |-> pw[1], w |-> pw[2], u |-> u, op |-> op, imm |-> imm])
     \/ /\ k = "lsr_a1" /\ \E pw \in PUWs, u \in 0..1, op \in 0..3, sty \in 0..3, sh5 \in {0, 1, 2, 31}, rm \in {<<0, 4>>, <<0, 1>>, <<32768, 16>>, <<MM, 65532>>} :
             Try(b @@ [p |-> pw[1], w |-> pw[2], u |-> u, op |-> op, sty |-> sty, sh5 |-> sh5, rm |-> rm])
     \/ /\ k = "xls_a1" /\ \E pw \in PUWs, u \in 0..1, op \in 0..3, imm \in I8 : Try(b @@ [p |-> pw[1], w |-> pw[2], u |-> u, op |-> op, imm |-> imm])
     \/ /\ k = "xlsr_a1" /\ \E pw \in PUWs, u \in 0..1, op \in 0..3, rm \in {<<0, 4>>, <<0, 1>>, <<0, 2>>, <<MM, 65532>>} :
             Try(b @@ [p |-> pw[1], w |-> pw[2], u |-> u, op |-> op, rm |-> rm])
     \/ /\ k = "lsd_a1" /\ \E pw \in PUWs, u \in 0..1, op \in 0..1, imm \in I8 : Try(b @@ [p |-> pw[1], w |-> pw[2], u |-> u, op |-> op, imm |-> imm])
     \/ /\ k = "lit_a1" /\ sc.rn = <<0, 128>> /\ \E u \in 0..1, imm \in I12, ia \in {<<0, 64>>, <<0, 0>>, <<MM, 65528>>} : Try(b @@ [u |-> u, imm |-> imm, ia |-> ia])
     \/ /\ k = "ldrpc_a1" /\ sc.rn = <<0, 128>> /\ \E rm \in {<<0, 129>>, <<0, 128>>, <<MM, 65533>>, <<MM, 65532>>, <<32768, 1>>} : Try(b @@ [rm |-> rm])
     \/ /\ k = "ls_t1" /\ \E op \in 0..5, imm \in Basis(5) : Try(b @@ [op |-> op, imm |-> imm])
     \/ /\ k = "lssp_t2" /\ \E op \in 0..1, imm \in I8 : Try(b @@ [op |-> op, imm |-> imm])
     \/ /\ k = "lit_t1" /\ sc.rn = <<0, 128>> /\ \E imm \in I8, ia \in {<<0, 64>>, <<0, 66>>, <<0, 2>>, <<MM, 65530>>} : Try(b @@ [imm |-> imm, ia |-> ia])
     \/ /\ k = "ls_t3" /\ \E op \in 0..7, imm \in I12 : Try(b @@ [op |-> op, imm |-> imm])
     \/ /\ k = "ls_t4" /\ \E pw \in TPUWs, u \in 0..1, op \in 0..7, imm \in I8 : Try(b @@ [p |-> pw[1], w |-> pw[2], u |-> u, op |-> op, imm |-> imm])
     \/ /\ k = "lsd_t1" /\ \E pw \in TPUWs, u \in 0..1, op \in 0..1, imm \in I8 : Try(b @@ [p |-> pw[1], w |-> pw[2], u |-> u, op |-> op, imm |-> imm])
Next == Pick1 \/ Pick2
Spec == Init /\ [][Next]_vars
Done == sc.stage = 2

q    == sc.q
pre  == sc.pre
R    == sc.r
post == R.s
A    == Addr(q)
N    == Size(q)
\* the value of the n bytes at A in the initial memory, little-endian, as limbs (n <= 4)
LE(a, n) == LET b(i) == IF i < n THEN Byte0(q, AddInt(a, i)) ELSE 0 IN <<b(3) * 256 + b(2), b(1) * 256 + b(0)>>
SExt(v, n) == IF n = 4 THEN v ELSE LET m == v[2] IN IF m >= 2^(8 * n - 1) THEN AddInt(Zero, m - 2^(8 * n)) ELSE v
BaseReg == IF q.k = "lssp_t2" THEN "SPsvc" ELSE "R1usr"
DataReg == IF N = 8 THEN "R4usr" ELSE "R0usr"
ExactOK == Done => R.exact /\ R.out = "completed"
LoadOK == (Done /\ IsLoad(q) /\ q.k # "ldrpc_a1") =>
  IF N = 8 THEN post.R.R4usr = LE(A, 4) /\ post.R.R5usr = LE(AddInt(A, 4), 4)
  ELSE post.R.R0usr = (IF Signed(q) THEN SExt(LE(A, N), N) ELSE LE(A, N))
\* memory after the step, read through the spec's own hub (the write log), compared byte by byte with the property's image
StData(i) == IF N = 8 THEN (IF i < 4 THEN Byte(Data4, i) ELSE Byte(Data5, i - 4)) ELSE Byte(Data, i)
InAccess(a) == \E i \in 0..(N - 1) : AddInt(A, i) = a
StoreOK == Done =>
  \A d \in 1..2, off \in 0..255 :
     LET a == AddInt(pre.mem.devs[d].b, off) IN
     DevByte(post.mem, d, off) = (IF ~IsLoad(q) /\ InAccess(a) THEN StData(CHOOSE i \in 0..(N - 1) : AddInt(A, i) = a) ELSE Byte0(q, a))
WbackOK == Done => (IF WBack(q) THEN post.R[BaseReg] = OffAddr(q) ELSE post.R[BaseReg] = pre.R[BaseReg])
LoadPCOK == (Done /\ q.k = "ldrpc_a1") =>
  /\ post.R.PC = (IF Bit(q.rm, 0) = 1 THEN <<q.rm[1], q.rm[2] - 1>> ELSE q.rm)
  /\ PT(post.cpsr) = Bit(q.rm, 0)
FrameOK == Done =>
  /\ \A r \in RNames \ {"PC", BaseReg, "R0usr", "R4usr", "R5usr"} : post.R[r] = pre.R[r]
  /\ (~IsLoad(q) \/ N = 8 \/ q.k = "ldrpc_a1" => post.R.R0usr = pre.R.R0usr)
  /\ (~(IsLoad(q) /\ N = 8) => post.R.R4usr = pre.R.R4usr /\ post.R.R5usr = pre.R.R5usr)
  /\ (q.k # "ldrpc_a1" => post.R.PC = AddInt(q.ia, ILen(q) \div 8) /\ post.cpsr = pre.cpsr)
  /\ post.spsr = pre.spsr /\ post.elr = pre.elr /\ post.sys = pre.sys /\ post.ev = pre.ev
  /\ post.mem.devs = pre.mem.devs /\ post.mem.base = pre.mem.base
  /\ RegsTypeOK(post)
Emit == (GEN /\ Done) => PrintT(ToJson([k |-> q.k, w |-> sc.w, len |-> sc.len, ia |-> q.ia, rn |-> q.rn, rm |-> q.rm]))
=============================================================================
