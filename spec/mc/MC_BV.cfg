SPECIFICATION Spec
CONSTANTS NMAX = 8
          SMAX = 255
INVARIANT ShiftsAgree
INVARIANT RRXAgree
INVARIANT ShiftLemmas
INVARIANT AddAgree
INVARIANT ExtendAgree
INVARIANT SatLemmas
INVARIANT CountLemmas
INVARIANT ReverseLemma
CHECK_DEADLOCK FALSE
