------------------------------- MODULE MC_LSM --------------------------------
(***************************************************************************)
(* C03 on the spec: ISA!ExecLDM / ExecSTM (the pseudocode loops) against   *)
(* the property's own wording, for register lists x {LDM, STM} x           *)
(* {IA, IB, DA, DB} x write-back x base placement (mid-RAM, wrapping at    *)
(* 2^32), and the two-step consequence PUSH L ; POP L = identity on the    *)
(* listed registers and SP.  LISTS = "all" enumerates all 2^16 lists,      *)
(* "quick" the structured subset (weight <= 2, prefixes, suffixes,         *)
(* alternating, lists containing the base / SP / PC).                      *)
(***************************************************************************)
EXTENDS ISA
CONSTANTS LISTS
VARIABLES sc
vars == <<sc>>

\* two RAM windows: [0, 160) and [2^32 - 96, 2^32)
MemInit == [devs |-> <<[b |-> Zero, n |-> 160], [b |-> <<MM, M - 96>>, n |-> 96]>>,
            base |-> <<[j \in 1..160 |-> (j * 7) % 251], [j \in 1..96 |-> (j * 11) % 241]>>, w |-> <<>>]
RegVal(i) == <<4096 + i, 8192 + 257 * i>>              \* pairwise distinct words
S0(basereg, base) ==
  [R |-> [r \in RNames |-> IF r = "PC" THEN <<0, 64>> ELSE <<1, 1>>],
   cpsr |-> <<0, 19>>, spsr |-> [m \in SpsrNames |-> Zero], elr |-> Zero,
   sys |-> [SCTLR |-> <<64, 0>>, SCR |-> Zero, HCR |-> Zero, HSCTLR |-> Zero, VBAR |-> Zero, MVBAR |-> Zero, HVBAR |-> Zero,
            DFSR |-> Zero, DFAR |-> Zero],
   mem |-> MemInit, ev |-> [evreg |-> 0, wfe |-> 0, wfi |-> 0],
   cfg |-> [arch |-> 7, pmsa |-> TRUE, sec |-> TRUE, virt |-> FALSE, lpae |-> FALSE]]
Setup(n, base) ==
  LET s0 == S0(n, base)
      s1 == [s0 EXCEPT !.R = [r \in RNames |-> IF r = "PC" THEN <<0, 64>> ELSE s0.R[r]]]
      RECURSIVE fill(_, _)
      fill(s, i) == IF i > 14 THEN s ELSE fill(Rset(s, i, RegVal(i)), i + 1)
  IN Rset(fill(s1, 0), n, base)

Structured == {2^a : a \in 0..15} \cup {2^a + 2^b : a \in {0, 1, 5, 7, 13, 14, 15}, b \in {0, 2, 5, 12, 13, 15}} \cup {2^a - 1 : a \in 1..16}
              \cup {65536 - 2^a : a \in 0..15} \cup {21845, 43690, 255, 65280, 61680, 3855, 32769, 49152, 24576}
\* "wide": every 29th list plus all lists with at most 2 or at least 15 registers (about 2.5k lists)
Wide == {l \in 1..65535 : l % 29 = 0 \/ PopCnt(l) <= 2 \/ PopCnt(l) >= 15} \cup (Structured \ {0})
ListSet == IF LISTS = "all" THEN 1..65535 ELSE IF LISTS = "wide" THEN Wide ELSE Structured \ {0}
Bases == {<<0, 80>>, <<MM, MM - 15>>}
AMs == {"IA", "IB", "DA", "DB"}

Init == sc = [stage |-> 0]
PickList == sc.stage = 0 /\ \E L \in ListSet : sc' = [stage |-> 1, regs |-> L]
\* with all 2^16 lists only the PUSH/POP-shaped variants (base SP, write-back) are enumerated per list
PickRest == sc.stage = 1 /\ \E ld \in BOOLEAN, am \in AMs, wb \in (IF LISTS \in {"all", "wide"} THEN {TRUE} ELSE BOOLEAN),
                              n \in (IF LISTS \in {"all", "wide"} THEN {13} ELSE {5, 13}),
                              b \in (IF LISTS \in {"all", "wide"} THEN {<<0, 80>>} ELSE Bases) :
              sc' = [stage |-> 2, regs |-> sc.regs, load |-> ld, am |-> am, wback |-> wb, n |-> n, base |-> b]
Next == PickList \/ PickRest
Spec == Init /\ [][Next]_vars
Done == sc.stage = 2

Pre  == Setup(sc.n, sc.base)
Ins  == [k |-> IF sc.load THEN "ldm" ELSE "stm", n |-> sc.n, regs |-> sc.regs, wback |-> sc.wback, am |-> sc.am]
Res  == IF sc.load THEN ExecLDM(X0(Pre), Ins) ELSE ExecSTM(X0(Pre), Ins)
Cnt  == RegCount(sc.regs)
\* the property's wording: the architecturally specified range [start, start + 4n)
Start == CASE sc.am = "IA" -> sc.base [] sc.am = "IB" -> AddInt(sc.base, 4)
           [] sc.am = "DA" -> AddInt(sc.base, 4 - 4 * Cnt) [] sc.am = "DB" -> AddInt(sc.base, -(4 * Cnt))
\* k-th lowest listed register (k = 1..Cnt)
Listed == {r \in 0..15 : RegBit(sc.regs, r) = 1}
Rank(r) == Cardinality({q \in Listed : q < r}) + 1
WordAt(mem, a) == BytesToWord(HubRead(mem, a, 4).bytes)
RegView(s, r) == IF r = 15 THEN PCRead(s) ELSE Rget(s, r)

\* every access of these instances is aligned and inside or outside RAM: no aborts
NoAbort_ == Done => Ok(Res)
StmWords == (Done /\ ~sc.load) =>
  \A r \in Listed :
    LET a == AddInt(Start, 4 * (Rank(r) - 1))
        unk == r = sc.n /\ sc.wback /\ r # LowestReg(sc.regs)
    IN unk \/ WordAt(Res.s.mem, a) = (IF FindDev(Pre.mem, a) = 0 THEN Zero ELSE RegView(Pre, r))
StmFootprint == (Done /\ ~sc.load) =>
  \A c \in Touched(Res.s.mem) :
     \E k \in 0..(4 * Cnt - 1) : LET a == AddInt(Start, k) IN FindDev(Pre.mem, a) = c[1] /\ DevOff(Pre.mem, c[1], a) = c[2]
LdmRegs == (Done /\ sc.load) =>
  \A r \in Listed \ {15} :
    (r = sc.n /\ sc.wback) \/ Rget(Res.s, r) = WordAt(Pre.mem, AddInt(Start, 4 * (Rank(r) - 1)))
LdmPC == (Done /\ sc.load /\ 15 \in Listed) =>
  LET v == WordAt(Pre.mem, AddInt(Start, 4 * (Cnt - 1))) IN
  IF Bit(v, 0) = 1 THEN Res.s.R.PC = WAnd(v, <<MM, MM - 1>>) /\ PT(Res.s.cpsr) = 1
  ELSE IF Bit(v, 1) = 0 THEN Res.s.R.PC = v /\ PT(Res.s.cpsr) = 0
  ELSE Res.unp
LdmMemUnchanged == (Done /\ sc.load) => Res.s.mem = Pre.mem
WriteBack == (Done /\ ~(sc.load /\ sc.n \in Listed)) =>
  Rget(Res.s, sc.n) = (IF ~sc.wback THEN sc.base
                       ELSE IF sc.am \in {"IA", "IB"} THEN AddInt(sc.base, 4 * Cnt) ELSE AddInt(sc.base, -(4 * Cnt)))
OthersUnchanged == Done =>
  \A r \in (0..14) \ (IF sc.load THEN Listed ELSE {}) : r = sc.n \/ Rget(Res.s, r) = Rget(Pre, r)
\* PUSH L ; POP L restores every listed register and SP (L without SP and PC; base = SP)
PushPop == (Done /\ ~sc.load /\ sc.am = "DB" /\ sc.wback /\ sc.n = 13 /\ 13 \notin Listed /\ 15 \notin Listed) =>
  LET x1 == Res
      \* clobber the listed registers between the two instructions
      RECURSIVE clob(_, _)
      clob(s, i) == IF i > 14 THEN s ELSE clob(IF i \in Listed THEN Rset(s, i, <<9, 9>>) ELSE s, i + 1)
      x2 == ExecLDM(X0(clob(x1.s, 0)), [k |-> "ldm", n |-> 13, regs |-> sc.regs, wback |-> TRUE, am |-> "IA"])
      mapped == \A k \in 0..(4 * Cnt - 1) : FindDev(Pre.mem, AddInt(Start, k)) # 0
  IN mapped => (Ok(x2) /\ \A r \in Listed \cup {13} : Rget(x2.s, r) = Rget(Pre, r))
=============================================================================
