SPECIFICATION Spec
INVARIANT FaultOK
INVARIANT FaultBookkeeping
INVARIANT FootprintOK
INVARIANT ReadOK
INVARIANT RoundTrip
INVARIANT BytewiseOK
INVARIANT FetchLE
CHECK_DEADLOCK FALSE
