------------------------------ MODULE MC_Coproc ------------------------------
(***************************************************************************)
(* C12 (coprocessor part) on the spec: for the generic coprocessors the    *)
(* whole machine (decode of MCR / MRC / CDP / MCRR / LDC / STC words,      *)
(* Arm!StepF) takes the Undefined Instruction exception exactly when the   *)
(* access-control registers deny the current privilege and security state, *)
(* written here as the property states it:                                 *)
(*    denied  ==  (Non-secure and NSACR.cp<n> = 0)                         *)
(*             or CPACR.cp<n> = 00                                         *)
(*             or (CPACR.cp<n> = 01 and the mode is User)                  *)
(* and otherwise reaches the coprocessor hook (outcome notimpl:coproc..);   *)
(* CPACR.cp<n> = 10 is UNPREDICTABLE.  With the Virtualization Extensions: *)
(* CPACR does not apply in Hyp mode, and a Non-secure access that is not   *)
(* denied is trapped to Hyp mode when HCPTR.TCP<n> = 1 (from Hyp mode      *)
(* itself it is UNDEFINED).                                                *)
(***************************************************************************)
EXTENDS Props
VARIABLES sc
vars == <<sc>>
MkWordBits(pairs) == LET RECURSIVE f(_) f(k) == IF k = 0 THEN Zero ELSE SetBitW(f(k - 1), pairs[k][1], pairs[k][2]) IN f(Len(pairs))
\* ARM words (cond = AL) with coprocessor number cp: CDP, MCR, MRC, MCRR, MRRC, LDC (imm), STC
Word(kind, cp) ==
  CASE kind = "CDP"  -> <<60945, cp * 256 + 2>>              \* EE11 0x02   CDP  p<cp>, 1, c0, c1, c2
    [] kind = "MCR"  -> <<60928 + 1, 4096 + cp * 256 + 16 + 2>>   \* EE01 1x12   MCR  p<cp>, 0, r1, c1, c2
    [] kind = "MRC"  -> <<60928 + 17, 4096 + cp * 256 + 16 + 2>>  \* EE11 1x12   MRC  p<cp>, 0, r1, c1, c2
    [] kind = "MCRR" -> <<60480 + 2, 4096 + cp * 256 + 16 + 3>>   \* EC42 1x13   MCRR p<cp>, 1, r1, r2, c3
    [] kind = "MRRC" -> <<60496 + 2, 4096 + cp * 256 + 16 + 3>>   \* EC52 1x13   MRRC
    [] kind = "LDC"  -> <<60816 + 3, 4096 + cp * 256 + 4>>        \* ED93 1x04   LDC  p<cp>, c1, [r3, #16]
    [] kind = "STC"  -> <<60800 + 3, 4096 + cp * 256 + 4>>        \* ED83 1x04   STC
Kinds == {"CDP", "MCR", "MRC", "MCRR", "MRRC", "LDC", "STC"}
S(p) ==
  [R |-> [r \in RNames |-> IF r = "PC" THEN <<0, 64>> ELSE <<0, 96>>], cpsr |-> <<0, p.mode>>,
   spsr |-> [m \in SpsrNames |-> Zero], elr |-> Zero,
   sys |-> [SCTLR |-> MkWordBits(<< <<22, 1>> >>), SCR |-> <<0, p.ns>>, HCR |-> Zero, HSCTLR |-> Zero, VBAR |-> Zero, MVBAR |-> Zero,
            HVBAR |-> Zero, NSACR |-> <<0, p.nsacr * 2^p.cp>>, CPACR |-> LSLw(<<0, p.acc>>, 2 * p.cp), HCPTR |-> <<0, p.tcp * 2^p.cp>>,
            HSTR |-> Zero,
            DFSR |-> Zero, DFAR |-> Zero, MPUIR |-> Zero],
   mem |-> [devs |-> <<[b |-> Zero, n |-> 256]>>, base |-> <<[j \in 1..256 |-> 0]>>, w |-> <<>>],
   ev |-> [evreg |-> 0, wfe |-> 0, wfi |-> 0],
   cfg |-> [arch |-> 7, pmsa |-> TRUE, sec |-> p.sec, virt |-> p.virt, lpae |-> FALSE, v7r |-> FALSE]]
Init == sc = [stage |-> 0]
Pick == sc.stage = 0 /\ \E kind \in Kinds, cp \in {0, 7, 9, 12, 13, 14, 15}, acc \in 0..3, nsacr \in {0, 1}, ns \in {0, 1}, sec \in BOOLEAN,
                          mode \in {16, 19, 17, 31, 22, 26}, virt \in BOOLEAN, tcp \in {0, 1} :
          /\ (mode = 22 => sec) /\ (~sec => ns = 0) /\ (virt => sec) /\ (mode = 26 => virt /\ ns = 1) /\ (~virt => tcp = 0)
          /\ sc' = [stage |-> 1, kind |-> kind, cp |-> cp, acc |-> acc, nsacr |-> nsacr, ns |-> ns, sec |-> sec, mode |-> mode,
                    virt |-> virt, tcp |-> tcp]
Next == Pick
Spec == Init /\ [][Next]_vars
Done == sc.stage = 1
R == StepF(S(sc), [n |-> "Exec", w |-> Word(sc.kind, sc.cp), len |-> 32])
NonSecure == sc.sec /\ sc.ns = 1 /\ sc.mode # 22
InHyp == sc.mode = 26
Denied == (NonSecure /\ sc.nsacr = 0) \/ ((~InHyp) /\ (sc.acc = 0 \/ (sc.acc = 1 /\ sc.mode = 16)))
Trapped == sc.virt /\ NonSecure /\ sc.tcp = 1
\* CP14 / CP15: the access-control registers do not govern these spaces; which instruction forms exist does.
\* (property-side statement: a CDP, a CP15 LDC/STC and a CP14 MCRR do not exist = UNDEFINED; the register and
\* register-pair transfers reach the system-register decode, which the emulator documents as not implemented;
\* the answer does not depend on CPACR / NSACR / security state)
SysSpace == Done /\ sc.cp \in {14, 15}
SysFormsOK == SysSpace =>
  IF sc.kind = "CDP" \/ (sc.cp = 15 /\ sc.kind \in {"LDC", "STC"}) \/ (sc.cp = 14 /\ sc.kind \in {"MCRR", "MRRC", "LDC", "STC"})   \* (the MRRC word has opc1 = 1, the LDC/STC words CRd = c1: no such CP14 registers)
  THEN R.exact /\ R.out = "undef" /\ R.s = TakeUndefInstr(S(sc))
  ELSE (~R.exact) /\ R.out \in {"notimpl:cp15_instr_decode", "notimpl:cp14_debug_instr_decode"}
SysIndepOK == SysSpace =>
  R.out = StepF(S([sc EXCEPT !.acc = 3, !.nsacr = 1]), [n |-> "Exec", w |-> Word(sc.kind, sc.cp), len |-> 32]).out
GatingOK == (Done /\ sc.cp < 14) =>
  IF Denied THEN R.exact /\ R.out = "undef" /\ R.s = TakeUndefInstr(S(sc))
  ELSE IF sc.acc = 2 /\ ~InHyp THEN ~R.exact
  ELSE IF Trapped THEN (IF InHyp THEN R.exact /\ R.out = "undef" /\ R.s = TakeUndefInstr(S(sc))
                        ELSE R.exact /\ R.out = "hyptrap" /\ R.s = TakeHypTrap(S(sc)) /\ PM(R.s.cpsr) = 26)
  ELSE (~R.exact) /\ R.out \in {"notimpl:coproc", "notimpl:coproc-mem"}
\* the words really are the instructions they are meant to be
WordsOK == Done => LET i == Decode(0, Word(sc.kind, sc.cp), 32, [it |-> 0, arch |-> 7, hyp |-> FALSE]) IN
                     i.k = "coproc" /\ i.cp = sc.cp /\ ~i.unp /\
                     i.enc = (CASE sc.kind = "LDC" -> "LDC_i" [] OTHER -> sc.kind) \o "_A1"
=============================================================================
