SPECIFICATION Spec
CONSTANTS GEN = FALSE
          FULL = FALSE
INVARIANT ExactOK
INVARIANT LoadOK
INVARIANT StoreOK
INVARIANT WbackOK
INVARIANT LoadPCOK
INVARIANT FrameOK
INVARIANT Emit
CHECK_DEADLOCK FALSE
