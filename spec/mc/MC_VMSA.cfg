SPECIFICATION Spec
CONSTANTS FULL = FALSE
INVARIANT OutcomeOK
CHECK_DEADLOCK FALSE
