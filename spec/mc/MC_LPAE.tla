------------------------------- MODULE MC_LPAE -------------------------------
(***************************************************************************)
(* C15 on the spec, long-descriptor format: VMSA!WalkLD / TranslateV       *)
(* against the property's statement for walk shapes (invalid / block at    *)
(* level 1, table -> invalid / block at level 2, table -> table -> invalid *)
(* / reserved / page at level 3) x TTBCR.T0SZ (first lookup at level 1 or  *)
(* 2) x EPD0 x APTable at both table levels x AP[2:1] x AF x VA indices x  *)
(* read/write x privileged/unprivileged.  Expected: the fault decision in  *)
(* walk order, the hierarchical permission, and the output address by      *)
(* block size (1 GiB, 2 MiB, 4 KiB) written with plain arithmetic.         *)
(* (Faults in this format reach the emulator's mock hook: the spec says    *)
(* NotImpl for each, so the fault decision is what is compared.)           *)
(***************************************************************************)
EXTENDS VMSA, Json
CONSTANTS GEN                            \* TRUE: a reduced index set, every finished scenario printed for replay on the real code
VARIABLES sc
vars == <<sc>>
MkWordBits(pairs) == LET RECURSIVE f(_) f(k) == IF k = 0 THEN Zero ELSE SetBitW(f(k - 1), pairs[k][1], pairs[k][2]) IN f(Len(pairs))
Shapes == {"l1inv", "l1block", "l2inv", "l2block", "l3inv", "l3resv", "page"}
\* device [0x4000, 0xD000): level-1 table at 0x8000, level-2 table at 0x9000, level-3 table at 0xA000
L1T == 32768  L2T == 36864  L3T == 40960
OutBaseLD(shape) == CASE shape = "l1block" -> <<49152, 0>>          \* 0xC0000000 (1 GiB aligned)
                      [] shape = "l2block" -> <<4672, 0>>           \* 0x12400000 (2 MiB aligned)
                      [] OTHER -> <<4660, 20480>>                   \* 0x12345000 (4 KiB aligned)
\* descriptor words [lo, hi]
TableD(base, apt) == [lo |-> <<0, base + 3>>, hi |-> <<apt * 8192, 0>>]              \* APTable = desc<62:61> = hi<30:29>
LeafD(shape, ap, af, islevel3) ==
  [lo |-> WOr(OutBaseLD(shape), <<0, ap * 64 + af * 1024 + 4 + (IF islevel3 THEN 3 ELSE 1)>>), hi |-> <<0, 37>>]   \* AttrIndx = 1, ext = 0x25
Inval == [lo |-> <<43690, 43690>>, hi |-> <<21845, 21845>>]
Resv3 == [lo |-> <<4660, 20480 + 1024 + 1>>, hi |-> Zero]
FirstLevel(p) == IF p.t0sz < 2 THEN 1 ELSE 2
\* descriptors placed along the walk of this scenario
D1(p) == CASE p.shape = "l1inv" -> Inval [] p.shape = "l1block" -> LeafD("l1block", p.ap, p.af, FALSE) [] OTHER -> TableD(L2T, p.apt1)
D2(p) == CASE p.shape = "l2inv" -> Inval [] p.shape = "l2block" -> LeafD("l2block", p.ap, p.af, FALSE) [] OTHER -> TableD(L3T, p.apt2)
D3(p) == CASE p.shape = "l3inv" -> Inval [] p.shape = "l3resv" -> Resv3 [] OTHER -> LeafD("page", p.ap, p.af, TRUE)
VA(p) == <<p.i1 * 16384 + p.i2 * 32 + p.i3 \div 16, (p.i3 % 16) * 4096 + 291>>          \* i1:ia<31:30> i2:ia<29:21> i3:ia<20:12> off 0x123
ZeroBase == [j \in 1..36864 |-> 0]
MemFor(p) ==
  LET bytes8(off, d) == [k \in 1..4 |-> <<1, off - 16384 + k - 1, Byte(d.lo, k - 1)>>] \o [k \in 1..4 |-> <<1, off - 16384 + 3 + k, Byte(d.hi, k - 1)>>]
      w1 == IF FirstLevel(p) = 1 THEN bytes8(L1T + 8 * p.i1, D1(p)) ELSE <<>>
      w2 == IF p.shape \notin {"l1inv", "l1block"} \/ FirstLevel(p) = 2 THEN bytes8(L2T + 8 * p.i2, D2(p)) ELSE <<>>
      w3 == IF p.shape \in {"l3inv", "l3resv", "page"} THEN bytes8(L3T + 8 * p.i3, D3(p)) ELSE <<>>
  IN [devs |-> <<[b |-> <<0, 16384>>, n |-> 36864]>>, base |-> <<ZeroBase>>, w |-> w1 \o w2 \o w3]
S(p) ==
  [R |-> [r \in RNames |-> Zero], cpsr |-> <<0, IF p.priv THEN 19 ELSE 16>>, spsr |-> [m \in SpsrNames |-> Zero], elr |-> Zero,
   sys |-> [SCTLR |-> MkWordBits(<< <<0, 1>>, <<28, 1>> >>), SCR |-> Zero, HCR |-> Zero, HSCTLR |-> Zero,
            VBAR |-> Zero, MVBAR |-> Zero, HVBAR |-> Zero, DFSR |-> Zero, DFAR |-> Zero,
            TTBCR |-> <<32768, p.t0sz + 128 * p.epd0>>, TTBR0 |-> <<0, IF FirstLevel(p) = 1 THEN L1T ELSE L2T>>, TTBR0H |-> Zero,
            TTBR1 |-> Zero, TTBR1H |-> Zero, MAIR0 |-> <<0, 65280>>, MAIR1 |-> Zero,      \* Attr1 = 0xFF (Normal), Attr0 = 0 (SO)
            DACR |-> Zero, PRRR |-> Zero, NMRR |-> Zero, FCSEIDR |-> Zero],
   mem |-> MemFor(p), ev |-> [evreg |-> 0, wfe |-> 0, wfi |-> 0],
   cfg |-> [arch |-> 7, pmsa |-> FALSE, sec |-> TRUE, virt |-> FALSE, lpae |-> TRUE]]

Init == sc = [stage |-> 0]
Pick1 == sc.stage = 0 /\ \E shape \in Shapes, ap \in 0..3, af \in {0, 1}, apt1 \in 0..3, apt2 \in 0..3 :
           sc' = [stage |-> 1, shape |-> shape, ap |-> ap, af |-> af, apt1 |-> apt1, apt2 |-> apt2]
Pick2 == sc.stage = 1 /\ \E t0sz \in (IF GEN THEN {0, 2} ELSE {0, 1, 2, 3}), epd0 \in (IF GEN THEN {0} ELSE {0, 1}), i1 \in {0, 1},
                            i2 \in (IF GEN THEN {5} ELSE {0, 5, 255}), i3 \in (IF GEN THEN {7} ELSE {0, 7, 511}),
                            priv \in BOOLEAN, wr \in BOOLEAN :
           /\ (t0sz >= 2 => i1 = 0)
           /\ (t0sz >= 2 => sc.shape \notin {"l1inv", "l1block"})          \* the walk starts at level 2: no level-1 descriptor
           /\ (t0sz = 3 => i2 < 256)
           /\ sc' = [sc EXCEPT !.stage = 2] @@ [t0sz |-> t0sz, epd0 |-> epd0, i1 |-> i1, i2 |-> i2, i3 |-> i3, priv |-> priv, wr |-> wr]
Next == Pick1 \/ Pick2
Spec == Init /\ [][Next]_vars
Done == sc.stage = 2

T == TranslateV(X0(S(sc)), VA(sc), sc.priv, sc.wr, 4, TRUE)
\* the property, in walk order
OnPath1 == FirstLevel(sc) = 1 /\ sc.shape \notin {"l1inv", "l1block"}       \* a level-1 table descriptor was followed
OnPath2 == sc.shape \in {"l3inv", "l3resv", "page"}                          \* a level-2 table descriptor was followed
ap2 == IF (sc.ap \div 2 = 1) \/ (OnPath1 /\ sc.apt1 \div 2 = 1) \/ (OnPath2 /\ sc.apt2 \div 2 = 1) THEN 1 ELSE 0
ap1 == IF (sc.ap % 2 = 1) /\ ~(OnPath1 /\ sc.apt1 % 2 = 1) /\ ~(OnPath2 /\ sc.apt2 % 2 = 1) THEN 1 ELSE 0
Denied == ((~sc.priv) /\ ap1 = 0) \/ (sc.wr /\ ap2 = 1)
Expected ==
  IF sc.epd0 = 1 THEN "fault"
  ELSE IF sc.shape \in {"l1inv", "l2inv", "l3inv", "l3resv"} THEN "fault"
  ELSE IF sc.af = 0 THEN "fault"
  ELSE IF Denied THEN "fault" ELSE "ok"
BlockBits == CASE sc.shape = "l1block" -> 30 [] sc.shape = "l2block" -> 21 [] OTHER -> 12
ExpPA == WOr(OutBaseLD(sc.shape), WAnd(VA(sc), WNot(TopMask(32 - BlockBits))))
OutcomeOK == Done =>
  CASE Expected = "ok" -> Ok(T.x) /\ ~T.x.unp /\ T.pa = ExpPA /\ T.ext = 37
    [] OTHER -> T.x.ni = "tlb_lookup_came_from_cache_maintenance" /\ T.x.ab.t = "none"
\* spec -> code: the scenario as the harness needs it (system registers, the descriptor bytes, the probe)
Emit == (GEN /\ Done) =>
  PrintT(ToJson([p |-> sc, va |-> VA(sc), w |-> MemFor(sc).w, ttbcr |-> S(sc).sys.TTBCR, ttbr0 |-> S(sc).sys.TTBR0,
                 mair0 |-> S(sc).sys.MAIR0, sctlr |-> S(sc).sys.SCTLR, expected |-> Expected]))
\* vacuity probes (expected to be VIOLATED; run by hand): successful walks of every leaf kind exist
NeverOkPage == Done => ~(Expected = "ok" /\ sc.shape = "page" /\ sc.t0sz = 3 /\ sc.apt1 = 0 /\ sc.apt2 = 1)
=============================================================================
