SPECIFICATION Spec
CONSTANTS GEN = FALSE
          FLAGSET = {0, 2, 6, 9}
          MENUS = {0, 1, 2, 3, 4, 5, 6, 7, 8}
INVARIANT FinalRegs
INVARIANT ITRetired
INVARIANT CondOK
INVARIANT IRQSavesIT
INVARIANT SvcOK
INVARIANT AbortOK
INVARIANT Emit
CHECK_DEADLOCK TRUE
