SPECIFICATION Spec
CONSTANTS GEN = FALSE
          FLAGSET = {0, 2, 6, 9}
          MENUS = {0, 1, 2}
INVARIANT FinalRegs
INVARIANT ITRetired
INVARIANT CondOK
INVARIANT IRQSavesIT
INVARIANT Emit
CHECK_DEADLOCK TRUE
