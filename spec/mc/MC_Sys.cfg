SPECIFICATION Spec
CONSTANTS GEN = FALSE
          MAXI = 2
INVARIANT Transparent
INVARIANT StepsOK
INVARIANT MasksOK
INVARIANT EmitInit
INVARIANT Emit
CHECK_DEADLOCK TRUE
