------------------------------ MODULE MC_Multi -------------------------------
(***************************************************************************)
(* C20 on the spec: two processor instances, each created with its own     *)
(* configuration (PMSA v6, PMSA v7, VMSA v7, PMSA v6 without the security  *)
(* extensions) and a small configuration-sensitive program, stepped in     *)
(* every interleaving (creation of an instance before its first step).     *)
(* Isolation: after its k-th step an instance is in exactly the state its  *)
(* solo run reaches after k steps.  GEN prints every complete schedule for *)
(* replay on real ArmV6 objects living in one Python process.              *)
(***************************************************************************)
EXTENDS Arm, Json
CONSTANTS GEN, STEPS
VARIABLES inst, hist
vars == <<inst, hist>>
MkWordBits(pairs) == LET RECURSIVE f(_) f(k) == IF k = 0 THEN Zero ELSE SetBitW(f(k - 1), pairs[k][1], pairs[k][2]) IN f(Len(pairs))

Cfg(c) == CASE c = 1 -> [arch |-> 6, pmsa |-> TRUE, sec |-> TRUE, virt |-> FALSE, lpae |-> FALSE]
            [] c = 2 -> [arch |-> 7, pmsa |-> TRUE, sec |-> TRUE, virt |-> FALSE, lpae |-> FALSE]
            [] c = 3 -> [arch |-> 7, pmsa |-> FALSE, sec |-> TRUE, virt |-> FALSE, lpae |-> FALSE]
            [] c = 4 -> [arch |-> 6, pmsa |-> TRUE, sec |-> FALSE, virt |-> FALSE, lpae |-> FALSE]
\* programs (ARM state, at address 16), little-endian bytes
Prog(p) ==
  CASE p = 1 -> <<1, 240, 160, 225,   0, 0, 160, 225,  0, 0, 160, 225>>      \* MOV pc, r1 ; NOP ; NOP   (r1 = 0x41: v7 interworks)
    [] p = 2 -> <<0, 32, 147, 229,   4, 48, 131, 226,  0, 32, 147, 229>>     \* LDR r2,[r3] ; ADD r3,r3,#4 ; LDR r2,[r3]   (r3 unaligned)
    [] p = 3 -> <<0, 0, 0, 239,      0, 0, 160, 225,  0, 0, 160, 225>>       \* SVC #0 ; (vector code: NOPs)
    [] p = 4 -> <<178, 32, 211, 225,  1, 16, 129, 226,  4, 240, 31, 229>>    \* LDRH r2,[r3,#2] ; ADD r1,r1,#1 ; LDR pc,[pc,#-4]
    \* program 5 runs with SCTLR.M = 1: the MPU (region 0: 4 GiB, read-only) refuses the store under PMSA, the MMU
    \* (section descriptor at address 0: flat, full access, domain 0 client) lets it complete under VMSA
    [] p = 5 -> <<3, 32, 131, 229,   0, 0, 160, 225,  0, 0, 160, 225>>       \* STR r2,[r3,#3] ; NOP ; NOP
NPROG == 5
MemImage(p) == [j \in 1..256 |-> IF j - 1 >= 16 /\ j - 1 < 28 THEN Prog(p)[j - 16]
                                 ELSE IF p = 5 /\ j <= 4 THEN <<2, 12, 0, 0>>[j] ELSE (j * 13) % 256]
MPUNames == {DRSRn[k] : k \in 1..Len(DRSRn)} \cup {DRBARn[k] : k \in 1..Len(DRBARn)} \cup {DRACRn[k] : k \in 1..Len(DRACRn)}
SysFor(c, p) ==
  LET base == [SCTLR |-> MkWordBits((IF Cfg(c).arch >= 7 THEN << <<22, 1>> >> ELSE <<>>) \o
                                    (IF p = 5 THEN << <<0, 1>>, <<28, 1>> >> ELSE <<>>)),
               SCR |-> Zero, HCR |-> Zero, HSCTLR |-> Zero,
               VBAR |-> <<0, 160>>, MVBAR |-> Zero, HVBAR |-> Zero, NSACR |-> Zero, CPACR |-> Zero, HCPTR |-> Zero,
               DFSR |-> Zero, DFAR |-> Zero,
               MPUIR |-> IF p = 5 THEN <<0, 256>> ELSE Zero,
               TTBCR |-> Zero, FCSEIDR |-> Zero, DACR |-> IF p = 5 THEN <<0, 1>> ELSE Zero,
               PRRR |-> IF p = 5 THEN <<0, 43690>> ELSE Zero, NMRR |-> Zero, TTBR0 |-> Zero, TTBR1 |-> Zero]
      mpu  == [n \in MPUNames |-> IF p = 5 /\ n = "DRSR0" THEN <<0, 63>> ELSE IF p = 5 /\ n = "DRACR0" THEN <<0, 1544>> ELSE Zero]
  IN base @@ mpu
InitState(c, p) ==
  [R |-> [r \in RNames |-> IF r = "PC" THEN <<0, 16>> ELSE IF r = "R1usr" THEN <<0, 65>> ELSE IF r = "R3usr" THEN <<0, 129>> ELSE <<0, 7>>],
   cpsr |-> <<24576, 467>>,                                              \* ARM state, Supervisor, A I F set, flags 0110
   spsr |-> [m \in SpsrNames |-> Zero], elr |-> Zero,
   sys |-> SysFor(c, p),
   mem |-> [devs |-> <<[b |-> Zero, n |-> 256]>>, base |-> <<MemImage(p)>>, w |-> <<>>],
   ev |-> [evreg |-> 0, wfe |-> 0, wfi |-> 0],
   cfg |-> Cfg(c) @@ [irqvec |-> Zero, fiqvec |-> Zero]]
Norm(s) == [s EXCEPT !.mem = Normalize(@)]
StepS(s) == Norm(StepF(s, [n |-> "Step"]).s)
RECURSIVE Solo(_, _, _)
Solo(c, p, k) == IF k = 0 THEN InitState(c, p) ELSE StepS(Solo(c, p, k - 1))

Init == inst = [i \in 1..2 |-> [created |-> FALSE, c |-> 0, p |-> 0, k |-> 0, s |-> <<>>]] /\ hist = <<>>
Create(i) == /\ ~inst[i].created
             /\ \E c \in 1..4, p \in 1..NPROG :
                  /\ (i = 2 => p = inst[1].p \/ ~inst[1].created)        \* keep the program pair space small: same program
                  /\ inst' = [inst EXCEPT ![i] = [created |-> TRUE, c |-> c, p |-> p, k |-> 0, s |-> InitState(c, p)]]
                  /\ hist' = IF GEN THEN Append(hist, [a |-> "create", i |-> i, c |-> c, p |-> p]) ELSE hist
Step(i) == /\ inst[i].created /\ inst[i].k < STEPS
           /\ inst' = [inst EXCEPT ![i].s = StepS(@), ![i].k = @ + 1]
           /\ hist' = IF GEN THEN Append(hist, [a |-> "step", i |-> i]) ELSE hist
Next == \E i \in 1..2 : Create(i) \/ Step(i)
Spec == Init /\ [][Next]_vars

Isolation == \A i \in 1..2 : inst[i].created => inst[i].s = Solo(inst[i].c, inst[i].p, inst[i].k)
\* the programs really are configuration sensitive (otherwise the check would be vacuous)
Sensitive == \A p \in 1..NPROG : \E c \in 1..4, d \in 1..4 :
               [Solo(c, p, STEPS) EXCEPT !.cfg = 0, !.sys = 0] # [Solo(d, p, STEPS) EXCEPT !.cfg = 0, !.sys = 0]
\* diagnostic: outcome and memory log of the solo run of program p under configuration c
SoloOut(c, p) == [out |-> StepF(InitState(c, p), [n |-> "Step"]).out, path |-> StepF(InitState(c, p), [n |-> "Step"]).path]
SensitiveInv == TLCGet("level") >= 0 /\ Sensitive /\ SoloOut(2, 5).out = "dabort" /\ SoloOut(3, 5).out = "completed" /\ SoloOut(3, 5).path = "exact:STR_i_A1"
AllDone == \A i \in 1..2 : inst[i].created /\ inst[i].k = STEPS
Emit == (GEN /\ AllDone) => PrintT(ToJson(hist))
=============================================================================
