------------------------------- MODULE MC_Exc --------------------------------
(***************************************************************************)
(* C11 on the spec: the exception-entry pseudocode (Exc.tla) against the   *)
(* property's own statement, over the routing configuration matrix.        *)
(* A scenario = exception kind x source mode x T x IT position x A/I/F x   *)
(* SCTLR.{V,VE,TE,EE} x SCR.{NS,EA,IRQ,FIQ,AW,FW} x HCR.{TGE,IMO,FMO} x    *)
(* extensions x PC, restricted per kind to the bits its pseudocode reads.  *)
(* GEN = TRUE prints every scenario (parameters only) so that the harness  *)
(* builds the same state on the real object, calls take_*_exception() and  *)
(* has TLC judge the result (Trace_Step!ExcVerdict).                       *)
(***************************************************************************)
EXTENDS Exc, Json
CONSTANTS GEN, FULL
VARIABLES sc, pre, post
vars == <<sc, pre, post>>

Kinds == {"Undef", "SVC", "SMC", "DAbort", "HypTrap", "IRQ", "FIQ"}
Exts  == {<<FALSE, FALSE>>, <<TRUE, FALSE>>, <<TRUE, TRUE>>}            \* <<sec, virt>>
PCs   == IF FULL THEN {<<0, 0>>, <<0, 8>>, <<4660, 22136>>, <<MM, MM - 3>>} ELSE {<<0, 8>>, <<MM, MM - 3>>}
ITs   == IF FULL THEN {0, 100, 72} ELSE {0, 100}                         \* outside, mid-block (0x64), last (0x48)
VBARv == <<4096, 32>>   MVBARv == <<8192, 64>>   HVBARv == <<MM, MM - 31>>   \* HVBAR near 2^32: offsets wrap

Bits(n) == [1..n -> {0, 1}]
MkWord(pairs) == LET RECURSIVE f(_) f(k) == IF k = 0 THEN Zero ELSE SetBitW(f(k - 1), pairs[k][1], pairs[k][2]) IN f(Len(pairs))

MkState(p) ==
  LET cpsr0 == SetM(SetIT(Zero, IF p.t >= 1 THEN p.it ELSE 0), p.mode)
      cpsr  == MkWord(<< <<5, IF p.t >= 1 THEN 1 ELSE 0>>, <<24, IF p.t = 2 THEN 1 ELSE 0>>, <<8, p.aif>>, <<7, p.aif>>, <<6, p.aif>>, <<29, 1>>, <<27, 1>>, <<9, p.aif>> >>)
      c     == WOr(cpsr0, cpsr)
      sctlr == MkWord(<< <<13, p.v>>, <<24, p.ve>>, <<30, p.te>>, <<25, p.ee>> >>)
      scr   == MkWord(<< <<0, p.ns>>, <<3, p.ea>>, <<1, p.irq>>, <<2, p.fiq>>, <<5, p.aw>>, <<4, p.fw>> >>)
      hcr   == MkWord(<< <<27, p.tge>>, <<4, p.imo>>, <<3, p.fmo>> >>)
  IN [R |-> [r \in RNames |-> IF r = "PC" THEN p.pc ELSE <<1, 1>>],
      cpsr |-> c, spsr |-> [m \in SpsrNames |-> <<2, 2>>], elr |-> <<3, 3>>,
      sys |-> [SCTLR |-> sctlr, SCR |-> scr, HCR |-> hcr, HSCTLR |-> MkWord(<< <<30, 1 - p.te>>, <<25, 1 - p.ee>> >>),
               VBAR |-> VBARv, MVBAR |-> MVBARv, HVBAR |-> HVBARv],
      cfg |-> [sec |-> p.ext[1], virt |-> p.ext[2], irqvec |-> <<0, 24>>, fiqvec |-> <<0, 28>>]]

Take(p, s) ==
  CASE p.kind = "Undef"   -> TakeUndefInstr(s)
    [] p.kind = "SVC"     -> TakeSVC(s, IF p.t >= 1 THEN 2 ELSE 4)
    [] p.kind = "SMC"     -> TakeSMC(s)
    [] p.kind = "DAbort"  -> TakeDataAbort(s, [alignment |-> p.align = 1, secondstage |-> FALSE])
    [] p.kind = "HypTrap" -> TakeHypTrap(s)
    [] p.kind = "IRQ"     -> TakePhysicalIRQ(s)
    [] p.kind = "FIQ"     -> TakePhysicalFIQ(s)

Init == sc = [stage |-> 0] /\ pre = <<>> /\ post = <<>>
\* stage 1: kind, source mode, extensions, instruction set, IT, PC
Pick1 == /\ sc.stage = 0
         \* t: 0 = ARM, 1 = Thumb, 2 = ThumbEE (J = 1, T = 1: entry clears J and takes T from the controlling TE bit like from Thumb)
         /\ \E k \in Kinds, ext \in Exts, t \in {0, 1, 2}, it \in ITs, pc \in PCs :
            \E m \in GoodModes([sec |-> ext[1], virt |-> ext[2]]) :
              /\ (k = "SMC" => ext[1]) /\ (k = "HypTrap" => ext[2])
              /\ (t = 2 => (it = 0 \/ FULL))
              /\ sc' = [stage |-> 1, kind |-> k, mode |-> m, ext |-> ext, t |-> t, it |-> it, pc |-> pc]
         /\ UNCHANGED <<pre, post>>
\* stage 2: the control bits this kind reads (others fixed at 0)
Pick2 == /\ sc.stage = 1
         /\ \E b \in Bits(9) :
              LET k == sc.kind
                  isInt == k \in {"IRQ", "FIQ"}
                  p == [sc EXCEPT !.stage = 2] @@
                       [v |-> b[1], te |-> b[2], ee |-> b[3], ns |-> b[4],
                        tge |-> IF k \in {"Undef", "SVC", "DAbort"} THEN b[5] ELSE 0,
                        aw  |-> IF k \in {"DAbort", "IRQ", "FIQ"} THEN b[6] ELSE 0,
                        ve  |-> IF isInt THEN b[5] ELSE 0,
                        irq |-> IF k \in {"IRQ", "HypTrap"} THEN b[7] ELSE 0,
                        fiq |-> IF k \in {"FIQ", "HypTrap"} THEN (IF k = "FIQ" THEN b[7] ELSE b[8]) ELSE 0,
                        fw  |-> IF k = "FIQ" THEN b[8] ELSE 0,
                        imo |-> IF k = "IRQ" THEN b[9] ELSE 0,
                        fmo |-> IF k = "FIQ" THEN b[9] ELSE 0,
                        ea  |-> IF k = "HypTrap" THEN b[9] ELSE 0,
                        align |-> IF k = "DAbort" THEN b[7] ELSE 0,
                        aif |-> IF k \in {"Undef", "SVC", "SMC"} THEN b[9] ELSE 0]
              IN \* canonical choice for unused bits keeps the space small
                 /\ (sc.mode = HYP => b[4] = 1)            \* Hyp mode exists only in Non-secure state
                 /\ (k = "HypTrap" => (b[4] = 1 /\ sc.mode # MON))   \* Hyp traps are taken from Non-secure state only
                 /\ (k \notin {"Undef", "SVC", "DAbort", "IRQ", "FIQ"} => b[5] = 0)
                 /\ (k \notin {"DAbort", "IRQ", "FIQ"} => b[6] = 0)
                 /\ (k \notin {"IRQ", "FIQ", "HypTrap", "DAbort"} => b[7] = 0)
                 /\ (k \notin {"FIQ", "HypTrap"} => b[8] = 0)
                 /\ sc' = p
                 /\ pre' = MkState(p)
                 /\ post' = Take(p, MkState(p))
Next == Pick1 \/ Pick2
Spec == Init /\ [][Next]_vars
Done == sc.stage = 2

-----------------------------------------------------------------------------
(* the property, stated on (pre, post) *)
Sec  == pre.cfg.sec    Virt == pre.cfg.virt
NSst == Sec /\ Bit(pre.sys.SCR, 0) = 1 /\ PM(pre.cpsr) # MON          \* Non-secure state
TM   == PM(post.cpsr)                                                   \* target mode
\* the routing rule in words: which mode may be entered
AllowedTargets ==
  LET k == sc.kind  m == PM(pre.cpsr)
      tgeHyp == Virt /\ NSst /\ Bit(pre.sys.HCR, 27) = 1 /\ m = USR
  IN CASE k = "Undef"   -> IF m = HYP \/ tgeHyp THEN {HYP} ELSE {UND}
       [] k = "SVC"     -> IF m = HYP \/ tgeHyp THEN {HYP} ELSE {SVC}
       [] k = "SMC"     -> {MON}
       [] k = "HypTrap" -> {HYP}
       [] k = "DAbort"  -> IF m = HYP \/ (tgeHyp /\ sc.align = 1) THEN {HYP} ELSE {ABT}
       [] k = "IRQ"     -> IF Sec /\ Bit(pre.sys.SCR, 1) = 1 THEN {MON}
                           ELSE IF m = HYP \/ (Virt /\ NSst /\ Bit(pre.sys.HCR, 4) = 1) THEN {HYP} ELSE {IRQ}
       [] k = "FIQ"     -> IF Sec /\ Bit(pre.sys.SCR, 2) = 1 THEN {MON}
                           ELSE IF m = HYP \/ (Virt /\ NSst /\ Bit(pre.sys.HCR, 3) = 1) THEN {HYP} ELSE {FIQ}
TargetOK == Done => TM \in AllowedTargets
\* saved state: SPSR of the target mode = old CPSR (SVC/SMC: with the IT state advanced)
SavedCPSR == IF sc.kind \in {"SVC", "SMC"} THEN SetIT(pre.cpsr, ITAdvance(PIT(pre.cpsr))) ELSE pre.cpsr
SpsrOK == Done => post.spsr[SpsrName(TM)] = SavedCPSR
\* return address (table B1-? "offsets from the preferred return address"), ia = pre.R.PC
RetOff == LET k == sc.kind  th == sc.t >= 1 IN
  CASE k = "Undef" -> IF th THEN 2 ELSE 4
    [] k = "SVC"   -> IF th THEN 2 ELSE 4
    [] k = "SMC"   -> 4
    [] k = "DAbort" -> 8
    [] k \in {"IRQ", "FIQ"} -> 4
    [] k = "HypTrap" -> 0
HypRetOff == LET k == sc.kind  th == sc.t >= 1 IN           \* ELR_hyp = preferred return address
  CASE k \in {"Undef", "DAbort", "HypTrap", "IRQ", "FIQ"} -> 0
    [] k = "SVC" -> IF th THEN 2 ELSE 4
ReturnOK == Done => IF TM = HYP THEN post.elr = AddInt(pre.R.PC, HypRetOff)
                    ELSE post.R[LookUpRName(14, TM)] = AddInt(pre.R.PC, RetOff)
MasksOK == Done =>
  LET c == post.cpsr  o == pre.cpsr
      awr == (~Sec) \/ Virt \/ Bit(post.sys.SCR, 0) = 0 \/ Bit(pre.sys.SCR, 5) = 1
      fwr == (~Sec) \/ Virt \/ Bit(post.sys.SCR, 0) = 0 \/ Bit(pre.sys.SCR, 4) = 1
  IN CASE TM = MON -> PA(c) = 1 /\ PI(c) = 1 /\ PF(c) = 1
       [] TM = HYP -> /\ PA(c) = (IF Bit(pre.sys.SCR, 3) = 0 THEN 1 ELSE PA(o))
                      /\ PF(c) = (IF Bit(pre.sys.SCR, 2) = 0 THEN 1 ELSE PF(o))
                      /\ PI(c) = (IF Bit(pre.sys.SCR, 1) = 0 THEN 1 ELSE PI(o))
       [] OTHER    -> /\ PI(c) = 1
                      /\ PF(c) = (IF sc.kind = "FIQ" /\ fwr THEN 1 ELSE PF(o))
                      /\ PA(c) = (IF sc.kind \in {"DAbort", "IRQ", "FIQ"} /\ awr THEN 1 ELSE PA(o))
ExecStateOK == Done =>
  /\ PIT(post.cpsr) = 0 /\ PJ(post.cpsr) = 0
  /\ PT(post.cpsr) = (IF TM = HYP THEN Bit(pre.sys.HSCTLR, 30) ELSE Bit(pre.sys.SCTLR, 30))
  /\ PE(post.cpsr) = (IF TM = HYP THEN Bit(pre.sys.HSCTLR, 25) ELSE Bit(pre.sys.SCTLR, 25))
  /\ PNZCV(post.cpsr) = PNZCV(pre.cpsr) /\ PQ(post.cpsr) = PQ(pre.cpsr) /\ PGE(post.cpsr) = PGE(pre.cpsr)
VecOff == CASE sc.kind = "Undef" -> 4 [] sc.kind = "SVC" -> 8 [] sc.kind = "SMC" -> 8 [] sc.kind = "DAbort" -> 16
            [] sc.kind = "HypTrap" -> 20 [] sc.kind = "IRQ" -> 24 [] sc.kind = "FIQ" -> 28
VectorOK == Done =>
  LET base == IF TM = MON THEN MVBARv ELSE IF TM = HYP THEN HVBARv
              ELSE IF Bit(pre.sys.SCTLR, 13) = 1 THEN <<MM, 0>> ELSE IF Sec THEN VBARv ELSE Zero
      \* an exception routed to Hyp from a mode other than Hyp uses the Hyp trap vector 0x14
      off  == IF TM = HYP /\ PM(pre.cpsr) # HYP /\ sc.kind \in {"Undef", "SVC", "DAbort"} THEN 20 ELSE VecOff
      impdef == TM \in {IRQ, FIQ} /\ Bit(pre.sys.SCTLR, 24) = 1
  IN post.R.PC = (IF impdef THEN (IF TM = IRQ THEN <<0, 24>> ELSE <<0, 28>>) ELSE AddInt(base, off))
MonClearsNS == Done => (PM(pre.cpsr) = MON => Bit(post.sys.SCR, 0) = 0)
FrameOK == Done =>
  /\ \A r \in RNames \ {"PC"} : (TM # HYP /\ r = LookUpRName(14, TM)) \/ post.R[r] = pre.R[r]
  /\ \A m \in SpsrNames \ {SpsrName(TM)} : post.spsr[m] = pre.spsr[m]
  /\ (TM # HYP => post.elr = pre.elr)
  /\ \A n \in DOMAIN pre.sys : n = "SCR" \/ post.sys[n] = pre.sys[n]
  /\ WAnd(WXor(post.sys.SCR, pre.sys.SCR), <<MM, MM - 1>>) = Zero
  /\ RegsTypeOK(post)
Emit == (GEN /\ Done) => PrintT(ToJson(sc))
=============================================================================
