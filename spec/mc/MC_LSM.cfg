SPECIFICATION Spec
CONSTANTS LISTS = "quick"
INVARIANT NoAbort_
INVARIANT StmWords
INVARIANT StmFootprint
INVARIANT LdmRegs
INVARIANT LdmPC
INVARIANT LdmMemUnchanged
INVARIANT WriteBack
INVARIANT OthersUnchanged
INVARIANT PushPop
CHECK_DEADLOCK FALSE
