SPECIFICATION Spec
CONSTANTS GEN = FALSE
          NV = 3
INVARIANT ExactOK
INVARIANT ValueOK
INVARIANT NZOK
INVARIANT FrameOK
INVARIANT Emit
CHECK_DEADLOCK FALSE
