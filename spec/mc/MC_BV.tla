-------------------------------- MODULE MC_BV --------------------------------
(* C17 on the spec: for widths 1..NMAX, ALL x, y, carry and all shift amounts 0..SMAX
   the bit-string transcription of each pseudocode primitive equals its arithmetic
   formulation, plus algebraic lemmas.  One state per (N, x); the invariant quantifies
   over y, carry and the shift amount. *)
EXTENDS BV, TLC
CONSTANTS NMAX, SMAX
VARIABLES n, x
vars == <<n, x>>
Init == n = 0 /\ x = 0
PickN == n = 0 /\ n' \in 1..NMAX /\ x' = -1
PickX == n > 0 /\ x = -1 /\ x' \in 0..(2^n - 1) /\ n' = n
Next == PickN \/ PickX
Spec == Init /\ [][Next]_vars
Active == n > 0 /\ x >= 0

ShiftsAgree ==
  Active => \A s \in 1..SMAX :
     /\ LSL_C_B(x, n, s) = LSL_C(x, n, s)
     /\ LSR_C_B(x, n, s) = LSR_C(x, n, s)
     /\ ASR_C_B(x, n, s) = ASR_C(x, n, s)
     /\ ROR_C_B(x, n, s) = ROR_C(x, n, s)
RRXAgree == Active => \A c \in {0, 1} : RRX_C_B(x, n, c) = RRX_C(x, n, c)
ShiftLemmas ==
  Active => \A s \in 1..SMAX :
     /\ (s >= n) => LSR_C(x, n, s)[1] = 0
     /\ (s > n)  => (LSR_C(x, n, s)[2] = 0 /\ LSL_C(x, n, s)[2] = 0)
     /\ (s >= n) => ASR_C(x, n, s) = <<IF Bit(x, n-1) = 1 THEN Ones(n) ELSE 0, Bit(x, n-1)>>
     /\ (s % n = 0) => ROR_C(x, n, s) = <<x, Bit(x, n-1)>>
     /\ ROR_C(x, n, s)[1] = ROR_C(x, n, (s % n) + n)[1]
     /\ BitCount(ROR(x, n, s), n) = BitCount(x, n)
AddAgree ==
  Active => \A y \in 0..(2^n - 1), c \in {0, 1} :
     /\ AddWithCarry(x, y, c, n) = AddWithCarry2(x, y, c, n)
     \* subtraction identity: x - y = AddWithCarry(x, NOT y, 1); carry = NOT borrow
     /\ AddWithCarry(x, NotN(y, n), 1, n)[1] = (x - y) % 2^n
     /\ (AddWithCarry(x, NotN(y, n), 1, n)[2] = 1) = (x >= y)
     /\ (AddWithCarry(x, NotN(y, n), 1, n)[3] = 1) =
           ((SInt(x, n) - SInt(y, n) > 2^(n-1) - 1) \/ (SInt(x, n) - SInt(y, n) < -(2^(n-1))))
ExtendAgree ==
  Active => \A m \in n..(n + 4) :
     /\ SignExtendB(x, n, m) = SignExtend(x, n, m)
     /\ SInt(SignExtend(x, n, m), m) = SInt(x, n)
SatLemmas ==
  Active => \A w \in 1..n :
     LET i == SInt(x, n)
         s == SignedSatQ(i, w)
         u == UnsignedSatQ(i, w)
     IN /\ s[2] = (i > 2^(w-1) - 1 \/ i < -(2^(w-1)))
        /\ SInt(s[1], w) = (IF i > 2^(w-1) - 1 THEN 2^(w-1) - 1 ELSE IF i < -(2^(w-1)) THEN -(2^(w-1)) ELSE i)
        /\ u[2] = (i > 2^w - 1 \/ i < 0)
        /\ u[1] = (IF i > 2^w - 1 THEN 2^w - 1 ELSE IF i < 0 THEN 0 ELSE i)
        /\ u[1] \in 0..(2^w - 1) /\ s[1] \in 0..(2^w - 1)
CountLemmas ==
  Active =>
     /\ BitCount(x, n) = Cardinality({i \in 0..(n-1) : Bit(x, i) = 1})
     /\ (x # 0 => (Bit(x, LowestSetBit(x, n)) = 1 /\ x % 2^LowestSetBit(x, n) = 0))
     /\ (x = 0 => LowestSetBit(x, n) = n)
     /\ CountLeadingZeroBits(x, n) = Cardinality({i \in 0..(n-1) : x < 2^i})
     /\ \A hi \in 0..(n-1) : \A lo \in 0..hi :
           /\ Slice(x, hi, lo) = FromBits(SliceB(ToBits(x, n), hi, lo), hi - lo + 1)
           /\ \A v \in {0, 1, 2^(hi-lo+1) - 1} : v < 2^(hi-lo+1) =>
                 /\ Slice(SetSlice(x, hi, lo, v), hi, lo) = v
                 /\ \A j \in (0..(n-1)) \ (lo..hi) : Bit(SetSlice(x, hi, lo, v), j) = Bit(x, j)
ReverseLemma ==
  (n = 8 /\ x >= 0) => \A y \in 0..255 :
     /\ BigEndianReverse(BigEndianReverse(x * 256 + y, 2), 2) = x * 256 + y
     /\ BigEndianReverse(x * 256 + y, 2) = y * 256 + x
     /\ BigEndianReverse(x, 1) = x
=============================================================================
