-------------------------------- MODULE MC_BR --------------------------------
(***************************************************************************)
(* C04 on the spec, and the scenario generator of its spec -> code half.   *)
(* The whole machine (fetchless Exec: Decode, condition, ExecB / ExecBL /  *)
(* ExecBX / ExecBLXr / ExecCBZ / ExecTB, BranchWritePC / BXWritePC /        *)
(* ALUWritePC, PC advance) runs every branch encoding                      *)
(*    B A1, BL A1, BLX A2, BX A1, BLX (register) A1, MOV pc A1,            *)
(*    B T1 (every condition x every NZCV), B T2, B T3, B T4, BL T1, BLX T2,*)
(*    BX T1, BLX (register) T1, MOV pc T1, CBZ / CBNZ T1, TBB / TBH T1     *)
(*    (table base a register and the PC), MOV r0, pc (A1, T1)              *)
(* over the affine basis of every offset field (0, each single bit, all    *)
(* ones, sign only) at instruction addresses 0, 64, 66 (= 2 mod 4),        *)
(* 0x80000000 and just below 2^32 (wrap), and the result is compared with  *)
(* the property's wording written ARITHMETICALLY - the offset is a signed  *)
(* integer computed from the field values by weights (no bit concatenation,*)
(* no SignExtend), the target is instruction address + 8 / + 4 + offset    *)
(* modulo 2^32:                                                            *)
(*   TargetOK  the branch lands on the architectural target                *)
(*   LinkOK    LR = address of the next instruction (bit 0 set from Thumb) *)
(*             for BL / BLX, unchanged otherwise                           *)
(*   ISetOK    BX / BLX register / MOV pc (ARMv7 ARM state) select the     *)
(*             instruction set from bit 0; BLX immediate always switches;  *)
(*             B / BL / CBZ / TBB / Thumb MOV pc never do                  *)
(*   AlignOK   PC halfword-aligned in Thumb state, word-aligned in ARM     *)
(*   ReadPCOK  MOV r0, pc reads address + 8 (ARM) / + 4 (Thumb) and the PC *)
(*             advances by the instruction length                          *)
(*   FrameOK   nothing else changes                                        *)
(* With GEN = TRUE every scenario is printed; the harness executes it on   *)
(* the real emulate_cycle() (real fetch) and TLC judges the step.          *)
(***************************************************************************)
EXTENDS Props, Json, TLC
CONSTANTS GEN, FULL
VARIABLES sc
vars == <<sc>>

MemByte(a) == (a * 7 + 3) % 256                         \* RAM image for the TBB / TBH tables: distinct neighbours
AddrsA == {<<0, 0>>, <<0, 64>>, <<32768, 0>>, <<MM, 65528>>}                  \* ARM: 0, 0x40, 0x80000000, 0xFFFFFFF8
AddrsT == {<<0, 0>>, <<0, 64>>, <<0, 66>>, <<32768, 2>>, <<MM, 65530>>}      \* Thumb: also = 2 mod 4
Basis(n) == {0, 2^n - 1, 2^(n - 1) - 1} \cup {2^k : k \in 0..(n - 1)}
Few(n)   == {0, 1, 2^(n - 1), 2^n - 1}
Targets == {<<0, 129>>, <<0, 128>>, <<MM, 65533>>, <<MM, 65532>>, <<0, 1>>, <<0, 0>>, <<32768, 7>>}   \* bits<1:0> # 10

\* ---- instruction words (hi, lo limbs; 16-bit Thumb: <<0, hw>>) ----
Word(p) ==
  CASE p.k = "b_a1"   -> <<59904 + (p.imm \div 65536), p.imm % 65536>>                       \* EA......
    [] p.k = "bl_a1"  -> <<60160 + (p.imm \div 65536), p.imm % 65536>>                       \* EB......
    [] p.k = "blx_a2" -> <<64000 + p.h * 256 + (p.imm \div 65536), p.imm % 65536>>           \* FA/FB......
    [] p.k = "bx_a1"  -> <<57647, 65296 + 2>>                                                \* E12FFF12  BX r2
    [] p.k = "blxr_a1" -> <<57647, 65328 + 2>>                                               \* E12FFF32  BLX r2
    [] p.k = "movpc_a1" -> <<57760, 61442>>                                                  \* E1A0F002  MOV pc, r2
    [] p.k = "rdpc_a1" -> <<57760, 15>>                                                      \* E1A0000F  MOV r0, pc
    [] p.k = "b_t1"   -> <<0, 53248 + p.c * 256 + p.imm>>                                    \* Dcxx
    [] p.k = "b_t2"   -> <<0, 57344 + p.imm>>                                                \* E000 | imm11
    [] p.k = "b_t3"   -> <<61440 + p.s * 1024 + p.c * 64 + p.immh, 32768 + p.j1 * 8192 + p.j2 * 2048 + p.imm>>
    [] p.k = "b_t4"   -> <<61440 + p.s * 1024 + p.immh, 36864 + p.j1 * 8192 + p.j2 * 2048 + p.imm>>
    [] p.k = "bl_t1"  -> <<61440 + p.s * 1024 + p.immh, 53248 + p.j1 * 8192 + p.j2 * 2048 + p.imm>>
    [] p.k = "blx_t2" -> <<61440 + p.s * 1024 + p.immh, 49152 + p.j1 * 8192 + p.j2 * 2048 + p.imm * 2>>
    [] p.k = "bx_t1"  -> <<0, 18176 + 16>>                                                   \* 4710  BX r2
    [] p.k = "blxr_t1" -> <<0, 18304 + 16>>                                                  \* 4790  BLX r2
    [] p.k = "movpc_t1" -> <<0, 18071>>                                                      \* 4697  MOV pc, r2
    [] p.k = "rdpc_t1" -> <<0, 18040>>                                                       \* 4678  MOV r0, pc
    [] p.k = "cbz"    -> <<0, 45312 + p.op * 2048 + (p.imm \div 32) * 512 + (p.imm % 32) * 8 + 1>>   \* CB(N)Z r1
    [] p.k = "tb"     -> <<59600 + p.n, 61440 + p.h * 16 + 2>>                               \* TBB/TBH [Rn, r2]
ThumbK(p) == p.k \in {"b_t1", "b_t2", "b_t3", "b_t4", "bl_t1", "blx_t2", "bx_t1", "blxr_t1", "movpc_t1", "rdpc_t1", "cbz", "tb"}
ILen(p) == IF p.k \in {"b_t1", "b_t2", "bx_t1", "blxr_t1", "movpc_t1", "rdpc_t1", "cbz"} THEN 16 ELSE 32

St(p) ==
  [R |-> [r \in RNames |-> CASE r = "PC" -> p.ia [] r = "R1usr" -> p.r1 [] r = "R2usr" -> p.x [] r = "LRsvc" -> <<4660, 22136>>
                             [] r = "R0usr" -> <<23130, 42405>> [] OTHER -> <<0, 96>>],
   cpsr |-> <<p.fl * 4096, (IF ThumbK(p) THEN 32 ELSE 0) + 19>>,                  \* Supervisor
   spsr |-> [m \in SpsrNames |-> Zero], elr |-> Zero,
   sys |-> [SCTLR |-> SetBitW(Zero, 22, 1), SCR |-> Zero, HCR |-> Zero, HSCTLR |-> Zero, VBAR |-> Zero, MVBAR |-> Zero,
            HVBAR |-> Zero, NSACR |-> Zero, CPACR |-> Zero, HCPTR |-> Zero, DFSR |-> Zero, DFAR |-> Zero, MPUIR |-> Zero],
   mem |-> [devs |-> <<[b |-> Zero, n |-> 256]>>, base |-> <<[j \in 1..256 |-> MemByte(j - 1)]>>, w |-> <<>>],
   ev |-> [evreg |-> 0, wfe |-> 0, wfi |-> 0],
   cfg |-> [arch |-> 7, pmsa |-> TRUE, sec |-> TRUE, virt |-> FALSE, lpae |-> FALSE, v7r |-> FALSE]]

Dflt == [imm |-> 0, immh |-> 0, s |-> 0, j1 |-> 0, j2 |-> 0, h |-> 0, c |-> 14, op |-> 0, n |-> 1, fl |-> 0, x |-> Zero, r1 |-> Zero]
Fin(p0) == LET p == p0 @@ Dflt
               st == St(p)
               w == Word(p)
           IN [stage |-> 2, p |-> p, pre |-> st, w |-> w, len |-> ILen(p), r |-> StepF(st, [n |-> "Exec", w |-> w, len |-> ILen(p)])]

Kinds == {"b_a1", "bl_a1", "blx_a2", "bx_a1", "blxr_a1", "movpc_a1", "rdpc_a1", "b_t1", "b_t2", "b_t3", "b_t4", "bl_t1", "blx_t2",
          "bx_t1", "blxr_t1", "movpc_t1", "rdpc_t1", "cbz", "tb"}
Init == sc = [stage |-> 0]
Pick1 == /\ sc.stage = 0
         /\ \E k \in Kinds : \E ia \in (IF ThumbK([k |-> k]) THEN AddrsT ELSE AddrsA) : sc' = [stage |-> 1, k |-> k, ia |-> ia]
F6  == IF FULL THEN 0..63 ELSE Few(6)
F10 == IF FULL THEN Basis(10) ELSE Few(10)
F11 == IF FULL THEN Basis(11) ELSE Few(11)
Pick2 ==
  /\ sc.stage = 1
  /\ LET k == sc.k  b == [k |-> k, ia |-> sc.ia] IN
     \/ /\ k \in {"b_a1", "bl_a1"} /\ \E imm \in Basis(24) : sc' = Fin(b @@ [imm |-> imm])
     \/ /\ k = "blx_a2" /\ \E imm \in Basis(24), h \in 0..1 : sc' = Fin(b @@ [imm |-> imm, h |-> h])
     \/ /\ k \in {"bx_a1", "blxr_a1", "movpc_a1", "bx_t1", "blxr_t1", "movpc_t1"} /\ \E x \in Targets : sc' = Fin(b @@ [x |-> x])
     \/ /\ k \in {"rdpc_a1", "rdpc_t1"} /\ sc' = Fin(b)
     \/ /\ k = "b_t1" /\ \E c \in 0..13, fl \in 0..15, imm \in Basis(8) : sc' = Fin(b @@ [c |-> c, fl |-> fl, imm |-> imm])
     \/ /\ k = "b_t2" /\ \E imm \in Basis(11) : sc' = Fin(b @@ [imm |-> imm])
     \/ /\ k = "b_t3" /\ \E c \in {0, 11}, s \in 0..1, j1 \in 0..1, j2 \in 0..1, immh \in F6, imm \in F11 :
             sc' = Fin(b @@ [c |-> c, fl |-> IF c = 0 THEN 4 ELSE 8, s |-> s, j1 |-> j1, j2 |-> j2, immh |-> immh, imm |-> imm])
     \/ /\ k \in {"b_t4", "bl_t1"} /\ \E s \in 0..1, j1 \in 0..1, j2 \in 0..1, immh \in F10, imm \in F11 :
             sc' = Fin(b @@ [s |-> s, j1 |-> j1, j2 |-> j2, immh |-> immh, imm |-> imm])
     \/ /\ k = "blx_t2" /\ \E s \in 0..1, j1 \in 0..1, j2 \in 0..1, immh \in F10, imm \in F10 :
             sc' = Fin(b @@ [s |-> s, j1 |-> j1, j2 |-> j2, immh |-> immh, imm |-> imm])
     \/ /\ k = "cbz" /\ \E op \in 0..1, imm \in 0..63, r1 \in {Zero, <<0, 1>>, <<32768, 0>>} : sc' = Fin(b @@ [op |-> op, imm |-> imm, r1 |-> r1])
     \/ /\ k = "tb" /\ Hi(sc.ia) = 0 /\ \E n \in {1, 15}, h \in 0..1, x \in {<<0, 0>>, <<0, 1>>, <<0, 5>>, <<0, 40>>} :
             sc' = Fin(b @@ [n |-> n, h |-> h, x |-> x, r1 |-> <<0, 131>>])
Next == Pick1 \/ Pick2
Spec == Init /\ [][Next]_vars
Done == sc.stage = 2

p    == sc.p
pre  == sc.pre
R    == sc.r
post == R.s
T0   == IF ThumbK(p) THEN 1 ELSE 0
ReadPC == AddInt(p.ia, IF T0 = 1 THEN 4 ELSE 8)
NextInstr == AddInt(p.ia, ILen(p) \div 8)
Align4(w) == <<w[1], (w[2] \div 4) * 4>>
\* signed offsets as integers, from the field values by weights
SInt(v, n) == IF v >= 2^(n - 1) THEN v - 2^n ELSE v
I1 == 1 - ((p.j1 + p.s) % 2)      I2 == 1 - ((p.j2 + p.s) % 2)
Off == CASE p.k \in {"b_a1", "bl_a1"} -> 4 * SInt(p.imm, 24)
         [] p.k = "blx_a2" -> 4 * SInt(p.imm, 24) + 2 * p.h
         [] p.k = "b_t1"   -> 2 * SInt(p.imm, 8)
         [] p.k = "b_t2"   -> 2 * SInt(p.imm, 11)
         [] p.k = "b_t3"   -> 2 * (p.imm + 2048 * p.immh + 131072 * p.j1 + 262144 * p.j2) - p.s * 1048576
         [] p.k \in {"b_t4", "bl_t1"} -> 2 * (p.imm + 2048 * p.immh + 2097152 * I2 + 4194304 * I1) - p.s * 16777216
         [] p.k = "blx_t2" -> 4 * (p.imm + 1024 * p.immh + 1048576 * I2 + 2097152 * I1) - p.s * 16777216
         [] p.k = "cbz"    -> 2 * p.imm
         [] OTHER -> 0
Pass == ConditionHolds(p.c, p.fl)
CbzTaken == (p.r1 = Zero) <=> (p.op = 0)
TbBase == IF p.n = 15 THEN ReadPC ELSE p.r1
TbAddr == Lo(TbBase) + (IF p.h = 1 THEN 2 * Lo(p.x) ELSE Lo(p.x))
TbEntry == IF p.h = 1 THEN MemByte(TbAddr) + 256 * MemByte(TbAddr + 1) ELSE MemByte(TbAddr)
InterTarget == IF Bit(p.x, 0) = 1 THEN [pc |-> <<p.x[1], p.x[2] - 1>>, t |-> 1] ELSE [pc |-> p.x, t |-> 0]
Expect ==
  CASE p.k \in {"b_a1", "bl_a1", "b_t2", "b_t4", "bl_t1"} -> [pc |-> AddInt(ReadPC, Off), t |-> T0]
    [] p.k \in {"b_t1", "b_t3"} -> [pc |-> IF Pass THEN AddInt(ReadPC, Off) ELSE NextInstr, t |-> T0]
    [] p.k = "blx_a2" -> [pc |-> AddInt(ReadPC, Off), t |-> 1]
    [] p.k = "blx_t2" -> [pc |-> AddInt(Align4(ReadPC), Off), t |-> 0]
    [] p.k \in {"bx_a1", "blxr_a1", "movpc_a1", "bx_t1", "blxr_t1"} -> InterTarget
    [] p.k = "movpc_t1" -> [pc |-> <<p.x[1], (p.x[2] \div 2) * 2>>, t |-> 1]                  \* no interworking from Thumb state
    [] p.k \in {"rdpc_a1", "rdpc_t1"} -> [pc |-> NextInstr, t |-> T0]
    [] p.k = "cbz" -> [pc |-> IF CbzTaken THEN AddInt(ReadPC, Off) ELSE NextInstr, t |-> T0]
    [] p.k = "tb"  -> [pc |-> AddInt(ReadPC, 2 * TbEntry), t |-> T0]
Links == p.k \in {"bl_a1", "blx_a2", "blxr_a1", "bl_t1", "blx_t2", "blxr_t1"}
ExpLR == IF ~Links THEN pre.R.LRsvc ELSE IF T0 = 1 THEN <<NextInstr[1], NextInstr[2] + 1>> ELSE NextInstr

ExactOK  == Done => R.exact /\ R.out = "completed"
TargetOK == Done => post.R.PC = Expect.pc
ISetOK   == Done => PT(post.cpsr) = Expect.t /\ PJ(post.cpsr) = 0
LinkOK   == Done => post.R.LRsvc = ExpLR
AlignOK  == Done => IF PT(post.cpsr) = 1 THEN Bit(post.R.PC, 0) = 0 ELSE Slice(post.R.PC, 1, 0) = 0
ReadPCOK == (Done /\ p.k \in {"rdpc_a1", "rdpc_t1"}) => post.R.R0usr = ReadPC
FrameOK  == Done =>
  /\ \A r \in RNames \ {"PC", "LRsvc", "R0usr"} : post.R[r] = pre.R[r]
  /\ (p.k \notin {"rdpc_a1", "rdpc_t1"} => post.R.R0usr = pre.R.R0usr)
  /\ WAnd(WXor(post.cpsr, pre.cpsr), WNot(<<0, 32>>)) = Zero                      \* only T may change
  /\ post.spsr = pre.spsr /\ post.elr = pre.elr /\ post.sys = pre.sys /\ post.mem = pre.mem /\ post.ev = pre.ev
  /\ RegsTypeOK(post)
Emit == (GEN /\ Done) => PrintT(ToJson([k |-> p.k, w |-> sc.w, len |-> sc.len, ia |-> p.ia, x |-> p.x, r1 |-> p.r1, fl |-> p.fl]))
=============================================================================
