SPECIFICATION Spec
INVARIANT GatingOK
INVARIANT WordsOK
INVARIANT SysFormsOK
INVARIANT SysIndepOK
CHECK_DEADLOCK FALSE
