SPECIFICATION Spec
INVARIANT GatingOK
INVARIANT WordsOK
CHECK_DEADLOCK FALSE
