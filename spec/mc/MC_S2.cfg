SPECIFICATION Spec
CONSTANTS FULL = FALSE
INVARIANT OutcomeOK
INVARIANT AttrOK
CHECK_DEADLOCK FALSE
