------------------------------- MODULE MC_Mem --------------------------------
(***************************************************************************)
(* C13 on the spec: Mem.tla (MemA / MemU pseudocode) against the           *)
(* property's statement, for size {1,2,4,8} x address offset 0..7 x CPSR.E *)
(* x SCTLR.A x SCTLR.U x arch {5,6,7} x MemA/MemU x read/write x           *)
(* privileged/unprivileged, on a window of pairwise distinct bytes.        *)
(* The second formulation is written on plain naturals: a policy decision  *)
(* table, "exactly the addressed bytes", byte order by E.                  *)
(***************************************************************************)
EXTENDS Mem
VARIABLES sc
vars == <<sc>>
BaseAddr == 40                      \* the 24-byte window [32, 56) lives in a device [32, 64)
Dev == [devs |-> <<[b |-> <<0, 32>>, n |-> 32]>>, base |-> <<[j \in 1..32 |-> (j * 7 + 3) % 256]>>, w |-> <<>>]
MkWordBits(pairs) == LET RECURSIVE f(_) f(k) == IF k = 0 THEN Zero ELSE SetBitW(f(k - 1), pairs[k][1], pairs[k][2]) IN f(Len(pairs))
S(p) == [R |-> [r \in RNames |-> Zero],
         cpsr |-> WOr(<<0, IF p.priv THEN 19 ELSE 16>>, <<0, p.e * 512>>),
         spsr |-> [m \in SpsrNames |-> Zero], elr |-> Zero,
         sys |-> [SCTLR |-> MkWordBits(<< <<1, p.a>>, <<22, p.u>> >>), SCR |-> Zero, HCR |-> Zero, HSCTLR |-> Zero,
                  VBAR |-> Zero, MVBAR |-> Zero, HVBAR |-> Zero, DFSR |-> Zero, DFAR |-> Zero, MPUIR |-> Zero],
         mem |-> Dev, ev |-> [evreg |-> 0, wfe |-> 0, wfi |-> 0],
         cfg |-> [arch |-> p.arch, pmsa |-> TRUE, sec |-> TRUE, virt |-> FALSE, lpae |-> FALSE]]
Init == sc = [stage |-> 0]
Pick == sc.stage = 0 /\ \E size \in {1, 2, 4, 8}, off \in 0..7, e \in {0, 1}, a \in {0, 1}, u \in {0, 1},
                          arch \in {5, 6, 7}, kind \in {"A", "U"}, wr \in BOOLEAN, priv \in BOOLEAN :
          sc' = [stage |-> 1, size |-> size, off |-> off, e |-> e, a |-> a, u |-> u, arch |-> arch, kind |-> kind,
                 wr |-> wr, priv |-> priv]
Next == Pick
Spec == Init /\ [][Next]_vars
Done == sc.stage = 1

Addr == <<0, BaseAddr + sc.off>>
Val  == [i \in 1..sc.size |-> 200 + i]                       \* value bytes by significance, all distinct
Pre  == S(sc)
Wr   == IF sc.kind = "A" THEN MemAWrite(X0(Pre), Addr, sc.size, sc.priv, TRUE, Val)
        ELSE MemUWrite(X0(Pre), Addr, sc.size, sc.priv, Val)
Rd(x) == IF sc.kind = "A" THEN MemARead(x, Addr, sc.size, sc.priv, TRUE) ELSE MemURead(x, Addr, sc.size, sc.priv)

\* ---- the property's decision table (plain naturals) ----
Unaligned == (BaseAddr + sc.off) % sc.size # 0
Policy ==
  IF ~Unaligned THEN "direct"
  ELSE IF sc.kind = "A" THEN (IF sc.arch >= 7 \/ sc.a = 1 \/ sc.u = 1 THEN "fault" ELSE "aligndown")
  ELSE IF sc.arch >= 7 THEN (IF sc.a = 1 THEN "fault" ELSE "bytes")
  ELSE IF sc.a = 0 /\ sc.u = 0 THEN "aligndown"
  ELSE IF sc.a = 1 THEN "fault" ELSE "bytes"
EffAddr == IF Policy = "aligndown" THEN ((BaseAddr + sc.off) \div sc.size) * sc.size ELSE BaseAddr + sc.off
MemByte(mem, a) == DevByte(mem, 1, a - 32)
\* byte of the value that lands at address EffAddr + i
ByteAt(i) == IF sc.e = 1 THEN Val[sc.size - i] ELSE Val[i + 1]

FaultOK == Done => ((Policy = "fault") <=> (Wr.ab.t = "dabort")) /\ ((Policy = "fault") <=> (Rd(X0(Pre)).x.ab.t = "dabort"))
FaultBookkeeping == (Done /\ Policy = "fault" /\ sc.wr) =>
   /\ Wr.s.mem = Pre.mem
   /\ Wr.s.sys.DFAR = Addr
   /\ Slice(Wr.s.sys.DFSR, 3, 0) = 1 /\ Bit(Wr.s.sys.DFSR, 10) = 0 /\ Bit(Wr.s.sys.DFSR, 11) = 1
FootprintOK == (Done /\ Policy # "fault") =>
   \A a \in 32..63 : MemByte(Wr.s.mem, a) =
        (IF a >= EffAddr /\ a < EffAddr + sc.size THEN ByteAt(a - EffAddr) ELSE MemByte(Pre.mem, a))
ReadOK == (Done /\ Policy # "fault") =>
   LET r == Rd(X0(Pre)) IN
   /\ Ok(r.x) /\ r.x.s = Pre
   /\ r.v = [i \in 1..sc.size |-> LET k == IF sc.e = 1 THEN sc.size - i ELSE i - 1 IN MemByte(Pre.mem, EffAddr + k)]
RoundTrip == (Done /\ Policy # "fault") => Rd(X0(Wr.s)).v = Val
\* an unaligned MemU that is not faulting and not aligned down equals the individual byte transfers
BytewiseOK == (Done /\ Policy = "bytes") =>
   Wr.s.mem.w = [i \in 1..sc.size |-> <<1, BaseAddr + sc.off - 32 + i - 1, ByteAt(i - 1)>>]
\* instruction fetch ignores CPSR.E
FetchLE == (Done /\ sc.size = 4 /\ ~Unaligned) =>
   LET f == FetchWord(X0(Pre), Addr) IN
   f.v = BytesToWord([i \in 1..4 |-> MemByte(Pre.mem, BaseAddr + sc.off + i - 1)])
=============================================================================
