SPECIFICATION Spec
CONSTANTS GEN = FALSE
          FULL = FALSE
INVARIANT TargetOK
INVARIANT SpsrOK
INVARIANT ReturnOK
INVARIANT MasksOK
INVARIANT ExecStateOK
INVARIANT VectorOK
INVARIANT MonClearsNS
INVARIANT FrameOK
INVARIANT Emit
CHECK_DEADLOCK FALSE
