----------------------------- MODULE SysRegFields ----------------------------
(***************************************************************************)
(* Architectural bit positions of the named fields of CPSR and the system  *)
(* control registers (ARM DDI 0406C, B1.3.3, B3/B4/B5 register             *)
(* descriptions), written from the architecture and not from the Python.   *)
(* A field is a sequence of segments <<msb, lsb>>, most significant first  *)
(* (CPSR.IT and DFSR.FS are split fields).  Indexed fields (cp<n>, D<n>,   *)
(* TR<n>...) are given by IndexedField.  Fields whose position I am not    *)
(* certain of are listed in ConsistencyOnly with their width: for those    *)
(* only get/set round trip and "at most <width> bits change" is claimed.   *)
(***************************************************************************)
EXTENDS Naturals, Sequences

F(msb, lsb) == << <<msb, lsb>> >>
B(b)        == << <<b, b>> >>
NoField     == <<>>

Field(cls, f) ==
  CASE cls = "CPSR" ->
         (CASE f = "n" -> B(31) [] f = "z" -> B(30) [] f = "c" -> B(29) [] f = "v" -> B(28) [] f = "q" -> B(27)
            [] f = "j" -> B(24) [] f = "ge" -> F(19, 16) [] f = "e" -> B(9) [] f = "a" -> B(8) [] f = "i" -> B(7)
            [] f = "f" -> B(6) [] f = "t" -> B(5) [] f = "m" -> F(4, 0)
            [] f = "it" -> << <<15, 10>>, <<26, 25>> >>          \* IT<7:2> = CPSR<15:10>, IT<1:0> = CPSR<26:25>
            [] f = "isetstate" -> << <<24, 24>>, <<5, 5>> >>      \* J:T
            [] OTHER -> NoField)
    [] cls = "SCTLR" ->
         (CASE f = "m" -> B(0) [] f = "a" -> B(1) [] f = "c" -> B(2) [] f = "cp15ben" -> B(5) [] f = "b" -> B(7)
            [] f = "sw" -> B(10) [] f = "z" -> B(11) [] f = "i" -> B(12) [] f = "v" -> B(13) [] f = "rr" -> B(14)
            [] f = "ha" -> B(17) [] f = "br" -> B(17) [] f = "wxn" -> B(19) [] f = "dz" -> B(19)
            [] f = "uwxn" -> B(20) [] f = "fi" -> B(21) [] f = "u" -> B(22) [] f = "ve" -> B(24) [] f = "ee" -> B(25)
            [] f = "nmfi" -> B(27) [] f = "tre" -> B(28) [] f = "afe" -> B(29) [] f = "te" -> B(30) [] f = "ie" -> B(31)
            [] OTHER -> NoField)
    [] cls = "HSCTLR" ->
         (CASE f = "m" -> B(0) [] f = "a" -> B(1) [] f = "c" -> B(2) [] f = "cp15ben" -> B(5) [] f = "i" -> B(12)
            [] f = "wxn" -> B(19) [] f = "fi" -> B(21) [] f = "ee" -> B(25) [] f = "te" -> B(30) [] OTHER -> NoField)
    [] cls = "SCR" ->
         (CASE f = "ns" -> B(0) [] f = "irq" -> B(1) [] f = "fiq" -> B(2) [] f = "ea" -> B(3) [] f = "fw" -> B(4)
            [] f = "aw" -> B(5) [] f = "net" -> B(6) [] f = "scd" -> B(7) [] f = "hce" -> B(8) [] f = "sif" -> B(9)
            [] OTHER -> NoField)
    [] cls = "HCR" ->
         (CASE f = "vm" -> B(0) [] f = "swio" -> B(1) [] f = "ptw" -> B(2) [] f = "fmo" -> B(3) [] f = "imo" -> B(4)
            [] f = "amo" -> B(5) [] f = "vf" -> B(6) [] f = "vi" -> B(7) [] f = "va" -> B(8) [] f = "fb" -> B(9)
            [] f = "bsu" -> F(11, 10) [] f = "dc" -> B(12) [] f = "twi" -> B(13) [] f = "twe" -> B(14)
            [] f = "tsc" -> B(19) [] f = "tidcp" -> B(20) [] f = "tac" -> B(21) [] f = "tsw" -> B(22)
            [] f = "tpc" -> B(23) [] f = "tpu" -> B(24) [] f = "ttlb" -> B(25) [] f = "tvm" -> B(26)
            [] f = "tge" -> B(27) [] OTHER -> NoField)
    [] cls = "HSR"   -> (CASE f = "ec" -> F(31, 26) [] f = "il" -> B(25) [] f = "iss" -> F(24, 0) [] OTHER -> NoField)
    [] cls = "HSTR"  -> (CASE f = "ttee" -> B(16) [] f = "tjdbx" -> B(17) [] OTHER -> NoField)
    [] cls = "HCPTR" -> (CASE f = "tase" -> B(15) [] f = "tta" -> B(20) [] f = "tcpac" -> B(31) [] OTHER -> NoField)
    [] cls = "HDCR"  ->
         (CASE f = "hpmn" -> F(4, 0) [] f = "tpmcr" -> B(5) [] f = "tpm" -> B(6) [] f = "hpme" -> B(7)
            [] f = "tde" -> B(8) [] f = "tda" -> B(9) [] f = "tdosa" -> B(10) [] f = "tdra" -> B(11) [] OTHER -> NoField)
    [] cls = "HPFAR" -> (CASE f = "fipa" -> F(31, 4) [] OTHER -> NoField)
    [] cls = "HTCR"  ->
         (CASE f = "t0sz" -> F(2, 0) [] f = "irgn0" -> F(9, 8) [] f = "orgn0" -> F(11, 10) [] f = "sh0" -> F(13, 12)
            [] OTHER -> NoField)
    [] cls = "VTCR"  ->
         (CASE f = "t0sz" -> F(3, 0) [] f = "s" -> B(4) [] f = "sl0" -> F(7, 6) [] f = "irgn0" -> F(9, 8)
            [] f = "orgn0" -> F(11, 10) [] f = "sh0" -> F(13, 12) [] OTHER -> NoField)
    [] cls = "TTBCR" ->
         (CASE f = "n" -> F(2, 0) [] f = "pd0" -> B(4) [] f = "pd1" -> B(5) [] f = "eae" -> B(31)
            [] f = "t0sz" -> F(2, 0) [] f = "epd0" -> B(7) [] f = "irgn0" -> F(9, 8) [] f = "orgn0" -> F(11, 10)
            [] f = "sh0" -> F(13, 12) [] f = "t1sz" -> F(18, 16) [] f = "a1" -> B(22) [] f = "epd1" -> B(23)
            [] f = "irgn1" -> F(25, 24) [] f = "orgn1" -> F(27, 26) [] f = "sh1" -> F(29, 28) [] OTHER -> NoField)
    [] cls = "DFSR" ->
         (CASE f = "fs" -> << <<10, 10>>, <<3, 0>> >> [] f = "domain" -> F(7, 4) [] f = "lpae" -> B(9)
            [] f = "wnr" -> B(11) [] f = "ext" -> B(12) [] f = "cm" -> B(13) [] f = "status" -> F(5, 0)
            [] OTHER -> NoField)
    [] cls = "FCSEIDR" -> (CASE f = "pid" -> F(31, 25) [] OTHER -> NoField)
    [] cls = "FPEXC"   -> (CASE f = "ex" -> B(31) [] f = "en" -> B(30) [] OTHER -> NoField)
    [] cls = "CPACR"   -> (CASE f = "trcdis" -> B(28) [] f = "d32dis" -> B(30) [] f = "asedis" -> B(31) [] OTHER -> NoField)
    [] cls = "NSACR"   ->
         (CASE f = "nsd32dis" -> B(14) [] f = "nsasedis" -> B(15) [] f = "rfr" -> B(19) [] f = "nstrcdis" -> B(20)
            [] OTHER -> NoField)
    [] cls = "PRRR" -> (CASE f = "ds0" -> B(16) [] f = "ds1" -> B(17) [] f = "ns0" -> B(18) [] f = "ns1" -> B(19)
                          [] OTHER -> NoField)
    [] cls = "MPUIR" -> (CASE f = "nu" -> B(0) [] f = "dregion" -> F(15, 8) [] f = "iregion" -> F(23, 16) [] OTHER -> NoField)
    [] cls \in {"RSR", "DRSR", "IRSR"} -> (CASE f = "en" -> B(0) [] f = "rsize" -> F(5, 1) [] OTHER -> NoField)
    [] cls \in {"RACR", "DRACR", "IRACR"} ->
         (CASE f = "b" -> B(0) [] f = "c" -> B(1) [] f = "s" -> B(2) [] f = "tex" -> F(5, 3) [] f = "ap" -> F(10, 8)
            [] f = "xn" -> B(12) [] OTHER -> NoField)
    [] cls = "MIDR" ->
         (CASE f = "revision" -> F(3, 0) [] f = "primary_part_number" -> F(15, 4) [] f = "architecture" -> F(19, 16)
            [] f = "variant" -> F(23, 20) [] f = "implementer" -> F(31, 24) [] OTHER -> NoField)
    [] cls = "IdPfr1" ->
         (CASE f = "pm" -> F(3, 0) [] f = "se" -> F(7, 4) [] f = "m_profile" -> F(11, 8) [] f = "ve" -> F(15, 12)
            [] f = "gt" -> F(19, 16) [] OTHER -> NoField)
    [] cls = "JMCR"  -> (CASE f = "je" -> B(0) [] OTHER -> NoField)
    [] cls = "TEECR" -> (CASE f = "xed" -> B(0) [] OTHER -> NoField)
    [] cls = "SDER"  -> (CASE f = "suiden" -> B(0) [] f = "suniden" -> B(1) [] OTHER -> NoField)
    [] cls = "PMCR"  ->
         (CASE f = "e" -> B(0) [] f = "p" -> B(1) [] f = "c" -> B(2) [] f = "d" -> B(3) [] f = "x" -> B(4)
            [] f = "dp" -> B(5) [] f = "n" -> F(15, 11) [] f = "idcode" -> F(23, 16) [] f = "imp" -> F(31, 24)
            [] OTHER -> NoField)
    [] cls = "DBGDIDR" ->
         (CASE f = "revision" -> F(3, 0) [] f = "variant" -> F(7, 4) [] f = "se_imp" -> B(12) [] f = "pcsr_imp" -> B(13)
            [] f = "nsuhd_imp" -> B(14) [] f = "devid_imp" -> B(15) [] f = "version" -> F(19, 16)
            [] f = "ctx_cmps" -> F(23, 20) [] f = "brps" -> F(27, 24) [] f = "wrps" -> F(31, 28) [] OTHER -> NoField)
    [] OTHER -> NoField

\* indexed families: (class, family, n) -> field, NoField when n is out of range
IndexedField(cls, fam, n) ==
  CASE cls = "CPACR" /\ fam = "cp_n"  /\ n \in 0..13 -> F(2 * n + 1, 2 * n)
    [] cls = "NSACR" /\ fam = "cp_n"  /\ n \in 0..13 -> B(n)
    [] cls = "HCPTR" /\ fam = "tcp_n" /\ n \in 0..13 -> B(n)
    [] cls = "HSTR"  /\ fam = "t_n"   /\ n \in (0..15) \ {4, 14} -> B(n)
    [] cls = "HCR"   /\ fam = "tid_n" /\ n \in 0..3  -> B(15 + n)
    [] cls = "DACR"  /\ fam = "d_n"   /\ n \in 0..15 -> F(2 * n + 1, 2 * n)
    [] cls = "PRRR"  /\ fam = "tr_n"  /\ n \in 0..7  -> F(2 * n + 1, 2 * n)
    [] cls = "PRRR"  /\ fam = "nos_n" /\ n \in 0..7  -> B(24 + n)
    [] cls = "NMRR"  /\ fam = "ir_n"  /\ n \in 0..7  -> F(2 * n + 1, 2 * n)
    [] cls = "NMRR"  /\ fam = "or_n"  /\ n \in 0..7  -> F(2 * n + 17, 2 * n + 16)
    [] cls \in {"RSR", "DRSR", "IRSR"} /\ fam = "sd_n" /\ n \in 0..7 -> B(8 + n)
    [] cls = "VBAR"  /\ fam = "base_address" /\ n = 0 -> F(31, 5)
    [] OTHER -> NoField

\* <<class, field>> pairs for which only consistency is claimed, with the field width
ConsistencyOnly == [c \in {<<"SUNAVCR", "v">>} |-> 1]

FieldWidth(segs) == LET w(s) == s[1] - s[2] + 1 IN
  IF Len(segs) = 0 THEN 0 ELSE IF Len(segs) = 1 THEN w(segs[1]) ELSE w(segs[1]) + w(segs[2])

\* sanity (checked by MC_Fields): within one register, two distinct fields overlap only if declared aliases
Aliases == { {<<"SCTLR", "ha">>, <<"SCTLR", "br">>}, {<<"SCTLR", "wxn">>, <<"SCTLR", "dz">>},
             {<<"TTBCR", "n">>, <<"TTBCR", "t0sz">>},
             {<<"DFSR", "fs">>, <<"DFSR", "status">>}, {<<"DFSR", "domain">>, <<"DFSR", "status">>},
             {<<"CPSR", "isetstate">>, <<"CPSR", "j">>}, {<<"CPSR", "isetstate">>, <<"CPSR", "t">>} }
=============================================================================
