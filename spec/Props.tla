-------------------------------- MODULE Props --------------------------------
(***************************************************************************)
(* Machine-level properties as state / step predicates.  They are used in  *)
(* two places: evaluated by TLC on the implementation's recorded pre/post  *)
(* states (Trace_Step), and as invariants of the specification itself      *)
(* (MC_Decode, MC_IT, MC_Multi ... check that every step of StepF          *)
(* satisfies them).                                                        *)
(***************************************************************************)
EXTENDS Arm

(* C19: privilege confinement, evaluated on the implementation's own pre/post *)
PrivRegs == {"R8fiq", "R9fiq", "R10fiq", "R11fiq", "R12fiq", "SPfiq", "SPirq", "SPsvc", "SPabt", "SPund", "SPmon",
             "SPhyp", "LRfiq", "LRirq", "LRsvc", "LRabt", "LRund", "LRmon"}
VectorOffsets == {4, 8, 16, 20}
ExcEntryShape(pre, post) ==
  LET m == PM(post.cpsr) IN
  /\ m \in {UND, SVC, ABT, MON, HYP}
  /\ PM(post.spsr[SpsrName(m)]) = USR
  /\ \E off \in VectorOffsets :
        post.R.PC \in {AddInt(ExcVectorBase(post), off), AddInt(post.sys.MVBAR, off), AddInt(post.sys.HVBAR, off)}
UserConfined(pre, post, osys) ==
  PM(pre.cpsr) = USR =>
    \/ /\ PM(post.cpsr) = USR
       /\ PA(post.cpsr) = PA(pre.cpsr) /\ PI(post.cpsr) = PI(pre.cpsr) /\ PF(post.cpsr) = PF(pre.cpsr)
       /\ \A r \in PrivRegs : post.R[r] = pre.R[r]
       /\ post.spsr = pre.spsr /\ post.elr = pre.elr /\ post.sys = pre.sys /\ osys = <<>>
    \/ ExcEntryShape(pre, post)

-----------------------------------------------------------------------------
AllowedOutcomes == {"completed", "undef", "svc", "smc", "dabort", "hyptrap"}
IsNotImpl(out) == out \in {"notimpl"}

\* C10 / C18 / C19 for one step of the SPECIFICATION: from pre-state s and action act the specified post-state is
\* well-typed, its outcome is one of the outcome classes, and User mode stays confined
SpecStepOK(s, act) ==
  LET r == StepF(s, act) IN
  /\ (r.exact => r.out \in AllowedOutcomes)
  /\ (r.exact => RegsTypeOK(r.s))
  /\ (r.exact => UserConfined(s, r.s, <<>>))
=============================================================================
