--------------------------------- MODULE BV ---------------------------------
(***************************************************************************)
(* Reference bit-vector library: the ARM ARM pseudocode helper functions   *)
(* (DDI 0406C, appendix "Pseudocode definition", shared/functions/common   *)
(* and integer) over naturals, width-parametric.  Every primitive is given *)
(* twice where that is meaningful:                                         *)
(*   - `...B` : on bit strings, a word-for-word transcription of the       *)
(*              pseudocode (x : Zeros(shift), <N-1:0> slices, ...).  A bit *)
(*              string is a function [0..N-1 -> {0,1}], index 0 = lsb.     *)
(*   - plain  : arithmetic formulation over Nat ((x * 2^s) % 2^N ...).     *)
(* MC_BV checks that both agree for all operands at widths 1..8.  TLC can  *)
(* evaluate this module directly while 2^(N+shift) fits a Java int, i.e.   *)
(* it is the oracle for widths <= 8..15; width 32/64 is W32.tla, which is  *)
(* linked to this module in MC_W32 (exhaustive at limb width 4) and by     *)
(* Apalache (spec/apa) at limb width 16.                                   *)
(***************************************************************************)
EXTENDS Naturals, Integers, Sequences, FiniteSets

Pow2(n) == 2^n

-----------------------------------------------------------------------------
(* bit strings *)
Bits(N)         == [0..(N-1) -> {0, 1}]
ToBits(x, N)    == [i \in 0..(N-1) |-> (x \div 2^i) % 2]
RECURSIVE SumBits(_, _)
SumBits(b, n)   == IF n = 0 THEN 0 ELSE b[n-1] * 2^(n-1) + SumBits(b, n-1)
FromBits(b, N)  == SumBits(b, N)
ZerosB(N)       == [i \in 0..(N-1) |-> 0]
\* a : b  (a is the high part), lengths la, lb
ConcatB(a, la, b, lb) == [i \in 0..(la+lb-1) |-> IF i < lb THEN b[i] ELSE a[i-lb]]
\* x<hi:lo>
SliceB(x, hi, lo)     == [i \in 0..(hi-lo) |-> x[i+lo]]
ReplicateB(bit, n)    == [i \in 0..(n-1) |-> bit]

-----------------------------------------------------------------------------
(* integers <-> bit vectors *)
UInt(x, N)  == x
SInt(x, N)  == IF x >= 2^(N-1) THEN x - 2^N ELSE x
Bit(x, i)   == (x \div 2^i) % 2
\* x<hi:lo>
Slice(x, hi, lo)      == (x \div 2^lo) % 2^(hi-lo+1)
\* x with x<hi:lo> := v   (v in range)
SetSlice(x, hi, lo, v) == x - (Slice(x, hi, lo) * 2^lo) + v * 2^lo
ToUnsigned(i, N)      == i % 2^N            \* TLA+ % is non-negative for N > 0
IsZero(x)             == x = 0
Ones(N)               == 2^N - 1
NotN(x, N)            == Ones(N) - x
TopBit(x, N)          == Bit(x, N-1)

ZeroExtend(x, N, M)   == x
SignExtend(x, N, M)   == IF Bit(x, N-1) = 1 THEN x + (2^M - 2^N) ELSE x
SignExtendB(x, N, M)  == FromBits(ConcatB(ReplicateB(ToBits(x, N)[N-1], M-N), M-N, ToBits(x, N), N), M)

Align(x, y)           == y * (x \div y)

-----------------------------------------------------------------------------
(* LSL_C etc.; the _C forms require shift > 0 as in the pseudocode *)

LSL_C_B(x, N, s) ==
  LET ext == ConcatB(ToBits(x, N), N, ZerosB(s), s)       \* x : Zeros(shift), N+s bits
  IN <<FromBits(SliceB(ext, N-1, 0), N), ext[N]>>
\* (2^s overflows a TLC integer for s >= 31, hence the clamp; x * 2^s < 2^(2N) otherwise)
LSL_C(x, N, s) == IF s > N THEN <<0, 0>> ELSE <<(x * 2^s) % 2^N, Bit(x, N - s)>>
LSL(x, N, s)   == IF s = 0 THEN x ELSE LSL_C(x, N, s)[1]

LSR_C_B(x, N, s) ==
  LET ext == ConcatB(ZerosB(s), s, ToBits(x, N), N)        \* ZeroExtend(x, shift+N)
  IN <<FromBits(SliceB(ext, s+N-1, s), N), ext[s-1]>>
LSR_C(x, N, s) == IF s > N THEN <<0, 0>> ELSE <<x \div 2^s, Bit(x, s-1)>>
LSR(x, N, s)   == IF s = 0 THEN x ELSE LSR_C(x, N, s)[1]

ASR_C_B(x, N, s) ==
  LET xb  == ToBits(x, N)
      ext == ConcatB(ReplicateB(xb[N-1], s), s, xb, N)      \* SignExtend(x, shift+N)
  IN <<FromBits(SliceB(ext, s+N-1, s), N), ext[s-1]>>
ASR_C(x, N, s) ==
  LET neg == Bit(x, N-1) = 1
      sh  == IF s >= N THEN N ELSE s
      r   == IF neg THEN (x \div 2^sh) + (2^N - 2^(N-sh)) ELSE x \div 2^sh
      c   == IF s > N THEN Bit(x, N-1) ELSE Bit(x, s-1)
  IN <<r, c>>
ASR(x, N, s)   == IF s = 0 THEN x ELSE ASR_C(x, N, s)[1]

ROR_C(x, N, s) ==
  LET m == s % N
      r == IF m = 0 THEN x ELSE (x \div 2^m) + ((x % 2^m) * 2^(N-m))
  IN <<r, Bit(r, N-1)>>
ROR_C_B(x, N, s) ==
  LET m  == s % N
      lr == LSR(x, N, m)
      ll == LSL(x, N, N-m)
      r  == FromBits([i \in 0..(N-1) |-> IF ToBits(lr, N)[i] = 1 \/ ToBits(ll, N)[i] = 1 THEN 1 ELSE 0], N)
  IN <<r, ToBits(r, N)[N-1]>>
ROR(x, N, s)   == IF s = 0 THEN x ELSE ROR_C(x, N, s)[1]

RRX_C(x, N, c) == <<c * 2^(N-1) + (x \div 2), x % 2>>
RRX_C_B(x, N, c) ==
  LET xb == ToBits(x, N)
  IN <<FromBits(ConcatB(ReplicateB(c, 1), 1, SliceB(xb, N-1, 1), N-1), N), xb[0]>>
RRX(x, N, c)   == RRX_C(x, N, c)[1]

\* SRType
SRType == {"LSL", "LSR", "ASR", "ROR", "RRX"}

Shift_C(x, N, t, amount, cin) ==
  IF amount = 0 THEN <<x, cin>>
  ELSE CASE t = "LSL" -> LSL_C(x, N, amount)
         [] t = "LSR" -> LSR_C(x, N, amount)
         [] t = "ASR" -> ASR_C(x, N, amount)
         [] t = "ROR" -> ROR_C(x, N, amount)
         [] t = "RRX" -> RRX_C(x, N, cin)
Shift(x, N, t, amount, cin) == Shift_C(x, N, t, amount, cin)[1]

\* DecodeImmShift(type, imm5) -> <<SRType, amount>>
DecodeImmShift(ty, imm5) ==
  CASE ty = 0 -> <<"LSL", imm5>>
    [] ty = 1 -> <<"LSR", IF imm5 = 0 THEN 32 ELSE imm5>>
    [] ty = 2 -> <<"ASR", IF imm5 = 0 THEN 32 ELSE imm5>>
    [] ty = 3 -> IF imm5 = 0 THEN <<"RRX", 1>> ELSE <<"ROR", imm5>>
DecodeRegShift(ty) ==
  CASE ty = 0 -> "LSL" [] ty = 1 -> "LSR" [] ty = 2 -> "ASR" [] ty = 3 -> "ROR"

-----------------------------------------------------------------------------
(* AddWithCarry(x, y, carry_in) -> <<result, carry_out, overflow>> *)
AddWithCarry(x, y, cin, N) ==
  LET usum == x + y + cin
      ssum == SInt(x, N) + SInt(y, N) + cin
      r    == usum % 2^N
  IN <<r, IF r = usum THEN 0 ELSE 1, IF SInt(r, N) = ssum THEN 0 ELSE 1>>
\* second formulation: carry = sum >= 2^N; overflow = operands same sign, result differs
AddWithCarry2(x, y, cin, N) ==
  LET usum == x + y + cin
      r    == usum % 2^N
      sx   == Bit(x, N-1)
      sy   == Bit(y, N-1)
      sr   == Bit(r, N-1)
  IN <<r, IF usum >= 2^N THEN 1 ELSE 0, IF sx = sy /\ sr # sx THEN 1 ELSE 0>>

-----------------------------------------------------------------------------
(* saturation: i is an Int *)
SignedSatQ(i, N) ==
  IF i > 2^(N-1) - 1 THEN <<2^(N-1) - 1, TRUE>>
  ELSE IF i < -(2^(N-1)) THEN <<2^(N-1), TRUE>>          \* -(2^(N-1)) as an N-bit pattern
  ELSE <<ToUnsigned(i, N), FALSE>>
UnsignedSatQ(i, N) ==
  IF i > 2^N - 1 THEN <<2^N - 1, TRUE>>
  ELSE IF i < 0 THEN <<0, TRUE>>
  ELSE <<i, FALSE>>
SignedSat(i, N)   == SignedSatQ(i, N)[1]
UnsignedSat(i, N) == UnsignedSatQ(i, N)[1]

-----------------------------------------------------------------------------
(* counting *)
RECURSIVE BitCountR(_, _)
BitCountR(x, N) == IF N = 0 THEN 0 ELSE (x % 2) + BitCountR(x \div 2, N-1)
BitCount(x, N)  == BitCountR(x, N)
LowestSetBit(x, N) ==
  IF x = 0 THEN N ELSE CHOOSE i \in 0..(N-1) : Bit(x, i) = 1 /\ \A j \in 0..(i-1) : Bit(x, j) = 0
HighestSetBit(x, N) ==
  IF x = 0 THEN -1 ELSE CHOOSE i \in 0..(N-1) : Bit(x, i) = 1 /\ \A j \in (i+1)..(N-1) : Bit(x, j) = 0
CountLeadingZeroBits(x, N) == N - 1 - HighestSetBit(x, N)

\* BigEndianReverse on n bytes
RECURSIVE BER(_, _)
BER(v, n) == IF n = 0 THEN 0 ELSE (v % 256) * 256^(n-1) + BER(v \div 256, n-1)
BigEndianReverse(v, n) == BER(v, n)

-----------------------------------------------------------------------------
(* modified immediates (32-bit results: only evaluable by TLC when the     *)
(* value stays below 2^31 -- used at reduced width in MC_BV; the width-32  *)
(* instance is W32!ARMExpandImm_C / W32!ThumbExpandImm_C)                  *)
=============================================================================
