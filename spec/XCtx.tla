-------------------------------- MODULE XCtx ---------------------------------
(***************************************************************************)
(* Execution context threaded through the pseudocode of one instruction:   *)
(*   s    the machine state so far                                         *)
(*   ab   NoAbort, or the synchronous exception raised so far              *)
(*          [t |-> "dabort", alignment, secondstage] / "undef" / "svc" /   *)
(*          "smc" / "hyptrap"; once set, later operations are skipped      *)
(*   unp  TRUE once an UNPREDICTABLE situation was met (only the envelope  *)
(*        properties are then claimed for the step)                        *)
(*   ni   name of the not-implemented hook reached ("" if none)            *)
(*   dcR / dcM / dcS / dcC : registers, memory cells <<dev, off>>, system  *)
(*        registers and a CPSR bit mask whose final value is UNKNOWN       *)
(*   dcD  mask of DFSR bits that are UNKNOWN                               *)
(*   br   TRUE once the instruction has written the PC (BranchTo)          *)
(***************************************************************************)
EXTENDS Exc, Hub

NoAbort == [t |-> "none"]
X0(s) == [s |-> s, ab |-> NoAbort, unp |-> FALSE, ni |-> "", br |-> FALSE, dcR |-> {}, dcM |-> {}, dcS |-> {},
          dcC |-> Zero, dcD |-> Zero]
Ok(x)          == x.ab.t = "none" /\ x.ni = ""
Unpred(x)      == [x EXCEPT !.unp = TRUE]
UnpredIf(x, c) == IF c THEN [x EXCEPT !.unp = TRUE] ELSE x
Raise(x, t)    == IF Ok(x) THEN [x EXCEPT !.ab = [t |-> t]] ELSE x
NotImpl(x, nm) == IF Ok(x) THEN [x EXCEPT !.ni = nm] ELSE x
WithS(x, s)    == [x EXCEPT !.s = s]

DRSRn  == <<"DRSR0", "DRSR1", "DRSR2", "DRSR3", "DRSR4", "DRSR5", "DRSR6", "DRSR7", "DRSR8", "DRSR9", "DRSR10",
            "DRSR11", "DRSR12", "DRSR13", "DRSR14", "DRSR15">>
DRBARn == <<"DRBAR0", "DRBAR1", "DRBAR2", "DRBAR3", "DRBAR4", "DRBAR5", "DRBAR6", "DRBAR7", "DRBAR8", "DRBAR9",
            "DRBAR10", "DRBAR11", "DRBAR12", "DRBAR13", "DRBAR14", "DRBAR15">>
DRACRn == <<"DRACR0", "DRACR1", "DRACR2", "DRACR3", "DRACR4", "DRACR5", "DRACR6", "DRACR7", "DRACR8", "DRACR9",
            "DRACR10", "DRACR11", "DRACR12", "DRACR13", "DRACR14", "DRACR15">>

\* fault status encodings (B3.13 / B5.?): short-descriptor FS<4:0> and PMSA FS<4:0>
FS_ALIGNMENT == 1
PMSA_FS(dtype) == CASE dtype = "ALIGNMENT" -> 1 [] dtype = "BACKGROUND" -> 0 [] dtype = "PERMISSION" -> 13
SD_FS(dtype, level) ==
  CASE dtype = "ALIGNMENT"   -> 1
    [] dtype = "TRANSLATION" -> IF level = 1 THEN 5 ELSE 7
    [] dtype = "ACCESS_FLAG" -> IF level = 1 THEN 3 ELSE 6
    [] dtype = "DOMAIN"      -> IF level = 1 THEN 9 ELSE 11
    [] dtype = "PERMISSION"  -> IF level = 1 THEN 13 ELSE 15

\* DataAbort() bookkeeping for a PMSA fault: DFAR, DFSR<13:0>; then the exception is pending
DataAbortP(x, va, iswrite, dtype) ==
  LET fs   == PMSA_FS(dtype)
      str  == (IF iswrite THEN 2048 ELSE 0) + ((fs \div 16) * 1024) + (fs % 16)
      dfsr == InsertW(x.s.sys.DFSR, 13, 0, <<0, str>>)
  IN [x EXCEPT !.s.sys.DFSR = dfsr, !.s.sys.DFAR = va,
               !.ab = [t |-> "dabort", alignment |-> dtype = "ALIGNMENT", secondstage |-> FALSE]]

\* short-descriptor VMSA fault (not taken to Hyp): domain field valid only for some faults
DataAbortSD(x, mva, iswrite, dtype, level, domain) ==
  LET fs   == SD_FS(dtype, level)
      domv == dtype = "DOMAIN" \/ (level = 2 /\ dtype \in {"TRANSLATION", "ACCESS_FLAG"}) \/
              ((~x.s.cfg.lpae) /\ dtype = "PERMISSION")
      str  == (IF iswrite THEN 2048 ELSE 0) + ((fs \div 16) * 1024) + (fs % 16) + (IF domv THEN domain * 16 ELSE 0)
      dfsr == InsertW(x.s.sys.DFSR, 13, 0, <<0, str>>)
  IN IF x.s.cfg.lpae THEN NotImpl(x, "tlb_lookup_came_from_cache_maintenance")   \* the emulator's fault reporting with LPAE reaches a mock hook
     ELSE
     [x EXCEPT !.s.sys.DFSR = dfsr, !.s.sys.DFAR = mva,
               !.dcD = IF domv THEN @ ELSE WOr(@, <<0, 240>>),
               !.ab = [t |-> "dabort", alignment |-> dtype = "ALIGNMENT", secondstage |-> FALSE]]
-----------------------------------------------------------------------------
(* Memory attributes of an address descriptor (B2.4.? MemoryAttributes): type, inner/outer cacheability attrs  *)
(* (00 NC, 01 WBWA, 10 WT, 11 WB) and allocation hints, shareable / outershareable.  `dc` names the fields the  *)
(* architecture leaves UNKNOWN or IMPLEMENTATION DEFINED (or that I will not vouch for from memory: the         *)
(* shareability of Device memory, which changed between issues of the ARM ARM); they are not compared.          *)
AttrFields == {"ty", "ia", "ih", "oa", "oh", "sh", "osh"}
MkAttr(ty, ia, ih, oa, oh, sh, osh, dc) ==
  [a |-> [ty |-> ty, ia |-> ia, ih |-> ih, oa |-> oa, oh |-> oh, sh |-> sh, osh |-> osh], dc |-> dc]
AttrUnknown  == MkAttr("NORMAL", 0, 0, 0, 0, 0, 0, AttrFields)
AttrSO       == MkAttr("SO", 0, 0, 0, 0, 1, 1, {"ia", "ih", "oa", "oh"})
AttrDevice   == MkAttr("DEV", 0, 0, 0, 0, 1, 1, {"ia", "ih", "oa", "oh", "sh", "osh"})
B2N(b) == IF b THEN 1 ELSE 0

\* ConvertAttrsHints(RGN): 00 NC; x1 write-back (hints 1:NOT(RGN<1>)); 10 write-through (hints 10)
ConvAttrs(rgn) == IF rgn = 0 THEN 0 ELSE IF rgn % 2 = 1 THEN 3 ELSE 2
ConvHints(rgn) == IF rgn = 0 THEN 0 ELSE IF rgn % 2 = 1 THEN 2 + (1 - rgn \div 2) ELSE 2

\* DefaultTEXDecode(texcb, S) (B3.? / B5.?): the TEX/C/B encodings without TEX remap
DefaultTEXDecode(texcb, sbit) ==
  LET N(a, h) == MkAttr("NORMAL", a, h, a, h, sbit, sbit, {}) IN
  CASE texcb = 0 -> AttrSO
    [] texcb = 1 -> AttrDevice
    [] texcb = 2 -> N(2, 2)
    [] texcb = 3 -> N(3, 2)
    [] texcb = 4 -> N(0, 0)
    [] texcb = 7 -> N(3, 3)
    [] texcb = 8 -> AttrDevice
    [] texcb >= 16 -> MkAttr("NORMAL", ConvAttrs(texcb % 4), ConvHints(texcb % 4),
                             ConvAttrs((texcb \div 4) % 4), ConvHints((texcb \div 4) % 4), sbit, sbit, {})
    [] OTHER -> AttrUnknown            \* 00110 IMPLEMENTATION DEFINED, the rest reserved (UNPREDICTABLE)
TEXCBReserved(texcb) == texcb \in {5, 9, 10, 11, 12, 13, 14, 15}

\* DefaultMemoryAttributes(va) (B5.? PMSA default memory map / MPU off), selected by va<31:30> and va<29>;
\* allocation hints are not assigned by the pseudocode
DefaultMemoryAttributes(s, va) ==
  LET top == Slice(va, 31, 30)  b29 == Bit(va, 29)
      c   == Bit(s.sys.SCTLR, 2)
      N(a, sh) == MkAttr("NORMAL", a, 0, a, 0, sh, sh, {"ih", "oh"})
  IN CASE top = 0 -> IF c = 0 THEN N(0, 1) ELSE N(1, 0)
       [] top = 1 -> IF c = 0 \/ b29 = 1 THEN N(0, 1) ELSE N(2, 0)
       [] top = 2 -> AttrDevice
       [] top = 3 -> AttrSO
=============================================================================
