-------------------------------- MODULE State --------------------------------
(***************************************************************************)
(* Abstract machine state and its accessors (ARM ARM B1.3 processor modes, *)
(* core registers, PSRs).  A state `s` is a record                         *)
(*   R    : [RNames -> word]      34 physical registers; R.PC = address of *)
(*                                the current instruction                  *)
(*   cpsr : word                                                           *)
(*   spsr : [SpsrNames -> word]                                            *)
(*   elr  : word                  ELR_hyp                                  *)
(*   sys  : [SysNames -> word]    system control registers (flat names;    *)
(*                                MPU regions are "DRSR0".."DRACR11")      *)
(*   mem  : memory hub model (Hub.tla)                                     *)
(*   ev   : [evreg, wfe, wfi]     event register / wait state (0/1)        *)
(*   cfg  : configuration         [arch, pmsa, sec, virt, lpae, mp, ...]   *)
(* Words are <<hi, lo>> limb pairs (Base/W32).                             *)
(***************************************************************************)
EXTENDS Base, Cond

RNames == {"R0usr", "R1usr", "R2usr", "R3usr", "R4usr", "R5usr", "R6usr", "R7usr", "R8usr", "R8fiq", "R9usr",
           "R9fiq", "R10usr", "R10fiq", "R11usr", "R11fiq", "R12usr", "R12fiq", "SPusr", "SPfiq", "SPirq",
           "SPsvc", "SPabt", "SPund", "SPmon", "SPhyp", "LRusr", "LRfiq", "LRirq", "LRsvc", "LRabt", "LRund",
           "LRmon", "PC"}
SpsrNames == {"fiq", "irq", "svc", "abt", "und", "mon", "hyp"}

\* mode numbers (CPSR.M)
USR == 16  FIQ == 17  IRQ == 18  SVC == 19  MON == 22  ABT == 23  HYP == 26  UND == 27  SYS == 31
AllModeNumbers == 0..31
BadMode(cfg, m) ==
  CASE m \in {USR, FIQ, IRQ, SVC, ABT, UND, SYS} -> FALSE
    [] m = MON -> ~cfg.sec
    [] m = HYP -> ~cfg.virt
    [] OTHER -> TRUE
GoodModes(cfg) == {m \in AllModeNumbers : ~BadMode(cfg, m)}

\* RBankSelect / LookUpRName (B1.3.2), operational form: bank of a mode, then a table
Bank(m) == CASE m = USR -> "usr" [] m = FIQ -> "fiq" [] m = IRQ -> "irq" [] m = SVC -> "svc" [] m = MON -> "mon"
             [] m = ABT -> "abt" [] m = HYP -> "hyp" [] m = UND -> "und" [] m = SYS -> "usr"
Low8 == <<"R0usr", "R1usr", "R2usr", "R3usr", "R4usr", "R5usr", "R6usr", "R7usr">>
Mid5 == <<"R8usr", "R9usr", "R10usr", "R11usr", "R12usr">>
RTable ==
  [usr |-> Low8 \o Mid5 \o <<"SPusr", "LRusr">>,
   fiq |-> Low8 \o <<"R8fiq", "R9fiq", "R10fiq", "R11fiq", "R12fiq", "SPfiq", "LRfiq">>,
   irq |-> Low8 \o Mid5 \o <<"SPirq", "LRirq">>,
   svc |-> Low8 \o Mid5 \o <<"SPsvc", "LRsvc">>,
   abt |-> Low8 \o Mid5 \o <<"SPabt", "LRabt">>,
   und |-> Low8 \o Mid5 \o <<"SPund", "LRund">>,
   mon |-> Low8 \o Mid5 \o <<"SPmon", "LRmon">>,
   hyp |-> Low8 \o Mid5 \o <<"SPhyp", "LRusr">>]
\* n in 0..14, m a good mode
LookUpRName(n, m) == RTable[Bank(m)][n + 1]

-----------------------------------------------------------------------------
(* CPSR fields (B1.3.3) as views of the CPSR word *)
PN(c) == Bit(c, 31)   PZ(c) == Bit(c, 30)   PC_(c) == Bit(c, 29)   PV(c) == Bit(c, 28)   PQ(c) == Bit(c, 27)
PJ(c) == Bit(c, 24)   PE(c) == Bit(c, 9)    PA(c) == Bit(c, 8)     PI(c) == Bit(c, 7)    PF(c) == Bit(c, 6)
PT(c) == Bit(c, 5)
PGE(c)  == Slice(c, 19, 16)
PM(c)   == Slice(c, 4, 0)
PIT(c)  == Slice(c, 15, 10) * 4 + Slice(c, 26, 25)
PNZCV(c) == Slice(c, 31, 28)
SetBitW(c, i, b) == InsertW(c, i, i, <<0, b>>)
SetM(c, m)    == InsertW(c, 4, 0, <<0, m>>)
SetIT(c, it)  == InsertW(InsertW(c, 15, 10, <<0, it \div 4>>), 26, 25, <<0, it % 4>>)
SetGE(c, ge)  == InsertW(c, 19, 16, <<0, ge>>)
SetNZCV(c, f) == InsertW(c, 31, 28, <<0, f>>)
SetFlags4(c, n, z, cc, v) == SetNZCV(c, n * 8 + z * 4 + cc * 2 + v)
\* instruction set state J:T -> 0 ARM, 1 Thumb, 2 Jazelle, 3 ThumbEE
ISet(c) == PJ(c) * 2 + PT(c)
IsThumb(c) == ISet(c) = 1
IsARM(c)   == ISet(c) = 0

Mode(s)    == PM(s.cpsr)
CurrentModeIsNotUser(s) == Mode(s) # USR
CurrentModeIsHyp(s)     == Mode(s) = HYP
CurrentModeIsUserOrSystem(s) == Mode(s) \in {USR, SYS}
IsSecure(s) == (~s.cfg.sec) \/ Bit(s.sys.SCR, 0) = 0 \/ Mode(s) = MON

-----------------------------------------------------------------------------
(* register access: R[n], Rmode[n, mode], SPSR[] *)
Rmode(s, n, m)       == s.R[LookUpRName(n, m)]
\* R[15] reads as the instruction's address + 8 (ARM) / + 4 (Thumb)
PCRead(s)            == AddInt(s.R.PC, IF IsARM(s.cpsr) THEN 8 ELSE 4)
Rget(s, n)           == IF n = 15 THEN PCRead(s) ELSE Rmode(s, n, Mode(s))
SetRmode(s, n, m, v) == [s EXCEPT !.R[LookUpRName(n, m)] = v]
Rset(s, n, v)        == SetRmode(s, n, Mode(s), v)
SetPC(s, a)          == [s EXCEPT !.R.PC = a]
SPget(s) == Rget(s, 13)
LRget(s) == Rget(s, 14)

SpsrName(m) == Bank(m)          \* for the modes that have one
HasSpsr(m)  == m \in {FIQ, IRQ, SVC, MON, ABT, HYP, UND}
SPSRget(s)    == s.spsr[SpsrName(Mode(s))]
SPSRset(s, v) == [s EXCEPT !.spsr[SpsrName(Mode(s))] = v]

\* system register field helpers
SysBit(s, r, i) == Bit(s.sys[r], i)
SCTLR_M(s) == SysBit(s, "SCTLR", 0)    SCTLR_A(s) == SysBit(s, "SCTLR", 1)    SCTLR_V(s) == SysBit(s, "SCTLR", 13)
SCTLR_BR(s) == SysBit(s, "SCTLR", 17)  SCTLR_U(s) == SysBit(s, "SCTLR", 22)   SCTLR_VE(s) == SysBit(s, "SCTLR", 24)
SCTLR_EE(s) == SysBit(s, "SCTLR", 25)  SCTLR_NMFI(s) == SysBit(s, "SCTLR", 27)
SCTLR_TRE(s) == SysBit(s, "SCTLR", 28) SCTLR_AFE(s) == SysBit(s, "SCTLR", 29) SCTLR_TE(s) == SysBit(s, "SCTLR", 30)
SCTLR_HA(s) == SysBit(s, "SCTLR", 17)
SCR_NS(s) == SysBit(s, "SCR", 0)   SCR_IRQ(s) == SysBit(s, "SCR", 1)  SCR_FIQ(s) == SysBit(s, "SCR", 2)
SCR_EA(s) == SysBit(s, "SCR", 3)   SCR_FW(s) == SysBit(s, "SCR", 4)   SCR_AW(s) == SysBit(s, "SCR", 5)
HCR_FMO(s) == SysBit(s, "HCR", 3)  HCR_IMO(s) == SysBit(s, "HCR", 4)  HCR_AMO(s) == SysBit(s, "HCR", 5)
HCR_TGE(s) == SysBit(s, "HCR", 27) HCR_VM(s) == SysBit(s, "HCR", 0)   HCR_DC(s) == SysBit(s, "HCR", 12)
HSCTLR_TE(s) == SysBit(s, "HSCTLR", 30)  HSCTLR_EE(s) == SysBit(s, "HSCTLR", 25)
HSCTLR_M(s) == SysBit(s, "HSCTLR", 0)    HSCTLR_A(s) == SysBit(s, "HSCTLR", 1)
NSACR_RFR(s) == SysBit(s, "NSACR", 19)

\* type correctness of the register file (C10 range invariant)
RegsTypeOK(s) ==
  /\ \A r \in RNames : IsWord(s.R[r])
  /\ IsWord(s.cpsr)
  /\ \A m \in SpsrNames : IsWord(s.spsr[m])
  /\ IsWord(s.elr)
=============================================================================
