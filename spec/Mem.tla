--------------------------------- MODULE Mem ---------------------------------
(***************************************************************************)
(* Memory access model (ARM ARM B2.4.4: MemA, MemU, MemA_with_priv,        *)
(* MemU_with_priv, MemU_unpriv; A3.2 alignment support; A3.3 endianness).  *)
(* A value is exchanged as a byte sequence ordered by SIGNIFICANCE         *)
(* (v[1] = least significant byte); the hub sees bytes ordered by address. *)
(***************************************************************************)
EXTENDS PMSA, VMSA

Translate(x, va, priv, iswrite, size, wasaligned) ==
  IF x.s.cfg.pmsa
  THEN LET t == TranslateP(x, va, priv, iswrite, wasaligned) IN [x |-> t.x, pa |-> t.pa, ext |-> 0]
  ELSE TranslateV(x, va, priv, iswrite, size, wasaligned)

\* attributes / NS of the descriptor translate_address returns (Translate trace action); PMSA: NS is IMPLEMENTATION DEFINED
TranslateAttrs(x, va, priv, iswrite, wasaligned) ==
  IF x.s.cfg.pmsa THEN [at |-> TranslateP(x, va, priv, iswrite, wasaligned).at, ns |-> 2] ELSE AttrsV(x.s, va)

IsAligned(a, size) == IsZeroW(WAnd(a, <<0, size - 1>>))
AlignW(a, size)    == WAnd(a, <<MM, M - size>>)

AlignmentFault(x, addr, iswrite) ==
  IF x.s.cfg.pmsa THEN DataAbortP(x, addr, iswrite, "ALIGNMENT")
  ELSE IF Mode(x.s) = HYP \/ (x.s.cfg.virt /\ HCR_TGE(x.s) = 1) THEN NotImpl(x, "unmodelled:hyp-abort")
  ELSE DataAbortSD(x, FCSETranslate(x.s, addr), iswrite, "ALIGNMENT", 1, 0)

\* physical read through the hub; ext # 0 addresses nothing
PhysRead(x, pa, ext, size) ==
  IF ext # 0 THEN [bytes |-> [i \in 1..size |-> 0], crossed |-> FALSE] ELSE HubRead(x.s.mem, pa, size)

\* -> [x, v]; v = bytes by significance; on abort v is all zero
MemAReadE(x, addr, size, priv, wasaligned, bigend) ==
  IF ~Ok(x) THEN [x |-> x, v |-> [i \in 1..size |-> 0]]
  ELSE
  LET s == x.s
      legacyAlign == (~IsAligned(addr, size)) /\ ~(s.cfg.arch >= 7 \/ SCTLR_A(s) = 1 \/ SCTLR_U(s) = 1)
  IN IF (~IsAligned(addr, size)) /\ ~legacyAlign
     THEN [x |-> AlignmentFault(x, addr, FALSE), v |-> [i \in 1..size |-> 0]]
     ELSE LET va == IF legacyAlign THEN AlignW(addr, size) ELSE addr
              t  == Translate(x, va, priv, FALSE, size, wasaligned)
          IN IF ~Ok(t.x) THEN [x |-> t.x, v |-> [i \in 1..size |-> 0]]
             ELSE LET r == PhysRead(t.x, t.pa, t.ext, size)
                  IN [x |-> UnpredIf(t.x, r.crossed), v |-> IF bigend THEN Reverse(r.bytes) ELSE r.bytes]
MemARead(x, addr, size, priv, wasaligned) == MemAReadE(x, addr, size, priv, wasaligned, PE(x.s.cpsr) = 1)

\* v = bytes by significance -> x
MemAWrite(x, addr, size, priv, wasaligned, v) ==
  IF ~Ok(x) THEN x
  ELSE
  LET s == x.s
      legacyAlign == (~IsAligned(addr, size)) /\ ~(s.cfg.arch >= 7 \/ SCTLR_A(s) = 1 \/ SCTLR_U(s) = 1)
  IN IF (~IsAligned(addr, size)) /\ ~legacyAlign
     THEN AlignmentFault(x, addr, TRUE)
     ELSE LET va == IF legacyAlign THEN AlignW(addr, size) ELSE addr
              t  == Translate(x, va, priv, TRUE, size, wasaligned)
          IN IF ~Ok(t.x) THEN t.x
             ELSE IF t.ext # 0 THEN t.x
             ELSE LET bs == IF PE(s.cpsr) = 1 THEN Reverse(v) ELSE v
                      h  == HubWrite(t.x.s.mem, t.pa, bs)
                  IN [t.x EXCEPT !.s.mem = h.mem, !.dcM = @ \cup h.dc]

\* MemU: legacy align-down, aligned -> MemA, SCTLR.A -> fault, else byte by byte
RECURSIVE ByteReads(_, _, _, _, _)
ByteReads(x, addr, k, size, priv) ==          \* bytes k..size by ADDRESS order -> [x, bytes]
  IF k > size THEN [x |-> x, bytes |-> <<>>]
  ELSE LET r  == MemAReadE(x, AddInt(addr, k - 1), 1, priv, FALSE, FALSE)
           rs == ByteReads(r.x, addr, k + 1, size, priv)
       IN [x |-> rs.x, bytes |-> <<r.v[1]>> \o rs.bytes]
RECURSIVE ByteWrites(_, _, _, _, _, _)
ByteWrites(x, addr, k, size, priv, bs) ==     \* bs by ADDRESS order
  IF k > size THEN x
  ELSE ByteWrites(MemAWrite(x, AddInt(addr, k - 1), 1, priv, FALSE, <<bs[k]>>), addr, k + 1, size, priv, bs)

UFaults(s) == IF Mode(s) = HYP THEN s.cfg.virt /\ (~IsSecure(s)) /\ HSCTLR_A(s) = 1 ELSE SCTLR_A(s) = 1

MemURead(x, addr0, size, priv) ==
  IF ~Ok(x) THEN [x |-> x, v |-> [i \in 1..size |-> 0]]
  ELSE
  LET s    == x.s
      addr == IF s.cfg.arch < 7 /\ SCTLR_A(s) = 0 /\ SCTLR_U(s) = 0 THEN AlignW(addr0, size) ELSE addr0
  IN IF IsAligned(addr, size) THEN MemARead(x, addr, size, priv, TRUE)
     ELSE IF UFaults(s) THEN [x |-> AlignmentFault(x, addr, FALSE), v |-> [i \in 1..size |-> 0]]
     ELSE LET r == ByteReads(x, addr, 1, size, priv)
          IN [x |-> r.x, v |-> IF ~Ok(r.x) THEN [i \in 1..size |-> 0]
                                ELSE IF PE(s.cpsr) = 1 THEN Reverse(r.bytes) ELSE r.bytes]
MemUWrite(x, addr0, size, priv, v) ==
  IF ~Ok(x) THEN x
  ELSE
  LET s    == x.s
      addr == IF s.cfg.arch < 7 /\ SCTLR_A(s) = 0 /\ SCTLR_U(s) = 0 THEN AlignW(addr0, size) ELSE addr0
  IN IF IsAligned(addr, size) THEN MemAWrite(x, addr, size, priv, TRUE, v)
     ELSE IF UFaults(s) THEN AlignmentFault(x, addr, TRUE)
     ELSE ByteWrites(x, addr, 1, size, priv, IF PE(s.cpsr) = 1 THEN Reverse(v) ELSE v)

Priv(s) == CurrentModeIsNotUser(s)
\* word-valued conveniences (size <= 4)
MemU(x, addr, size)        == LET r == MemURead(x, addr, size, Priv(x.s)) IN [x |-> r.x, v |-> BytesToWord(r.v)]
MemA(x, addr, size)        == LET r == MemARead(x, addr, size, Priv(x.s), TRUE) IN [x |-> r.x, v |-> BytesToWord(r.v)]
MemU_unpriv(x, addr, size) == LET r == MemURead(x, addr, size, FALSE) IN [x |-> r.x, v |-> BytesToWord(r.v)]
MemUSet(x, addr, size, w)        == MemUWrite(x, addr, size, Priv(x.s), WordToBytes(w, size))
MemASet(x, addr, size, w)        == MemAWrite(x, addr, size, Priv(x.s), TRUE, WordToBytes(w, size))
MemUSet_unpriv(x, addr, size, w) == MemUWrite(x, addr, size, FALSE, WordToBytes(w, size))

\* instruction fetch: always little-endian (A3.3.1), privileged per current mode
FetchHalf(x, addr) == LET r == MemAReadE(x, addr, 2, Priv(x.s), TRUE, FALSE) IN [x |-> r.x, v |-> r.v[1] + 256 * r.v[2]]
FetchWord(x, addr) == LET r == MemAReadE(x, addr, 4, Priv(x.s), TRUE, FALSE) IN [x |-> r.x, v |-> BytesToWord(r.v)]
=============================================================================
