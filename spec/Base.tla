-------------------------------- MODULE Base ---------------------------------
(* Common prelude of the machine specification: 16-bit-limb words (W32 with L = 16). *)
EXTENDS Naturals, Integers, Sequences, FiniteSets, TLC
INSTANCE W32 WITH L <- 16
=============================================================================
