--------------------------------- MODULE ISA ---------------------------------
(***************************************************************************)
(* Instruction "operation" pseudocode (ARM ARM A8), one operator per       *)
(* abstract instruction, acting on an execution context (XCtx).  A decoded *)
(* instruction is a record `i` with k = its family and the operands the    *)
(* encoding-specific pseudocode derives (Decode.tla).                      *)
(***************************************************************************)
EXTENDS Mem

-----------------------------------------------------------------------------
(* PC writes (A2.3.1) *)
BranchTo(x, a) == [x EXCEPT !.s.R.PC = a, !.br = TRUE]
SelectARM(x)   == [x EXCEPT !.s.cpsr = SetBitW(SetBitW(@, 24, 0), 5, 0)]
SelectThumb(x) == [x EXCEPT !.s.cpsr = SetBitW(SetBitW(@, 24, 0), 5, 1)]
BranchWritePC(x, a) ==
  IF IsARM(x.s.cpsr)
  THEN BranchTo(UnpredIf(x, x.s.cfg.arch < 6 /\ Slice(a, 1, 0) # 0), WAnd(a, <<MM, MM - 3>>))
  ELSE BranchTo(x, WAnd(a, <<MM, MM - 1>>))
BXWritePC(x, a) ==
  IF Bit(a, 0) = 1 THEN BranchTo(SelectThumb(x), WAnd(a, <<MM, MM - 1>>))
  ELSE IF Bit(a, 1) = 0 THEN BranchTo(SelectARM(x), a)
  ELSE Unpred(x)
ALUWritePC(x, a)  == IF x.s.cfg.arch >= 7 /\ IsARM(x.s.cpsr) THEN BXWritePC(x, a) ELSE BranchWritePC(x, a)
LoadWritePC(x, a) == IF x.s.cfg.arch >= 5 THEN BXWritePC(x, a) ELSE BranchWritePC(x, a)

RsetX(x, n, v) == [x EXCEPT !.s = Rset(@, n, v)]
CFlag(x) == PC_(x.s.cpsr)
SetNZ(c, r)        == SetBitW(SetBitW(c, 31, TopBit(r)), 30, IF IsZeroW(r) THEN 1 ELSE 0)
SetNZC(c, r, cy)   == SetBitW(SetNZ(c, r), 29, cy)
SetNZCVr(c, r, cy, v) == SetBitW(SetNZC(c, r, cy), 28, v)
AlignPC4(x) == WAnd(PCRead(x.s), <<MM, MM - 3>>)

-----------------------------------------------------------------------------
(* flexible second operand -> [v, c] *)
Operand2(x, o2) ==
  LET c == CFlag(x) IN
  CASE o2.t = "imm"  -> [v |-> o2.v, c |-> c]
    [] o2.t = "aimm" -> LET r == ARMExpandImm_C(o2.imm12, c) IN [v |-> r[1], c |-> r[2]]
    [] o2.t = "timm" -> LET r == ThumbExpandImm_C(o2.imm12, c) IN [v |-> r[1], c |-> r[2]]
    [] o2.t = "reg"  -> LET r == Shift_C(Rget(x.s, o2.m), o2.st, o2.sn, c) IN [v |-> r[1], c |-> r[2]]
    [] o2.t = "rsr"  -> LET r == Shift_C(Rget(x.s, o2.m), o2.st, Lo(Rget(x.s, o2.rs)) % 256, c)
                        IN [v |-> r[1], c |-> r[2]]

TestOps    == {"TST", "TEQ", "CMP", "CMN"}
LogicalOps == {"AND", "EOR", "ORR", "BIC", "MOV", "MVN", "ORN", "TST", "TEQ"}

\* <<result, carry, overflow>>; overflow = 2 means "V unchanged"
DPCompute(op, rn, o, c) ==
  CASE op \in {"AND", "TST"} -> <<WAnd(rn, o.v), o.c, 2>>
    [] op \in {"EOR", "TEQ"} -> <<WXor(rn, o.v), o.c, 2>>
    [] op = "ORR" -> <<WOr(rn, o.v), o.c, 2>>
    [] op = "BIC" -> <<WAnd(rn, WNot(o.v)), o.c, 2>>
    [] op = "ORN" -> <<WOr(rn, WNot(o.v)), o.c, 2>>
    [] op = "MOV" -> <<o.v, o.c, 2>>
    [] op = "MVN" -> <<WNot(o.v), o.c, 2>>
    [] op \in {"ADD", "CMN"} -> AddC(rn, o.v, 0)
    [] op \in {"SUB", "CMP"} -> AddC(rn, WNot(o.v), 1)
    [] op = "RSB" -> AddC(WNot(rn), o.v, 1)
    [] op = "ADC" -> AddC(rn, o.v, c)
    [] op = "SBC" -> AddC(rn, WNot(o.v), c)
    [] op = "RSC" -> AddC(WNot(rn), o.v, c)

\* i = [k |-> "dp", op, d, n, S, o2]; n is ignored for MOV/MVN
ExecDP(x, i) ==
  LET o  == Operand2(x, i.o2)
      rn == IF i.op \in {"MOV", "MVN"} THEN Zero ELSE Rget(x.s, i.n)
      r  == DPCompute(i.op, rn, o, CFlag(x))
      fl(c0) == IF r[3] = 2 THEN SetNZC(c0, r[1], r[2]) ELSE SetNZCVr(c0, r[1], r[2], r[3])
  IN IF i.op \in TestOps THEN [x EXCEPT !.s.cpsr = fl(@)]
     ELSE IF i.d = 15 THEN ALUWritePC(x, r[1])
     ELSE LET x1 == RsetX(x, i.d, r[1]) IN IF i.S THEN [x1 EXCEPT !.s.cpsr = fl(@)] ELSE x1

\* ADR: Align(PC, 4) +/- imm32
ExecADR(x, i) ==
  LET r == IF i.add THEN Add(AlignPC4(x), i.imm) ELSE Sub(AlignPC4(x), i.imm)
  IN IF i.d = 15 THEN ALUWritePC(x, r) ELSE RsetX(x, i.d, r)

\* MOVW / MOVT
ExecMOVW(x, i) == RsetX(x, i.d, <<0, i.imm16>>)
ExecMOVT(x, i) == RsetX(x, i.d, <<i.imm16, Lo(Rget(x.s, i.d))>>)

-----------------------------------------------------------------------------
(* branches (A8.8.18 B, .25 BL/BLX imm, .26 BLX reg, .27 BX, .28 BXJ, .29 CBZ, TBB/TBH) *)
\* i.imm is the sign-extended offset as a word
ExecB(x, i) == BranchWritePC(x, Add(PCRead(x.s), i.imm))
\* BL/BLX immediate: i.toarm / i.tothumb = target instruction set
ExecBL(x, i) ==
  LET s  == x.s
      lr == IF IsARM(s.cpsr) THEN Sub(PCRead(s), <<0, 4>>) ELSE WOr(PCRead(s), <<0, 1>>)
      x1 == RsetX(x, 14, lr)
      base == IF i.tiset = "ARM" THEN AlignPC4(x) ELSE PCRead(s)
      tgt  == Add(base, i.imm)
  IN IF i.tiset = "ARM" THEN BranchWritePC(SelectARM(x1), tgt) ELSE BranchWritePC(SelectThumb(x1), tgt)
ExecBLXr(x, i) ==
  LET s   == x.s
      tgt == Rget(s, i.m)
      lr  == IF IsARM(s.cpsr) THEN Sub(PCRead(s), <<0, 4>>) ELSE WOr(Sub(PCRead(s), <<0, 2>>), <<0, 1>>)
  IN BXWritePC(RsetX(x, 14, lr), tgt)
ExecBX(x, i) == BXWritePC(x, Rget(x.s, i.m))
ExecCBZ(x, i) ==
  IF i.nonzero # IsZeroW(Rget(x.s, i.n)) THEN BranchWritePC(x, Add(PCRead(x.s), i.imm)) ELSE x
ExecTB(x, i) ==
  LET s == x.s
      a == IF i.half THEN Add(Rget(s, i.n), LSLw(Rget(s, i.m), 1)) ELSE Add(Rget(s, i.n), Rget(s, i.m))
      r == MemU(x, a, IF i.half THEN 2 ELSE 1)
  IN IF ~Ok(r.x) THEN r.x ELSE BranchWritePC(r.x, Add(PCRead(s), LSLw(r.v, 1)))

ExecIT(x, i) == [x EXCEPT !.s.cpsr = SetIT(@, i.fc * 16 + i.mask)]
=============================================================================
