--------------------------------- MODULE ISA ---------------------------------
(***************************************************************************)
(* Instruction "operation" pseudocode (ARM ARM A8), one operator per       *)
(* abstract instruction, acting on an execution context (XCtx).  A decoded *)
(* instruction is a record `i` with k = its family and the operands the    *)
(* encoding-specific pseudocode derives (Decode.tla).                      *)
(***************************************************************************)
EXTENDS Mem, PSR

-----------------------------------------------------------------------------
(* PC writes (A2.3.1) *)
BranchTo(x, a) == [x EXCEPT !.s.R.PC = a, !.br = TRUE]
SelectARM(x)   == [x EXCEPT !.s.cpsr = SetBitW(SetBitW(@, 24, 0), 5, 0)]
SelectThumb(x) == [x EXCEPT !.s.cpsr = SetBitW(SetBitW(@, 24, 0), 5, 1)]
BranchWritePC(x, a) ==
  IF IsARM(x.s.cpsr)
  THEN BranchTo(UnpredIf(x, x.s.cfg.arch < 6 /\ Slice(a, 1, 0) # 0), WAnd(a, <<MM, MM - 3>>))
  ELSE IF ISet(x.s.cpsr) = 2 THEN BranchTo(x, WAnd(a, <<MM, MM - 3>>))      \* Jazelle state, JazelleAcceptsExecution() = FALSE
  ELSE BranchTo(x, WAnd(a, <<MM, MM - 1>>))
BXWritePC(x, a) ==
  IF Bit(a, 0) = 1 THEN BranchTo(SelectThumb(x), WAnd(a, <<MM, MM - 1>>))
  ELSE IF Bit(a, 1) = 0 THEN BranchTo(SelectARM(x), a)
  ELSE Unpred(x)
ALUWritePC(x, a)  == IF x.s.cfg.arch >= 7 /\ IsARM(x.s.cpsr) THEN BXWritePC(x, a) ELSE BranchWritePC(x, a)
LoadWritePC(x, a) == IF x.s.cfg.arch >= 5 THEN BXWritePC(x, a) ELSE BranchWritePC(x, a)

RsetX(x, n, v) == [x EXCEPT !.s = Rset(@, n, v)]
CFlag(x) == PC_(x.s.cpsr)
SetNZ(c, r)        == SetBitW(SetBitW(c, 31, TopBit(r)), 30, IF IsZeroW(r) THEN 1 ELSE 0)
SetNZC(c, r, cy)   == SetBitW(SetNZ(c, r), 29, cy)
SetNZCVr(c, r, cy, v) == SetBitW(SetNZC(c, r, cy), 28, v)
AlignPC4(x) == WAnd(PCRead(x.s), <<MM, MM - 3>>)

-----------------------------------------------------------------------------
(* flexible second operand -> [v, c] *)
Operand2(x, o2) ==
  LET c == CFlag(x) IN
  CASE o2.t = "imm"  -> [v |-> o2.v, c |-> c]
    [] o2.t = "aimm" -> LET r == ARMExpandImm_C(o2.imm12, c) IN [v |-> r[1], c |-> r[2]]
    [] o2.t = "timm" -> LET r == ThumbExpandImm_C(o2.imm12, c) IN [v |-> r[1], c |-> r[2]]
    [] o2.t = "reg"  -> LET r == Shift_C(Rget(x.s, o2.m), o2.st, o2.sn, c) IN [v |-> r[1], c |-> r[2]]
    [] o2.t = "rsr"  -> LET r == Shift_C(Rget(x.s, o2.m), o2.st, Lo(Rget(x.s, o2.rs)) % 256, c)
                        IN [v |-> r[1], c |-> r[2]]

TestOps    == {"TST", "TEQ", "CMP", "CMN"}
LogicalOps == {"AND", "EOR", "ORR", "BIC", "MOV", "MVN", "ORN", "TST", "TEQ"}

\* <<result, carry, overflow>>; overflow = 2 means "V unchanged"
DPCompute(op, rn, o, c) ==
  CASE op \in {"AND", "TST"} -> <<WAnd(rn, o.v), o.c, 2>>
    [] op \in {"EOR", "TEQ"} -> <<WXor(rn, o.v), o.c, 2>>
    [] op = "ORR" -> <<WOr(rn, o.v), o.c, 2>>
    [] op = "BIC" -> <<WAnd(rn, WNot(o.v)), o.c, 2>>
    [] op = "ORN" -> <<WOr(rn, WNot(o.v)), o.c, 2>>
    [] op = "MOV" -> <<o.v, o.c, 2>>
    [] op = "MVN" -> <<WNot(o.v), o.c, 2>>
    [] op \in {"ADD", "CMN"} -> AddC(rn, o.v, 0)
    [] op \in {"SUB", "CMP"} -> AddC(rn, WNot(o.v), 1)
    [] op = "RSB" -> AddC(WNot(rn), o.v, 1)
    [] op = "ADC" -> AddC(rn, o.v, c)
    [] op = "SBC" -> AddC(rn, WNot(o.v), c)
    [] op = "RSC" -> AddC(WNot(rn), o.v, c)

\* i = [k |-> "dp", op, d, n, S, o2]; n is ignored for MOV/MVN
ExecDP(x, i) ==
  LET o  == Operand2(x, i.o2)
      rn == IF i.op \in {"MOV", "MVN"} THEN Zero ELSE Rget(x.s, i.n)
      r  == DPCompute(i.op, rn, o, CFlag(x))
      fl(c0) == IF r[3] = 2 THEN SetNZC(c0, r[1], r[2]) ELSE SetNZCVr(c0, r[1], r[2], r[3])
  IN IF i.op \in TestOps THEN [x EXCEPT !.s.cpsr = fl(@)]
     ELSE IF i.d = 15 THEN ALUWritePC(x, r[1])
     ELSE LET x1 == RsetX(x, i.d, r[1]) IN IF i.S THEN [x1 EXCEPT !.s.cpsr = fl(@)] ELSE x1

\* ADR: Align(PC, 4) +/- imm32
ExecADR(x, i) ==
  LET r == IF i.add THEN Add(AlignPC4(x), i.imm) ELSE Sub(AlignPC4(x), i.imm)
  IN IF i.d = 15 THEN ALUWritePC(x, r) ELSE RsetX(x, i.d, r)

\* MOVW / MOVT
ExecMOVW(x, i) == RsetX(x, i.d, <<0, i.imm16>>)
ExecMOVT(x, i) == RsetX(x, i.d, <<i.imm16, Lo(Rget(x.s, i.d))>>)

-----------------------------------------------------------------------------
(* branches (A8.8.18 B, .25 BL/BLX imm, .26 BLX reg, .27 BX, .28 BXJ, .29 CBZ, TBB/TBH) *)
\* i.imm is the sign-extended offset as a word
ExecB(x, i) == BranchWritePC(x, Add(PCRead(x.s), i.imm))
\* BL/BLX immediate: i.toarm / i.tothumb = target instruction set
ExecBL(x, i) ==
  LET s  == x.s
      lr == IF IsARM(s.cpsr) THEN Sub(PCRead(s), <<0, 4>>) ELSE WOr(PCRead(s), <<0, 1>>)
      x1 == RsetX(x, 14, lr)
      base == IF i.tiset = "ARM" THEN AlignPC4(x) ELSE PCRead(s)
      tgt  == Add(base, i.imm)
  IN IF i.tiset = "ARM" THEN BranchWritePC(SelectARM(x1), tgt) ELSE BranchWritePC(SelectThumb(x1), tgt)
ExecBLXr(x, i) ==
  LET s   == x.s
      tgt == Rget(s, i.m)
      lr  == IF IsARM(s.cpsr) THEN Sub(PCRead(s), <<0, 4>>) ELSE WOr(Sub(PCRead(s), <<0, 2>>), <<0, 1>>)
  IN BXWritePC(RsetX(x, 14, lr), tgt)
ExecBX(x, i) == BXWritePC(x, Rget(x.s, i.m))
\* BXJ with a trivial Jazelle implementation (JMCR.JE = 0): behaves as BX; JE = 1 reaches the SUBARCHITECTURE DEFINED handler
\* the emulator does not implement; the HSTR.TJDBX trap of the Virtualization Extensions is not specified
ExecBXJ(x, i) ==
  LET s == x.s  jmcr == IF "JMCR" \in DOMAIN s.sys THEN s.sys.JMCR ELSE Zero IN
  IF s.cfg.virt /\ (~IsSecure(s)) /\ Mode(s) # HYP THEN Unpred(NotImpl(x, "bxj-hstr-trap"))
  ELSE IF Bit(jmcr, 0) = 0 THEN BXWritePC(x, Rget(s, i.m))
  ELSE NotImpl(x, "jazelle")
ExecCBZ(x, i) ==
  IF i.nonzero # IsZeroW(Rget(x.s, i.n)) THEN BranchWritePC(x, Add(PCRead(x.s), i.imm)) ELSE x
ExecTB(x, i) ==
  LET s == x.s
      a == IF i.half THEN Add(Rget(s, i.n), LSLw(Rget(s, i.m), 1)) ELSE Add(Rget(s, i.n), Rget(s, i.m))
      r == MemU(x, a, IF i.half THEN 2 ELSE 1)
  IN IF ~Ok(r.x) THEN r.x ELSE BranchWritePC(r.x, Add(PCRead(s), LSLw(r.v, 1)))


-----------------------------------------------------------------------------
(* single-register loads and stores (A8.8.62.. LDR/STR families)             *)
(* i = [k |-> "ls", load, size, signed, t, n, index, add, wback, off, unpriv, lit] *)
(* off = [t |-> "imm", v |-> word] or [t |-> "reg", m, st, sn]               *)
UnalignedSupport(s) == s.cfg.arch >= 7 \/ SCTLR_U(s) = 1
\* PCStoreValue(): the value stored for R15 -- this specification takes the common choice PC (= address + 8 / + 4)
PCStoreValue(s) == PCRead(s)
LSOffset(x, off) ==
  IF off.t = "imm" THEN off.v ELSE ShiftW(Rget(x.s, off.m), off.st, off.sn, CFlag(x))
ExtendLoaded(v, size, signed) ==
  IF ~signed THEN v
  ELSE IF size = 1 THEN SignExtW(v, 8) ELSE IF size = 2 THEN SignExtW(v, 16) ELSE v
ExecLS(x, i) ==
  LET s       == x.s
      base    == IF i.lit THEN AlignPC4(x) ELSE Rget(s, i.n)
      off     == LSOffset(x, i.off)
      offaddr == IF i.add THEN Add(base, off) ELSE Sub(base, off)
      addr    == IF i.index THEN offaddr ELSE base
      lo2     == Slice(addr, 1, 0)
      \* before ARMv7 without SCTLR.U: an access that is not naturally aligned yields UNKNOWN data
      legacyUnk == (~UnalignedSupport(s)) /\ ((i.size = 4 /\ lo2 # 0) \/ (i.size = 2 /\ lo2 % 2 = 1))
  IN IF i.load
     THEN LET r  == IF i.unpriv THEN MemU_unpriv(x, addr, i.size) ELSE MemU(x, addr, i.size)
              x1 == r.x
          IN IF ~Ok(x1) THEN x1
             ELSE LET x2   == IF i.wback THEN RsetX(x1, i.n, offaddr) ELSE x1
                      data == ExtendLoaded(r.v, i.size, i.signed)
                      unkT == [x2 EXCEPT !.dcR = @ \cup {LookUpRName(i.t, Mode(s))}]
                  IN IF i.size = 4
                     THEN IF i.t = 15 THEN (IF lo2 = 0 THEN LoadWritePC(x2, data) ELSE Unpred(x2))
                          ELSE IF ~legacyUnk THEN RsetX(x2, i.t, data)
                          \* POP {Rt} (encoding A2 = LDR Rt,[SP],#4) has its own pseudocode without the rotation: either value
                          ELSE IF IsARM(s.cpsr) /\ i.enc = "LDR_i_A1" /\ i.n = 13 /\ ~i.index /\ i.add /\ i.off.v = <<0, 4>> THEN unkT
                          ELSE IF IsARM(s.cpsr) THEN RsetX(x2, i.t, RORw(data, 8 * lo2))
                          ELSE unkT
                     ELSE IF legacyUnk THEN unkT ELSE RsetX(x2, i.t, data)
     ELSE LET val == IF i.t = 15 THEN PCStoreValue(s) ELSE Rget(s, i.t)
              x1  == IF i.unpriv THEN MemUSet_unpriv(x, addr, i.size, val) ELSE MemUSet(x, addr, i.size, val)
              \* the cells just written hold UNKNOWN data in the legacy unaligned case
              x1u == IF legacyUnk /\ Ok(x1)
                     THEN [x1 EXCEPT !.dcM = @ \cup {<<x1.s.mem.w[k][1], x1.s.mem.w[k][2]>> : k \in (Len(x.s.mem.w) + 1)..Len(x1.s.mem.w)}]
                     ELSE x1
          IN IF ~Ok(x1u) THEN x1u
             ELSE IF i.wback THEN RsetX(x1u, i.n, offaddr) ELSE x1u

\* LDRD / STRD:  i = [k |-> "lsd", load, t, t2, n, index, add, wback, off, lit]
ExecLSD(x, i) ==
  LET s       == x.s
      base    == IF i.lit THEN AlignPC4(x) ELSE Rget(s, i.n)
      off     == LSOffset(x, i.off)
      offaddr == IF i.add THEN Add(base, off) ELSE Sub(base, off)
      addr    == IF i.index THEN offaddr ELSE base
  IN IF i.load
     THEN LET r1 == MemA(x, addr, 4)
              r2 == MemA(r1.x, AddInt(addr, 4), 4)
          IN IF ~Ok(r2.x) THEN [r2.x EXCEPT !.dcR = @ \cup (IF Ok(r1.x) THEN {LookUpRName(i.t, Mode(s))} ELSE {})]
             ELSE LET x3 == RsetX(RsetX(r2.x, i.t, r1.v), i.t2, r2.v)
                  IN IF i.wback THEN RsetX(x3, i.n, offaddr) ELSE x3
     ELSE LET x1 == MemASet(x, addr, 4, Rget(s, i.t))
              x2 == MemASet(x1, AddInt(addr, 4), 4, Rget(s, i.t2))
          IN IF ~Ok(x2) THEN x2
             ELSE IF i.wback THEN RsetX(x2, i.n, offaddr) ELSE x2

-----------------------------------------------------------------------------
(* block transfers (A8.8.57.. LDM*/STM*, PUSH, POP) *)
(* i = [k |-> "ldm"/"stm", n, regs, wback, am]   am in {"IA","IB","DA","DB"}, regs = 16-bit mask *)
RegBit(regs, r) == (regs \div 2^r) % 2
RegCount(regs)  == PopCnt(regs)
LowestReg(regs) == LimbLowest(regs)
StartAddr(base, am, cnt) ==
  CASE am = "IA" -> base
    [] am = "IB" -> AddInt(base, 4)
    [] am = "DA" -> AddInt(base, 4 - 4 * cnt)
    [] am = "DB" -> AddInt(base, -(4 * cnt))
FinalBase(base, am, cnt) == IF am \in {"IA", "IB"} THEN AddInt(base, 4 * cnt) ELSE AddInt(base, -(4 * cnt))

\* load registers r..14 from consecutive words; usermode selects the User bank (LDM (user registers))
RECURSIVE LdmLoop(_, _, _, _, _)
LdmLoop(x, regs, r, addr, bankmode) ==
  IF r > 14 \/ ~Ok(x) THEN [x |-> x, addr |-> addr]
  ELSE IF RegBit(regs, r) = 0 THEN LdmLoop(x, regs, r + 1, addr, bankmode)
  ELSE LET m == MemA(x, addr, 4) IN
       IF ~Ok(m.x)
       THEN \* registers already loaded before the abort are UNKNOWN (B1.9.8); the base is not written back
            [x |-> [m.x EXCEPT !.dcR = @ \cup {LookUpRName(q, bankmode) : q \in {q \in 0..(r - 1) : RegBit(regs, q) = 1}}],
             addr |-> addr]
       ELSE LdmLoop([m.x EXCEPT !.s = SetRmode(@, r, bankmode, m.v)], regs, r + 1, AddInt(addr, 4), bankmode)
ExecLDM(x, i) ==
  LET s    == x.s
      cnt  == RegCount(i.regs)
      base == Rget(s, i.n)
      l    == LdmLoop(x, i.regs, 0, StartAddr(base, i.am, cnt), Mode(s))
  IN IF ~Ok(l.x) THEN l.x
     ELSE LET pcr == IF RegBit(i.regs, 15) = 1 THEN MemA(l.x, l.addr, 4) ELSE [x |-> l.x, v |-> Zero]
          IN IF ~Ok(pcr.x)
             THEN [pcr.x EXCEPT !.dcR = @ \cup {LookUpRName(q, Mode(s)) : q \in {q \in 0..14 : RegBit(i.regs, q) = 1}}]
             ELSE LET x1 == IF RegBit(i.regs, 15) = 1 THEN LoadWritePC(pcr.x, pcr.v) ELSE pcr.x
                      inlist == RegBit(i.regs, i.n) = 1
                  IN IF i.wback /\ ~inlist THEN RsetX(x1, i.n, FinalBase(base, i.am, cnt))
                     ELSE IF i.wback /\ inlist THEN [x1 EXCEPT !.dcR = @ \cup {LookUpRName(i.n, Mode(s))}]
                     ELSE x1

RECURSIVE StmLoop(_, _, _, _, _, _)
StmLoop(x, i, r, addr, s0, bankmode) ==
  IF r > 15 \/ ~Ok(x) THEN x
  ELSE IF RegBit(i.regs, r) = 0 THEN StmLoop(x, i, r + 1, addr, s0, bankmode)
  ELSE LET val == IF r = 15 THEN PCStoreValue(s0) ELSE Rmode(s0, r, bankmode)
           unk == r = i.n /\ i.wback /\ r # LowestReg(i.regs)        \* stored base value is UNKNOWN
           x1  == MemASet(x, addr, 4, val)
           x2  == IF unk /\ Ok(x1) THEN [x1 EXCEPT !.dcM = @ \cup {<<x1.s.mem.w[Len(x1.s.mem.w) - k][1],
                                                                    x1.s.mem.w[Len(x1.s.mem.w) - k][2]>> :
                                                                   k \in 0..(Len(x1.s.mem.w) - Len(x.s.mem.w) - 1)}]
                  ELSE x1
       IN StmLoop(x2, i, r + 1, AddInt(addr, 4), s0, bankmode)
ExecSTM(x, i) ==
  LET s    == x.s
      cnt  == RegCount(i.regs)
      base == Rget(s, i.n)
      x1   == StmLoop(x, i, 0, StartAddr(base, i.am, cnt), s, Mode(s))
  IN IF ~Ok(x1) THEN x1
     ELSE IF i.wback THEN RsetX(x1, i.n, FinalBase(base, i.am, cnt)) ELSE x1

-----------------------------------------------------------------------------
(* system instructions (MSR, MRS, CPS, SETEND, hints, exception returns, SRS/RFE, SVC/SMC) *)
\* i = [k |-> "msr", spsr, mask, src = [t |-> "aimm", imm12] | [t |-> "reg", n]]
ExecMSR(x, i) ==
  LET s == x.s
      v == IF i.src.t = "reg" THEN Rget(s, i.src.n) ELSE ARMExpandImm(i.src.imm12)
  IN IF i.spsr THEN LET r == SPSRWriteByInstr(s, v, i.mask) IN UnpredIf(WithS(x, r.s), r.unp)
     ELSE LET r == CPSRWriteByInstr(s, v, i.mask, FALSE)
          IN UnpredIf(WithS(x, r.s), r.unp \/ (PM(r.s.cpsr) = HYP /\ PJ(r.s.cpsr) = 1 /\ PT(r.s.cpsr) = 1))
\* MRS: CPSR AND 0xF8FF03DF; in User mode the non-APSR bits are UNKNOWN
ExecMRS(x, i) ==
  LET s == x.s IN
  IF i.spsr THEN (IF CurrentModeIsUserOrSystem(s) THEN Unpred(x) ELSE RsetX(x, i.d, SPSRget(s)))
  ELSE LET x1 == RsetX(x, i.d, WAnd(s.cpsr, <<63743, 991>>))
       IN IF Mode(s) = USR THEN [x1 EXCEPT !.dcR = @ \cup {LookUpRName(i.d, USR)}] ELSE x1
\* CPS: i = [enable, disable, a, i_, f, changemode, mode]
ExecCPS(x, i) ==
  LET s == x.s IN
  IF ~CurrentModeIsNotUser(s) THEN x
  ELSE LET c0 == s.cpsr
           setb(c, bit, sel) == IF sel THEN (IF i.enable THEN SetBitW(c, bit, 0) ELSE IF i.disable THEN SetBitW(c, bit, 1) ELSE c) ELSE c
           c1 == setb(setb(setb(c0, 8, i.a), 7, i.i_), 6, i.f)
           c2 == IF i.changemode THEN SetM(c1, i.mode) ELSE c1
           r  == CPSRWriteByInstr(s, c2, 15, FALSE)
       IN UnpredIf(WithS(x, r.s), r.unp)
ExecSETEND(x, i) == [x EXCEPT !.s.cpsr = SetBitW(@, 9, i.e)]
\* hints: NOP, WFE, WFI change only the event / wait state; YIELD, SEV, DBG are mock hooks in the emulator
ExecHint(x, i) ==
  LET s == x.s  trapNS == s.cfg.virt /\ (~IsSecure(s)) /\ Mode(s) # HYP IN
  CASE i.h = "NOP" -> x
    [] i.h = "WFE" -> IF s.ev.evreg = 1 THEN [x EXCEPT !.s.ev.evreg = 0]
                      ELSE IF trapNS /\ Bit(s.sys.HCR, 14) = 1 THEN Raise(x, "hyptrap")          \* HCR.TWE
                      ELSE [x EXCEPT !.s.ev.wfe = 1]
    [] i.h = "WFI" -> IF trapNS /\ Bit(s.sys.HCR, 13) = 1 THEN Raise(x, "hyptrap")               \* HCR.TWI
                      ELSE [x EXCEPT !.s.ev.wfi = 1]
    [] i.h = "YIELD" -> NotImpl(x, "hint_yield")
    [] i.h = "SEV" -> NotImpl(x, "send_event")
    [] OTHER -> NotImpl(x, "hint:" \o i.h)

\* exception return by data-processing instruction (SUBS PC, LR and related): i = [op, n, o2, thumb]
ExcReturnTail(x, target, newcpsr) ==
  LET r == CPSRWriteByInstr(x.s, newcpsr, 15, TRUE)
      x1 == UnpredIf(WithS(x, r.s), r.unp \/ (PM(r.s.cpsr) = HYP /\ PJ(r.s.cpsr) = 1 /\ PT(r.s.cpsr) = 1))
  IN BranchWritePC(x1, target)
ExecExcRetDP(x, i) ==
  LET s == x.s IN
  IF Mode(s) = HYP THEN (IF i.eret THEN ExcReturnTail(x, s.elr, SPSRget(s)) ELSE Raise(x, "undef"))
  ELSE IF CurrentModeIsUserOrSystem(s) THEN Unpred(x)
  ELSE LET o  == Operand2(x, i.o2)
           rn == IF i.op \in {"MOV", "MVN"} THEN Zero ELSE Rget(s, i.n)
           r  == DPCompute(i.op, rn, o, CFlag(x))
       IN ExcReturnTail(x, r[1], SPSRget(s))
\* RFE: i = [n, inc, wordhigher, wback]
ExecRFE(x, i) ==
  LET s == x.s IN
  IF Mode(s) = HYP THEN Raise(x, "undef")
  ELSE IF ~CurrentModeIsNotUser(s) THEN Unpred(x)
  ELSE LET base == Rget(s, i.n)
           a0 == IF i.inc THEN base ELSE AddInt(base, -8)
           a  == IF i.wordhigher THEN AddInt(a0, 4) ELSE a0
           r1 == MemA(x, a, 4)
           r2 == MemA(r1.x, AddInt(a, 4), 4)
       IN IF ~Ok(r2.x) THEN r2.x
          ELSE LET x1 == IF i.wback THEN RsetX(r2.x, i.n, IF i.inc THEN AddInt(base, 8) ELSE AddInt(base, -8)) ELSE r2.x
               IN ExcReturnTail(x1, r1.v, r2.v)
\* SRS: store LR and SPSR of the current mode on the stack of mode i.mode
ExecSRS(x, i) ==
  LET s == x.s IN
  IF Mode(s) = HYP THEN Raise(x, "undef")
  ELSE IF CurrentModeIsUserOrSystem(s) \/ BadMode(s.cfg, i.mode) \/ i.mode = HYP \/
          (i.mode = MON /\ ~IsSecure(s)) \/ (i.mode = FIQ /\ (~IsSecure(s)) /\ NSACR_RFR(s) = 1)
       THEN Unpred(x)
  ELSE LET base == Rmode(s, 13, i.mode)
           a0 == IF i.inc THEN base ELSE AddInt(base, -8)
           a  == IF i.wordhigher THEN AddInt(a0, 4) ELSE a0
           x1 == MemASet(x, a, 4, Rget(s, 14))
           x2 == MemASet(x1, AddInt(a, 4), 4, SPSRget(s))
       IN IF ~Ok(x2) THEN x2
          ELSE IF i.wback THEN [x2 EXCEPT !.s = SetRmode(@, 13, i.mode, IF i.inc THEN AddInt(base, 8) ELSE AddInt(base, -8))]
          ELSE x2
\* LDM (exception return) and LDM / STM (user registers): i = [n, regs, wback, am, kind]
ExecLDMx(x, i) ==
  LET s == x.s  cnt == RegCount(i.regs)  base == Rget(s, i.n) IN
  IF Mode(s) = HYP THEN Raise(x, "undef")
  ELSE IF CurrentModeIsUserOrSystem(s) THEN Unpred(x)
  ELSE IF i.kind = "user"
       THEN LdmLoop(x, i.regs, 0, StartAddr(base, i.am, cnt), USR).x
       ELSE LET cnt1 == cnt + 1                                  \* i.regs holds R0-R14; the PC is transferred as well
                l == LdmLoop(x, i.regs, 0, StartAddr(base, i.am, cnt1), Mode(s))
            IN IF ~Ok(l.x) THEN l.x
               ELSE LET pcr == MemA(l.x, l.addr, 4) IN
                    IF ~Ok(pcr.x) THEN pcr.x
                    ELSE LET inlist == RegBit(i.regs, i.n) = 1
                             x1 == IF i.wback /\ ~inlist THEN RsetX(pcr.x, i.n, FinalBase(base, i.am, cnt1))
                                   ELSE IF i.wback /\ inlist THEN [pcr.x EXCEPT !.dcR = @ \cup {LookUpRName(i.n, Mode(s))}]
                                   ELSE pcr.x
                         IN ExcReturnTail(x1, pcr.v, SPSRget(s))
ExecSTMuser(x, i) ==
  LET s == x.s  cnt == RegCount(i.regs)  base == Rget(s, i.n) IN
  IF Mode(s) = HYP THEN Raise(x, "undef")
  ELSE IF CurrentModeIsUserOrSystem(s) THEN Unpred(x)
  ELSE StmLoop(x, [i EXCEPT !.wback = FALSE], 0, StartAddr(base, i.am, cnt), s, USR)
\* SMC
ExecSMC(x, i) ==
  LET s == x.s IN
  IF s.cfg.sec /\ CurrentModeIsNotUser(s)
  THEN IF s.cfg.virt /\ (~IsSecure(s)) /\ Mode(s) # HYP /\ Bit(s.sys.HCR, 19) = 1 THEN Raise(x, "hyptrap")   \* HCR.TSC
       ELSE IF Bit(s.sys.SCR, 7) = 1 THEN (IF IsSecure(s) THEN Unpred(x) ELSE Raise(x, "undef"))   \* SCR.SCD
       ELSE Raise(x, "smc")
  ELSE Raise(x, "undef")

ExecIT(x, i) == [x EXCEPT !.s.cpsr = SetIT(@, i.fc * 16 + i.mask)]
-----------------------------------------------------------------------------
(* generic coprocessor instructions (CDP, MCR, MRC, MCRR, MRRC, LDC, STC and their "2" forms), B1.? Coproc_Accepted: *)
(* UNDEFINED when NSACR.cp<n> denies Non-secure use or CPACR.cp<n> denies the current privilege; CPACR.cp<n> = '10'  *)
(* is UNPREDICTABLE; an accepted instruction reaches the emulator's (documented, unimplemented) coprocessor hooks.   *)
(* With the Virtualization Extensions, HCPTR.TCP<n> traps the access to Hyp mode (UNDEFINED from Hyp mode itself).    *)
CPACRcp(s, cp) == Slice(s.sys.CPACR, 2 * cp + 1, 2 * cp)
\* CP14 / CP15 (B1.? Coproc_Accepted, cases 14 and 15): which instruction forms exist in these spaces at all
\* (everything else is UNDEFINED), then the emulator's documented not-implemented decode hooks.  The "2" forms
\* (cond = 1111 / Thumb T2) do not exist here.  HSTR.Tn traps of CP15 accesses are specified; HCR.TIDCP, HSTR.TTEE and the User-mode
\* rules for the ThumbEE registers (opc1 = 6: I do not vouch for the TEECR / TEEHBR selector bit from memory) are
\* not specified: envelope only.
ExecCPSys(x, i) ==
  LET s == x.s  w == i.w
      uncond == Slice(w, 31, 28) = 15
      mcrmrc == Slice(w, 27, 24) = 14 /\ Bit(w, 4) = 1 /\ ~uncond
      virtNS == s.cfg.sec /\ s.cfg.virt /\ (~IsSecure(s)) /\ Mode(s) # HYP
  IN IF i.cp = 15 THEN
       LET tworeg == Slice(w, 27, 21) = 98 /\ ~uncond                         \* MCRR / MRRC
           crn    == IF tworeg THEN Slice(w, 3, 0) ELSE Slice(w, 19, 16)
       IN IF (~mcrmrc) /\ ~tworeg THEN Raise(x, "undef")
          ELSE IF crn = 4 THEN Unpred(NotImpl(x, "cp15-crn4"))                   \* c4 is unallocated: UNPREDICTABLE
          \* HSTR.T<CRn> (CRn /= 14): Non-secure PL1 accesses to the CP15 primary register number CRn (CRm for MCRR / MRRC)
          \* are trapped to Hyp mode; at PL0 the emulator first asks its unimplemented hook instr_is_pl0_undefined()
          ELSE IF virtNS /\ crn # 14 /\ Bit(s.sys.HSTR, crn) = 1
               THEN (IF Mode(s) = USR THEN NotImpl(x, "instr_is_pl0_undefined") ELSE Raise(x, "hyptrap"))
          ELSE IF virtNS /\ Bit(s.sys.HCR, 20) = 1 /\ ~tworeg THEN Unpred(NotImpl(x, "cp15-hcr-tidcp"))   \* TIDCP: not specified
          ELSE NotImpl(x, "cp15_instr_decode")
     ELSE
       LET mrrc   == Slice(w, 27, 20) = 197 /\ ~uncond                        \* MRRC only: there is no MCRR to CP14
           ldcstc == Slice(w, 27, 25) = 6 /\ ~uncond
           opc1   == IF mcrmrc THEN Slice(w, 23, 21) ELSE IF mrrc THEN Slice(w, 7, 4) ELSE 0
       IN IF ~(mcrmrc \/ mrrc \/ ldcstc) THEN Raise(x, "undef")
          ELSE IF mrrc /\ opc1 # 0 THEN Raise(x, "undef")
          ELSE IF (~mcrmrc) /\ (~mrrc) /\ Slice(w, 15, 12) # 5 THEN Raise(x, "undef")    \* LDC / STC: only CRd = c5 (DBGDTRRXint / TXint)
          ELSE CASE opc1 = 0 -> NotImpl(x, "cp14_debug_instr_decode")
                 [] opc1 = 1 -> NotImpl(x, "cp14_trace_instr_decode")
                 [] opc1 = 7 -> NotImpl(x, "cp14_jazelle_instr_decode")
                 [] opc1 = 6 -> IF Slice(w, 7, 5) # 0 \/ Slice(w, 3, 1) # 0 \/ Slice(w, 15, 12) = 15 \/ Mode(s) = USR \/ virtNS
                                THEN Unpred(NotImpl(x, "cp14-thumbee"))
                                ELSE NotImpl(x, "coproc")                     \* accepted; the transfer itself is a hook
                 [] OTHER -> Raise(x, "undef")

ExecCoproc(x, i) ==
  IF i.cp \in {14, 15} THEN ExecCPSys(x, i) ELSE
  LET s == x.s
      nsdeny == s.cfg.sec /\ (~IsSecure(s)) /\ Bit(s.sys.NSACR, i.cp) = 0
      viahyp == s.cfg.virt /\ Mode(s) = HYP
      acc    == CPACRcp(s, i.cp)
  IN IF nsdeny THEN Raise(x, "undef")
     ELSE IF (~viahyp) /\ (acc = 0 \/ (acc = 1 /\ Mode(s) = USR)) THEN Raise(x, "undef")
     ELSE IF (~viahyp) /\ acc = 2 THEN Unpred(x)
     \* HCPTR.TCP<n> (Virtualization Extensions, Non-secure): the access is trapped to Hyp mode; from Hyp mode itself it is
     \* UNDEFINED.  (HSR syndrome: don't-care, see StepF.)
     ELSE IF s.cfg.sec /\ s.cfg.virt /\ (~IsSecure(s)) /\ Bit(s.sys.HCPTR, i.cp) = 1
          THEN (IF Mode(s) = HYP THEN Raise(x, "undef") ELSE Raise(x, "hyptrap"))
     ELSE NotImpl(x, IF i.memop THEN "coproc-mem" ELSE "coproc")
-----------------------------------------------------------------------------
(* exclusive loads and stores (A8.8.75-78, .212-215; B2.4.6 SetExclusiveMonitors / ExclusiveMonitorsPass).         *)
(* Named deviation `MonitorStub`: the emulator's local and global monitors are stubs that never report an          *)
(* exclusive access as passed, so a store-exclusive performs its alignment and translation checks, stores nothing  *)
(* and returns status 1.  (Architecturally a store-exclusive may always fail; what is not modelled is success.)     *)
ExecLDREX(x, i) ==
  LET s == x.s  addr == Add(Rget(s, i.n), i.imm) IN
  IF i.size = 8 /\ Slice(addr, 2, 0) # 0 THEN AlignmentFault(x, addr, FALSE)
  ELSE LET t0 == Translate(x, addr, Priv(s), FALSE, i.size, TRUE) IN          \* SetExclusiveMonitors
       IF ~Ok(t0.x) THEN t0.x
       ELSE LET r == MemARead(t0.x, addr, i.size, Priv(s), TRUE) IN
            IF ~Ok(r.x) THEN r.x
            ELSE IF i.size = 8
                 THEN LET lo == BytesToWord(SubSeq(r.v, 1, 4))  hi == BytesToWord(SubSeq(r.v, 5, 8))
                      IN IF PE(s.cpsr) = 1 THEN RsetX(RsetX(r.x, i.t, hi), i.t2, lo)
                         ELSE RsetX(RsetX(r.x, i.t, lo), i.t2, hi)
                 ELSE RsetX(r.x, i.t, BytesToWord(r.v))
ExecSTREX(x, i) ==
  LET s == x.s  addr == Add(Rget(s, i.n), i.imm) IN
  IF ~IsAligned(addr, i.size) THEN AlignmentFault(x, addr, TRUE)               \* ExclusiveMonitorsPass
  ELSE LET t0 == Translate(x, addr, Priv(s), TRUE, i.size, TRUE) IN
       IF ~Ok(t0.x) THEN t0.x ELSE RsetX(t0.x, i.d, <<0, 1>>)
=============================================================================
