--------------------------------- MODULE Arm ---------------------------------
(***************************************************************************)
(* One step of the processor: fetch, decode, condition check, execute,     *)
(* IT advance, PC advance, synchronous exception entry.  `StepF(s, act)`   *)
(* is the functional form used by trace validation and replay;             *)
(* the MC instances wrap it in actions.  Result:                           *)
(*   [s      |-> post-state,                                               *)
(*    out    |-> "completed" | "undef" | "svc" | "smc" | "dabort" |        *)
(*               "hyptrap" | "notimpl:<hook>",                             *)
(*    exact  |-> TRUE iff the architecture fully determines the post-state *)
(*               (specified encoding, no UNPREDICTABLE met) modulo dc*,    *)
(*    path   |-> label of the specification disjunct that judged the step, *)
(*    dcR, dcM, dcS, dcC, dcD |-> UNKNOWN components,                      *)
(*    cond   |-> [known, passed] whether the condition is determined ]     *)
(***************************************************************************)
EXTENDS Media, Decode

Exec(x, i) ==
  CASE i.k = "dp"   -> ExecDP(x, i)
    [] i.k = "adr"  -> ExecADR(x, i)
    [] i.k = "movw" -> ExecMOVW(x, i)
    [] i.k = "movt" -> ExecMOVT(x, i)
    [] i.k = "b"    -> ExecB(x, i)
    [] i.k = "bl"   -> ExecBL(x, i)
    [] i.k = "blxr" -> ExecBLXr(x, i)
    [] i.k = "bx"   -> ExecBX(x, i)
    [] i.k = "bxj"  -> ExecBXJ(x, i)
    [] i.k = "cbz"  -> ExecCBZ(x, i)
    [] i.k = "it"   -> ExecIT(x, i)
    [] i.k = "tb"   -> ExecTB(x, i)
    [] i.k = "msr"  -> ExecMSR(x, i)
    [] i.k = "mrs"  -> ExecMRS(x, i)
    [] i.k = "cps"  -> ExecCPS(x, i)
    [] i.k = "setend" -> ExecSETEND(x, i)
    [] i.k = "hint" -> ExecHint(x, i)
    [] i.k = "excret" -> ExecExcRetDP(x, i)
    [] i.k = "rfe"  -> ExecRFE(x, i)
    [] i.k = "srs"  -> ExecSRS(x, i)
    [] i.k = "ldmx" -> ExecLDMx(x, i)
    [] i.k = "stmu" -> ExecSTMuser(x, i)
    [] i.k = "smc"  -> ExecSMC(x, i)
    [] i.k = "mul"  -> ExecMul(x, i)
    [] i.k = "hmul" -> ExecHMul(x, i)
    [] i.k = "div"  -> ExecDiv(x, i)
    [] i.k = "qarith" -> ExecQArith(x, i)
    [] i.k = "sat"  -> ExecSat(x, i)
    [] i.k = "par"  -> ExecParallel(x, i)
    [] i.k = "misc" -> ExecMisc(x, i)
    [] i.k = "ls"   -> ExecLS(x, i)
    [] i.k = "lsd"  -> ExecLSD(x, i)
    [] i.k = "ldm"  -> ExecLDM(x, i)
    [] i.k = "stm"  -> ExecSTM(x, i)
    [] i.k = "coproc" -> ExecCoproc(x, i)
    [] i.k = "ldrex" -> ExecLDREX(x, i)
    [] i.k = "strex" -> ExecSTREX(x, i)
    [] i.k = "udf"  -> Raise(x, "undef")
    [] i.k = "svc"  -> Raise(x, "svc")
    [] OTHER -> NotImpl(x, "spec-missing:" \o i.k)
Executable == {"dp", "adr", "movw", "movt", "b", "bl", "blxr", "bx", "bxj", "cbz", "it", "udf", "svc", "ls", "lsd", "ldm", "stm", "tb",
               "msr", "mrs", "cps", "setend", "hint", "excret", "rfe", "srs", "ldmx", "stmu", "smc",
               "mul", "hmul", "div", "qarith", "sat", "par", "misc", "coproc", "ldrex", "strex"}

\* the fetch: act = [n |-> "Step"] reads memory at PC; act = [n |-> "Exec", w, len] uses the given word
FetchInstr(x, act) ==
  IF act.n = "Exec" THEN [x |-> x, w |-> act.w, len |-> act.len]
  ELSE IF IsARM(x.s.cpsr) THEN LET f == FetchWord(x, x.s.R.PC) IN [x |-> f.x, w |-> f.v, len |-> 32]
  ELSE LET h1 == FetchHalf(x, x.s.R.PC) IN
       IF ~Ok(h1.x) THEN [x |-> h1.x, w |-> Zero, len |-> 16]
       ELSE IF h1.v \div 2048 \in {29, 30, 31}
            THEN LET h2 == FetchHalf(h1.x, AddInt(x.s.R.PC, 2)) IN [x |-> h2.x, w |-> <<h1.v, h2.v>>, len |-> 32]
            ELSE [x |-> h1.x, w |-> <<0, h1.v>>, len |-> 16]

Result(s, out, exact, path, x, condfail, nop) ==
  [s |-> s, out |-> out, exact |-> exact, path |-> path, condfail |-> condfail, nop |-> nop,
   dcR |-> x.dcR, dcM |-> x.dcM, dcS |-> x.dcS, dcC |-> x.dcC, dcD |-> x.dcD]

\* exception entry for a context whose `ab` is set; s0 = the state the instruction started from
\* (exceptions are taken with the side effects performed so far, but PC = this instruction)
TakeExc(x, len) ==
  LET s == [x.s EXCEPT !.R.PC = x.s.R.PC] IN
  CASE x.ab.t = "undef"   -> TakeUndefInstr(s)
    [] x.ab.t = "svc"     -> TakeSVC(s, len \div 8)
    [] x.ab.t = "smc"     -> TakeSMC(s)
    [] x.ab.t = "dabort"  -> TakeDataAbort(s, x.ab)
    [] x.ab.t = "hyptrap" -> TakeHypTrap(s)

StepF(s, act) ==
  LET x0   == X0(s)
      f    == FetchInstr(x0, act)
      iset == IF IsARM(s.cpsr) THEN 0 ELSE 1
      it   == PIT(s.cpsr)
      dx   == [it |-> it, arch |-> s.cfg.arch, hyp |-> Mode(s) = HYP]
  IN IF ~(ISet(s.cpsr) \in {0, 1}) THEN Result(s, "any", FALSE, "envelope:jazelle-thumbee", x0, FALSE, s)
     ELSE IF BadMode(s.cfg, Mode(s)) THEN Result(s, "any", FALSE, "envelope:bad-mode", x0, FALSE, s)
     \* the IT bits must be zero in ARM state; a state that violates this (reachable only through an exception return whose
     \* SPSR has T = 0 and IT /= 0, which is UNPREDICTABLE) is judged by the envelope only
     ELSE IF iset = 0 /\ it # 0 THEN Result(s, "any", FALSE, "envelope:arm-state-with-it", x0, FALSE, s)
     ELSE IF ~Ok(f.x) THEN
          \* fault on the instruction fetch itself: the architecture takes a Prefetch Abort, the
          \* implementation a Data Abort (named deviation FetchFaultIsDataAbort): envelope only
          Result(s, "any", FALSE, "envelope:fetch-fault", f.x, FALSE, s)
     ELSE
     LET i    == Decode(iset, f.w, f.len, dx)
         cond == CondOf(iset, f.w, f.len, i, dx)
         pass == ConditionHolds(cond, PNZCV(s.cpsr))
         inIT == iset = 1 /\ InITBlock(it)
         \* what "nothing happens" means: PC advanced, IT advanced
         nop  == LET s1 == SetPC(s, AddInt(s.R.PC, f.len \div 8))
                 IN IF inIT THEN ITAdvanced(s1) ELSE s1
     IN IF i.k = "nopish" THEN
          Result(s, "any", FALSE, "envelope:nop-or-unimplemented:" \o i.enc, f.x, TRUE, nop)
        ELSE IF i.k = "unimpl" THEN
          Result(s, IF pass THEN "unimpl" ELSE "any", FALSE, "envelope:unimplemented:" \o i.enc, f.x, ~pass, nop)
        ELSE IF i.k = "unspec" THEN
          Result(s, "any", FALSE, "envelope:unspecified:" \o i.enc, f.x, ~pass, nop)
        ELSE IF i.unp \/ i.k = "unpred" THEN
          Result(s, "any", FALSE, "envelope:unpredictable:" \o i.enc, f.x, FALSE, nop)
        ELSE IF i.k = "undef" THEN
          \* UNDEFINED: if the condition fails the instruction may be a NOP instead (A8.?: "UNDEFINED or NOP")
          IF pass THEN Result(TakeUndefInstr(s), "undef", TRUE, "exact:UNDEFINED", f.x, FALSE, nop)
          ELSE Result(s, "any", FALSE, "envelope:undefined-cond-fail", f.x, FALSE, nop)
        ELSE IF i.k \notin Executable THEN
          Result(s, "any", FALSE, "envelope:unspecified:" \o i.enc, f.x, ~pass, nop)
        ELSE IF ~pass THEN
          Result(nop, "completed", TRUE, "exact:condfail:" \o i.enc, f.x, TRUE, nop)
        ELSE
          LET x1 == Exec(f.x, i) IN
          IF x1.ni # "" THEN Result(s, "notimpl:" \o x1.ni, FALSE, "envelope:notimpl:" \o i.enc, x1, FALSE, nop)
          ELSE IF x1.ab.t # "none" THEN
            \* the HSR syndrome of exceptions taken to Hyp mode is not specified here (don't-care)
            LET post == TakeExc(x1, f.len)
                x1h  == IF PM(post.cpsr) = HYP THEN [x1 EXCEPT !.dcS = @ \cup {"HSR"}] ELSE x1
            IN Result(post, x1.ab.t, ~x1.unp, (IF x1.unp THEN "envelope:unpredictable:" ELSE "exact:exc:") \o i.enc, x1h, FALSE, nop)
          ELSE
            LET s1 == IF x1.br THEN x1.s ELSE SetPC(x1.s, AddInt(x1.s.R.PC, f.len \div 8))
                s2 == IF inIT THEN ITAdvanced(s1) ELSE s1
            IN Result(s2, "completed", ~x1.unp, (IF x1.unp THEN "envelope:unpredictable:" ELSE "exact:") \o i.enc, x1, FALSE, nop)
=============================================================================
