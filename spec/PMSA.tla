-------------------------------- MODULE PMSA ---------------------------------
(***************************************************************************)
(* Protected Memory System Architecture (ARM ARM B5): TranslateAddressP,   *)
(* region matching, CheckPermission, background region.  Also the          *)
(* property-text formulation `Decider` used by MC_PMSA to cross-check the  *)
(* region loop.                                                            *)
(***************************************************************************)
EXTENDS XCtx

DRegion(s) == Slice(s.sys.MPUIR, 15, 8)
RgnEn(s, r)    == Bit(s.sys[DRSRn[r + 1]], 0)
RgnSize(s, r)  == Slice(s.sys[DRSRn[r + 1]], 5, 1)
RgnSD(s, r, k) == Bit(s.sys[DRSRn[r + 1]], 8 + k)
RgnBase(s, r)  == s.sys[DRBARn[r + 1]]
RgnAP(s, r)    == Slice(s.sys[DRACRn[r + 1]], 10, 8)
RgnTEXCB(s, r) == Slice(s.sys[DRACRn[r + 1]], 5, 3) * 4 + Bit(s.sys[DRACRn[r + 1]], 1) * 2 + Bit(s.sys[DRACRn[r + 1]], 0)
RgnS(s, r)     == Bit(s.sys[DRACRn[r + 1]], 2)

\* does enabled region r cover va (base/size match and sub-region not disabled)?
RegionHits(s, r, va) ==
  /\ RgnEn(s, r) = 1
  /\ LET lsbit == RgnSize(s, r) + 1 IN
     /\ (lsbit = 32 \/ LSRw(va, lsbit) = LSRw(RgnBase(s, r), lsbit))
     /\ (lsbit >= 8 => RgnSD(s, r, Slice(va, lsbit - 1, lsbit - 3)) = 0)
\* UNPREDICTABLE region programming: size < 4 bytes, or base not aligned to the size
RegionUnpred(s, r) ==
  /\ RgnEn(s, r) = 1
  /\ LET lsbit == RgnSize(s, r) + 1 IN
     \/ lsbit < 2
     \/ (lsbit > 2 /\ lsbit < 32 /\ ~IsZeroW(WAnd(RgnBase(s, r), WAnd(MaskW(lsbit - 1, 0), <<MM, MM - 3>>))))
     \/ (lsbit = 32 /\ ~IsZeroW(WAnd(RgnBase(s, r), <<MM, MM - 3>>)))

\* the pseudocode loop: later (higher-numbered) regions override earlier ones
RECURSIVE RegionLoop(_, _, _, _)
RegionLoop(s, va, r, found) ==
  IF r >= DRegion(s) THEN found
  ELSE RegionLoop(s, va, r + 1, IF RegionHits(s, r, va) THEN r ELSE found)
LoopResult(s, va) == RegionLoop(s, va, 0, -1)
\* the property text: "the highest-numbered enabled region whose base/size and non-disabled
\* sub-region cover the address", -1 if none
Decider(s, va) ==
  LET hits == {r \in 0..(DRegion(s) - 1) : RegionHits(s, r, va)}
  IN IF hits = {} THEN -1 ELSE CHOOSE r \in hits : \A q \in hits : q <= r

\* CheckPermission on AP (B5.? table): TRUE = abort; "unp" for reserved encodings
PermAbort(ap, priv, iswrite) ==
  CASE ap = 0 -> TRUE
    [] ap = 1 -> ~priv
    [] ap = 2 -> (~priv) /\ iswrite
    [] ap = 3 -> FALSE
    [] ap = 4 -> FALSE            \* UNPREDICTABLE
    [] ap = 5 -> (~priv) \/ iswrite
    [] ap = 6 -> iswrite
    [] ap = 7 -> FALSE            \* UNPREDICTABLE in PMSA
\* prose table (second formulation) : access kinds allowed
APAllows(ap, priv, iswrite) ==
  LET privRW == ap \in {1, 2, 3}
      privRO == ap \in {5, 6}
      userRW == ap = 3
      userRO == ap \in {2, 6}
  IN IF priv THEN (privRW \/ (privRO /\ ~iswrite)) ELSE (userRW \/ (userRO /\ ~iswrite))

DeviceLike(texcb) == texcb \in {0, 1, 8}

\* -> [x |-> context (x.ab set when the access faults), pa |-> physical address, at |-> memory attributes
\*     (MkAttr record) of the returned address descriptor; paddress.NS is IMPLEMENTATION DEFINED in PMSA]
TranslateP(x, va, priv, iswrite, wasaligned) ==
  LET s == x.s IN
  IF SCTLR_M(s) = 0 THEN [x |-> x, pa |-> va, at |-> DefaultMemoryAttributes(s, va)]
  ELSE LET r   == LoopResult(s, va)
           anyUnp == \E q \in 0..(DRegion(s) - 1) : RegionUnpred(s, q)
           x1  == UnpredIf(x, anyUnp)
       IN IF r = -1
          THEN IF SCTLR_BR(s) = 0 \/ ~priv
               THEN [x |-> DataAbortP(x1, va, iswrite, "BACKGROUND"), pa |-> va, at |-> AttrUnknown]
               ELSE [x |-> x1, pa |-> va, at |-> DefaultMemoryAttributes(s, va)]                   \* default map, AP = 011
          ELSE LET ap == RgnAP(s, r)
                   x2 == UnpredIf(x1, ap \in {4, 7} \/ ((~wasaligned) /\ DeviceLike(RgnTEXCB(s, r))) \/ TEXCBReserved(RgnTEXCB(s, r)))
                   at == DefaultTEXDecode(RgnTEXCB(s, r), RgnS(s, r))
               IN IF PermAbort(ap, priv, iswrite)
                  THEN [x |-> DataAbortP(x2, va, iswrite, "PERMISSION"), pa |-> va, at |-> at]
                  ELSE [x |-> x2, pa |-> va, at |-> at]
=============================================================================
