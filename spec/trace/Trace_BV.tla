------------------------------ MODULE Trace_BV -------------------------------
(* C17, code -> spec: every line of IN_FILE is one call of a helper of bits_ops.py /
   shift.py on the real code:  [id, op, w, args, res, status].  The verdict lists every
   failing component of the result.  Widths <= 15 are judged by the reference BV.tla,
   width 32 (op names ending in "32", operands as [hi, lo] limb pairs) and 64 by W32.tla. *)
EXTENDS Naturals, Integers, Sequences, TLC, Json, IOUtils
B == INSTANCE BV
W == INSTANCE W32 WITH L <- 16

Trace == ndJsonDeserialize(IOEnv.IN_FILE)

b2i(b) == IF b THEN 1 ELSE 0
SatPair(p) == <<p[1], b2i(p[2])>>

\* expected result (a tuple) for an op at width w with argument tuple a
Expected(op, w, a) ==
  CASE op = "add_with_carry" -> B!AddWithCarry(a[1], a[2], a[3], w)
    [] op = "lsl_c" -> B!LSL_C(a[1], w, a[2])
    [] op = "lsr_c" -> B!LSR_C(a[1], w, a[2])
    [] op = "asr_c" -> B!ASR_C(a[1], w, a[2])
    [] op = "ror_c" -> B!ROR_C(a[1], w, a[2])
    [] op = "rrx_c" -> B!RRX_C(a[1], w, a[2])
    [] op = "lsl"   -> <<B!LSL(a[1], w, a[2])>>
    [] op = "lsr"   -> <<B!LSR(a[1], w, a[2])>>
    [] op = "asr"   -> <<B!ASR(a[1], w, a[2])>>
    [] op = "ror"   -> <<B!ROR(a[1], w, a[2])>>
    [] op = "rrx"   -> <<B!RRX(a[1], w, a[2])>>
    [] op = "shift_c" -> B!Shift_C(a[1], w, a[2], a[3], a[4])
    [] op = "shift"   -> <<B!Shift(a[1], w, a[2], a[3], a[4])>>
    [] op = "sign_extend" -> <<B!SignExtend(a[1], w, a[2])>>
    [] op = "to_signed"   -> <<B!SInt(a[1], w)>>
    [] op = "to_unsigned" -> <<B!ToUnsigned(a[1], w)>>
    [] op = "signed_sat_q"   -> SatPair(B!SignedSatQ(a[1], w))
    [] op = "unsigned_sat_q" -> SatPair(B!UnsignedSatQ(a[1], w))
    [] op = "signed_sat"     -> <<B!SignedSat(a[1], w)>>
    [] op = "unsigned_sat"   -> <<B!UnsignedSat(a[1], w)>>
    [] op = "sat_q"          -> IF a[2] = 1 THEN SatPair(B!UnsignedSatQ(a[1], w)) ELSE SatPair(B!SignedSatQ(a[1], w))
    [] op = "sat"            -> IF a[2] = 1 THEN <<B!UnsignedSat(a[1], w)>> ELSE <<B!SignedSat(a[1], w)>>
    [] op = "substring"      -> <<B!Slice(a[1], a[2], a[3])>>
    [] op = "set_substring"  -> <<B!SetSlice(a[1], a[2], a[3], a[4])>>
    [] op = "bit_at"         -> <<B!Bit(a[1], a[2])>>
    [] op = "set_bit_at"     -> <<B!SetSlice(a[1], a[2], a[2], a[3])>>
    [] op = "chain"          -> <<a[1] * 2^a[3] + a[2]>>
    [] op = "bit_count"      -> <<IF a[2] = 1 THEN B!BitCount(a[1], w) ELSE w - B!BitCount(a[1], w)>>
    [] op = "lowest_set_bit_ref" -> <<B!LowestSetBit(a[1], w)>>
    [] op = "align"          -> <<B!Align(a[1], a[2])>>
    [] op = "is_ones"        -> <<b2i(a[1] = B!Ones(w))>>
    [] op = "bit_not"        -> <<B!NotN(a[1], w)>>
    [] op = "add"            -> <<(a[1] + a[2]) % 2^w>>
    [] op = "sub"            -> <<(a[1] - a[2]) % 2^w>>
    [] op = "lower_chunk"    -> <<a[1] % 2^w>>
    [] op = "big_endian_reverse" -> <<B!BigEndianReverse(a[1], w \div 8)>>
    [] op = "decode_imm_shift" -> B!DecodeImmShift(a[1], a[2])
    [] op = "decode_reg_shift" -> <<B!DecodeRegShift(a[1])>>
    \* ---- width 32: limb pairs ----
    [] op = "add_with_carry32" -> W!AddC(a[1], a[2], a[3])
    [] op = "lsl_c32" -> W!LSL_C(a[1], a[2])
    [] op = "lsr_c32" -> W!LSR_C(a[1], a[2])
    [] op = "asr_c32" -> W!ASR_C(a[1], a[2])
    [] op = "ror_c32" -> W!ROR_C(a[1], a[2])
    [] op = "rrx_c32" -> W!RRX_C(a[1], a[2])
    [] op = "shift_c32" -> W!Shift_C(a[1], a[2], a[3], a[4])
    [] op = "arm_expand_imm_c"   -> W!ARMExpandImm_C(a[1], a[2])
    [] op = "thumb_expand_imm_c" -> LET r == W!ThumbExpandImm_C(a[1], a[2]) IN <<r[1], r[2]>>
    [] op = "sign_extend32"  -> <<W!SignExtN(a[1], a[2])>>
    [] op = "big_endian_reverse32" -> <<W!REVw(a[1])>>
    [] op = "big_endian_reverse64" -> <<W!QMk(W!REVw(W!QLo(a[1])), W!REVw(W!QHi(a[1])))>>
    [] op = "bit_count32"    -> <<IF a[2] = 1 THEN W!BitCountW(a[1]) ELSE 32 - W!BitCountW(a[1])>>
    [] op = "lowest_set_bit_ref32" -> <<W!LowestSetBitW(a[1])>>
    [] op = "bit_not32"      -> <<W!WNot(a[1])>>
    [] op = "add32"          -> <<W!Add(a[1], a[2])>>
    [] op = "sub32"          -> <<W!Sub(a[1], a[2])>>
    [] op = "substring32"    -> <<W!Slice(a[1], a[2], a[3])>>
    [] op = "bit_at32"       -> <<W!Bit(a[1], a[2])>>
    [] op = "add_with_carry64" -> LET r == W!QAddC(a[1], a[2], a[3])
                                      sa == W!QIsNeg(a[1])  sb == W!QIsNeg(a[2])  sr == W!QIsNeg(r[1])
                                  IN <<r[1], r[2], b2i(sa = sb /\ sr # sa)>>
    [] OTHER -> <<"unknown-op">>

Names(op) ==
  CASE op \in {"add_with_carry", "add_with_carry32", "add_with_carry64"} -> <<"result", "carry_out", "overflow">>
    [] op \in {"lsl_c", "lsr_c", "asr_c", "ror_c", "rrx_c", "shift_c", "lsl_c32", "lsr_c32", "asr_c32", "ror_c32",
               "rrx_c32", "shift_c32", "arm_expand_imm_c", "thumb_expand_imm_c"} -> <<"result", "carry_out">>
    [] op \in {"signed_sat_q", "unsigned_sat_q", "sat_q"} -> <<"result", "saturated">>
    [] op = "decode_imm_shift" -> <<"shift_t", "shift_n">>
    [] OTHER -> <<"result">>

Verdict(e) ==
  LET op == e[2]  w == e[3]  a == e[4]  r == e[5]  st == e[6]
      exp == Expected(op, w, a)
      nm == Names(op)
      bad == IF st # "ok" THEN <<"hosterror">>
             ELSE IF Len(r) # Len(exp) THEN <<"arity">>
             ELSE SelectSeq(nm, LAMBDA c : LET i == CHOOSE j \in 1..Len(nm) : nm[j] = c IN r[i] # exp[i])
  IN [id |-> e[1], v |-> bad, path |-> op]

VARIABLE i
Init == i = 0
Next == FALSE /\ i' = i
Post == TLCGet("level") >= 0 /\ ndJsonSerialize(IOEnv.OUT_FILE, [k \in 1..Len(Trace) |-> Verdict(Trace[k])])
=============================================================================
