---------------------------- MODULE Trace_Fields -----------------------------
(* C17 (field views), code -> spec.  One line = one property/indexed accessor use on a
   real register object:  [id, cls, field, n, base, value, image, readback]
   base/value/image/readback are [hi, lo] words; n = -1 for a plain property.
   The register was set to `base`, the field written with the in-range `value`,
   `image` is the raw register afterwards and `readback` what the getter returned. *)
EXTENDS Naturals, Integers, Sequences, TLC, Json, IOUtils, SysRegFields
W == INSTANCE W32 WITH L <- 16

Trace == ndJsonDeserialize(IOEnv.IN_FILE)

SegW(s) == s[1] - s[2] + 1
\* insert value v (a word) into img at the (1 or 2) segments, ms segment first
SetField(img, segs, v) ==
  IF Len(segs) = 1 THEN W!InsertW(img, segs[1][1], segs[1][2], v)
  ELSE W!InsertW(W!InsertW(img, segs[2][1], segs[2][2], v),
                 segs[1][1], segs[1][2], W!LSRw(v, SegW(segs[2])))
GetField(img, segs) ==
  IF Len(segs) = 1 THEN W!ExtractW(img, segs[1][1], segs[1][2])
  ELSE W!WOr(W!LSLw(W!ExtractW(img, segs[1][1], segs[1][2]), SegW(segs[2])),
             W!ExtractW(img, segs[2][1], segs[2][2]))

Verdict(e) ==
  LET cls == e[2]  f == e[3]  n == e[4]  base == e[5]  v == e[6]  img == e[7]  rb == e[8]
      segs == IF n >= 0 THEN IndexedField(cls, f, n) ELSE Field(cls, f)
      conly == <<cls, f>> \in DOMAIN ConsistencyOnly
  IN IF segs = NoField /\ ~conly
       THEN [id |-> e[1], v |-> <<>>, path |-> "unmapped"]
     ELSE IF ~(W!IsWord(img) /\ W!IsWord(rb))
       THEN [id |-> e[1], v |-> <<"image-not-a-word">>, path |-> "typeok"]
     ELSE IF conly
       THEN [id |-> e[1], path |-> "consistency-only",
             v |-> (IF rb = v THEN <<>> ELSE <<"readback">>) \o
                   (IF W!BitCountW(W!WXor(img, base)) <= ConsistencyOnly[<<cls, f>>] THEN <<>> ELSE <<"other-bits">>)]
     ELSE [id |-> e[1], path |-> "positional",
           v |-> (IF img = SetField(base, segs, v) THEN <<>> ELSE <<"image">>) \o
                 (IF rb = GetField(img, segs) THEN <<>> ELSE <<"readback">>) \o
                 (IF rb = v THEN <<>> ELSE <<"roundtrip">>)]

VARIABLE i
Init == i = 0
Next == FALSE /\ i' = i
Post == TLCGet("level") >= 0 /\ ndJsonSerialize(IOEnv.OUT_FILE, [k \in 1..Len(Trace) |-> Verdict(Trace[k])])
=============================================================================
