----------------------------- MODULE Trace_Step ------------------------------
(***************************************************************************)
(* Code -> spec trace validation of machine-level events.  IN_FILE is      *)
(* NDJSON; line 1 is a header {"h": {"cfg":..., "base": <full state>}};    *)
(* every other line is one public call on the real ArmV6 object:           *)
(*   {"id", "pre": <overrides of base>, "act": {"n": ...}, "out": outcome, *)
(*    "cls": implementation opcode class, "nunp": # 'unpredictable'        *)
(*    prints, "d": <delta post - pre>}                                     *)
(* The pre-state is base overlaid with "pre"; the post-state is the        *)
(* pre-state overlaid with "d" (the harness writes every component that    *)
(* changed, so "nothing else changed" is checked on every event).          *)
(* Verdict: ALL failing clauses, the spec path that judged the event.      *)
(***************************************************************************)
EXTENDS Props, Json, IOUtils

Trace == ndJsonDeserialize(IOEnv.IN_FILE)
Hdr   == Trace[1].h
Cfg   == Hdr.cfg
Base0 == Hdr.base

Has(r, k)   == k \in DOMAIN r
OvRec(b, o) == [k \in DOMAIN b |-> IF k \in DOMAIN o THEN o[k] ELSE b[k]]
Triples(sq) == [k \in 1..Len(sq) |-> <<sq[k][1] + 1, sq[k][2], sq[k][3]>>]     \* device index 0-based in JSON
\* overlay a partial state description onto a full state
Overlay(b, o) ==
  [R    |-> IF Has(o, "R") THEN OvRec(b.R, o.R) ELSE b.R,
   cpsr |-> IF Has(o, "cpsr") THEN o.cpsr ELSE b.cpsr,
   spsr |-> IF Has(o, "spsr") THEN OvRec(b.spsr, o.spsr) ELSE b.spsr,
   elr  |-> IF Has(o, "elr") THEN o.elr ELSE b.elr,
   sys  |-> IF Has(o, "sys") THEN OvRec(b.sys, o.sys) ELSE b.sys,
   mem  |-> IF Has(o, "mem") THEN [b.mem EXCEPT !.w = @ \o Triples(o.mem)] ELSE b.mem,
   ev   |-> IF Has(o, "ev") THEN OvRec(b.ev, o.ev) ELSE b.ev,
   cfg  |-> b.cfg]
BaseState ==
  [R |-> Base0.R, cpsr |-> Base0.cpsr, spsr |-> Base0.spsr, elr |-> Base0.elr, sys |-> Base0.sys,
   mem |-> [devs |-> Base0.mem.devs, base |-> Base0.mem.base, w |-> <<>>], ev |-> Base0.ev, cfg |-> Cfg]

WordsOK(st) ==
  /\ \A r \in DOMAIN st.R : IsWord(st.R[r])
  /\ IsWord(st.cpsr) /\ IsWord(st.elr)
  /\ \A m \in DOMAIN st.spsr : IsWord(st.spsr[m])
  /\ \A n \in DOMAIN st.sys : IsWord(st.sys[n])

-----------------------------------------------------------------------------
(* comparison of the specification's post-state with the implementation's *)
CpsrFields == << <<"N", <<32768, 0>>>>, <<"Z", <<16384, 0>>>>, <<"C", <<8192, 0>>>>, <<"V", <<4096, 0>>>>,
                 <<"Q", <<2048, 0>>>>, <<"IT", <<1536, 64512>>>>, <<"J", <<256, 0>>>>, <<"RES", <<240, 0>>>>,
                 <<"GE", <<15, 0>>>>, <<"E", <<0, 512>>>>, <<"A", <<0, 256>>>>, <<"I", <<0, 128>>>>,
                 <<"F", <<0, 64>>>>, <<"T", <<0, 32>>>>, <<"M", <<0, 31>>>> >>
SeqOfSet(S) == IF S = {} THEN <<>> ELSE LET RECURSIVE f(_) f(T) == IF T = {} THEN <<>> ELSE LET e == CHOOSE e \in T : TRUE IN <<e>> \o f(T \ {e}) IN f(S)
PsrDiff(prefix, a, b, dcmask) ==
  LET df == WAnd(WXor(a, b), WNot(dcmask))
  IN [k \in 1..Len(CpsrFields) |-> IF IsZeroW(WAnd(df, CpsrFields[k][2])) THEN "" ELSE prefix \o CpsrFields[k][1]]
NonEmpty(sq) == SelectSeq(sq, LAMBDA c : c # "")

\* n0 = length of the pre-state's memory log: only cells written after it can differ
StateDiffN(spec, impl, r, n0) ==
  LET regs == SeqOfSet({n \in RNames : n \notin r.dcR /\ spec.R[n] # impl.R[n]})
      sp   == SeqOfSet({m \in SpsrNames : spec.spsr[m] # impl.spsr[m]})
      sy   == SeqOfSet({n \in DOMAIN spec.sys : n \notin r.dcS /\
                          (IF n = "DFSR" THEN WAnd(WXor(spec.sys[n], impl.sys[n]), WNot(r.dcD)) # Zero
                           ELSE spec.sys[n] # impl.sys[n])})
      newc(m) == {<<m.w[k][1], m.w[k][2]>> : k \in (n0 + 1)..Len(m.w)}
      cells == (newc(spec.mem) \cup newc(impl.mem)) \ r.dcM
      badcells == {c \in cells : DevByte(spec.mem, c[1], c[2]) # DevByte(impl.mem, c[1], c[2])}
  IN [k \in 1..Len(regs) |-> "R." \o regs[k]] \o
     NonEmpty(PsrDiff("cpsr.", spec.cpsr, impl.cpsr, r.dcC)) \o
     [k \in 1..Len(sp) |-> "spsr." \o sp[k]] \o
     (IF spec.elr # impl.elr THEN <<"elr">> ELSE <<>>) \o
     [k \in 1..Len(sy) |-> "sys." \o sy[k]] \o
     (IF badcells # {} THEN <<"mem">> ELSE <<>>) \o
     (IF spec.ev # impl.ev THEN <<"ev">> ELSE <<>>)


StepVerdict(e, pre, post) ==
  LET r    == StepF(pre, e.act)
      out  == e.out
      host == out \notin AllowedOutcomes /\ out # "notimpl"
      osys == IF Has(e.d, "osys") THEN e.d.osys ELSE <<>>
      memsz == IF Has(e.d, "memsz") THEN e.d.memsz ELSE <<>>
      \* C07: the length of the fetched instruction is decided by the top five bits of the first halfword
      ilen == IF Has(e, "ilen") /\ e.act.n = "Step" /\ ISet(pre.cpsr) \in {0, 1} /\ ~BadMode(pre.cfg, Mode(pre))
              THEN LET f == FetchInstr(X0(pre), e.act) IN IF Ok(f.x) /\ f.len # e.ilen THEN <<"ilen">> ELSE <<>>
              ELSE <<>>
      env  == (IF host THEN <<"hosterror">> ELSE <<>>) \o ilen \o
              (IF ~RegsTypeOK(post) THEN <<"range">> ELSE <<>>) \o
              (IF memsz # <<>> THEN <<"mem.size">> ELSE <<>>) \o
              (IF RegsTypeOK(post) /\ ~UserConfined(pre, post, osys) THEN <<"confine">> ELSE <<>>)
      \* C05 negative path on encodings the specification does not cover: the condition is known to fail
      nopclause == IF r.exact \/ ~r.condfail \/ e.nunp > 0 \/ host \/ ~RegsTypeOK(post) THEN <<>>
                   ELSE IF out \in {"undef", "notimpl"} THEN <<>>
                   ELSE IF out = "completed" /\ StateDiffN(r.nop, post, r, Len(pre.mem.w)) = <<>> /\ osys = <<>> THEN <<>>
                   ELSE <<"nop-on-condfail">>
      \* accepted generic coprocessor instructions must reach the (not implemented) coprocessor hooks
      nimpl == IF host THEN <<>>
               ELSE IF r.out \in {"notimpl:coproc", "notimpl:cp15_instr_decode", "notimpl:cp14_debug_instr_decode",
                                  "notimpl:cp14_trace_instr_decode", "notimpl:cp14_jazelle_instr_decode"} /\ out # "notimpl"
                    THEN <<"outcome">>
               ELSE IF r.out = "notimpl:coproc-mem" /\ out \notin {"notimpl", "dabort"} THEN <<"outcome">>
               ELSE IF r.out = "unimpl" /\ out \notin {"notimpl", "undef"} THEN <<"outcome">>
               ELSE <<>>
      exact == IF ~r.exact \/ host \/ ~RegsTypeOK(post) THEN <<>>
               ELSE (IF out # r.out THEN <<"outcome">> ELSE <<>>) \o StateDiffN(r.s, post, r, Len(pre.mem.w)) \o
                    (IF osys # <<>> THEN <<"sys.other">> ELSE <<>>)
      \* expected values of mismatching registers / memory cells (diagnostics only)
      why == IF exact = <<>> THEN <<>>
             ELSE LET regs == SeqOfSet({n \in RNames : n \notin r.dcR /\ r.s.R[n] # post.R[n]})
                      cells == SeqOfSet({c \in ({<<r.s.mem.w[k][1], r.s.mem.w[k][2]>> : k \in (Len(pre.mem.w) + 1)..Len(r.s.mem.w)} \cup
                                 {<<post.mem.w[k][1], post.mem.w[k][2]>> : k \in (Len(pre.mem.w) + 1)..Len(post.mem.w)}) \ r.dcM :
                                           DevByte(r.s.mem, c[1], c[2]) # DevByte(post.mem, c[1], c[2])})
                  IN [k \in 1..Len(regs) |-> <<regs[k], r.s.R[regs[k]]>>] \o
                     [k \in 1..Len(cells) |-> <<"mem", cells[k][1] - 1, cells[k][2], DevByte(r.s.mem, cells[k][1], cells[k][2])>>] \o
                     <<<<"out", r.out>>, <<"cpsr", r.s.cpsr>>>>
  IN [id |-> e.id, v |-> env \o nopclause \o nimpl \o exact, path |-> r.path, why |-> why]

\* exception entry actions (C11): the implementation's take_*_exception() called directly
ExcVerdict(e, pre, post) ==
  LET n == e.act.n
      osys == IF Has(e.d, "osys") THEN e.d.osys ELSE <<>>
      exp == CASE n = "Undef" -> TakeUndefInstr(pre)
               [] n = "SVC"   -> TakeSVC(pre, e.act.len \div 8)
               [] n = "SMC"   -> TakeSMC(pre)
               [] n = "DAbort" -> TakeDataAbort(pre, [alignment |-> e.act.alignment, secondstage |-> e.act.secondstage])
               [] n = "HypTrap" -> TakeHypTrap(pre)
               [] n = "IRQ"   -> TakePhysicalIRQ(pre)
               [] n = "FIQ"   -> TakePhysicalFIQ(pre)
      hsrdc == (n = "IRQ" /\ IRQRoutedToHyp(pre)) \/ (n = "FIQ" /\ FIQRoutedToHyp(pre))
      r0 == Result(exp, "completed", TRUE, "exc:" \o n, X0(pre), FALSE, pre)
      r  == IF hsrdc THEN [r0 EXCEPT !.dcS = {"HSR"}] ELSE r0
  IN IF e.out # "completed" THEN [id |-> e.id, v |-> <<"hosterror">>, path |-> r.path]
     ELSE IF ~RegsTypeOK(post) THEN [id |-> e.id, v |-> <<"range">>, path |-> r.path]
     ELSE [id |-> e.id, path |-> r.path,
           v |-> StateDiffN(exp, post, r, Len(pre.mem.w)) \o (IF osys # <<>> THEN <<"sys.other">> ELSE <<>>)]

ResetVerdict(e, pre, post) ==
  LET checks == ResetOK(pre, post) IN
  IF e.out # "completed" THEN [id |-> e.id, v |-> <<"hosterror">>, path |-> "exc:Reset"]
  ELSE IF ~RegsTypeOK(post) THEN [id |-> e.id, v |-> <<"range">>, path |-> "exc:Reset"]
  ELSE [id |-> e.id, path |-> "exc:Reset",
        v |-> LET bad == SelectSeq(checks, LAMBDA c : ~c[2]) IN [k \in 1..Len(bad) |-> bad[k][1]]]

\* direct calls of the memory API (C13) and of translate_address (C14/C15).  A DataAbortException
\* raised by the call is the outcome "dabort": the exception is NOT entered (no take_* call), only the
\* fault bookkeeping (DFSR/DFAR) has happened.  act = [n, addr, size, val (bytes by significance), priv, iswrite, aligned]
MemApiVerdict(e, pre, post) ==
  LET a == e.act
      x0 == X0(pre)
      osys == IF Has(e.d, "osys") THEN e.d.osys ELSE <<>>
      rd == CASE a.n = "MemAGet" -> MemARead(x0, a.addr, a.size, Priv(pre), TRUE)
              [] a.n = "MemUGet" -> MemURead(x0, a.addr, a.size, Priv(pre))
              [] a.n = "MemUUnprivGet" -> MemURead(x0, a.addr, a.size, FALSE)
              [] OTHER -> [x |-> x0, v |-> <<>>]
      x1 == CASE a.n = "MemASet" -> MemAWrite(x0, a.addr, a.size, Priv(pre), TRUE, a.val)
              [] a.n = "MemUSet" -> MemUWrite(x0, a.addr, a.size, Priv(pre), a.val)
              [] a.n = "MemUUnprivSet" -> MemUWrite(x0, a.addr, a.size, FALSE, a.val)
              [] a.n = "Translate" -> Translate(x0, a.addr, a.priv, a.iswrite, a.size, a.aligned).x
              [] OTHER -> rd.x
      isget == a.n \in {"MemAGet", "MemUGet", "MemUUnprivGet"}
      expout == IF x1.ni # "" THEN "notimpl" ELSE IF x1.ab.t = "dabort" THEN "dabort" ELSE "completed"
      r == Result(x1.s, expout, TRUE, "memapi:" \o a.n, x1, FALSE, pre)
      pa == IF a.n = "Translate" /\ Ok(x1) THEN Translate(x0, a.addr, a.priv, a.iswrite, a.size, a.aligned) ELSE [pa |-> Zero, ext |-> 0]
      \* memory attributes / NS of the returned address descriptor (e.attrs = [ty, ia, ih, oa, oh, sh, osh, ns] as recorded):
      \* one clause per field the specification claims (attr.<field>)
      ta == IF a.n = "Translate" /\ Ok(x1) /\ Has(e, "attrs") THEN TranslateAttrs(x0, a.addr, a.priv, a.iswrite, a.aligned)
            ELSE [at |-> AttrUnknown, ns |-> 2]
      attrbad == IF a.n = "Translate" /\ Has(e, "attrs") /\ expout = "completed" /\ e.out = "completed"
                 THEN SelectSeq(<<"ty", "ia", "ih", "oa", "oh", "sh", "osh">>, LAMBDA f : f \notin ta.at.dc /\ e.attrs[f] # ta.at.a[f])
                      \o (IF ta.ns # 2 /\ e.attrs.ns # ta.ns THEN <<"ns">> ELSE <<>>)
                 ELSE <<>>
  IN IF e.out \notin {"completed", "dabort", "notimpl"} THEN [id |-> e.id, v |-> <<"hosterror">>, path |-> r.path]
     ELSE IF x1.unp THEN [id |-> e.id, v |-> <<>>, path |-> "envelope:unpredictable:" \o a.n]
     ELSE IF expout = "notimpl" THEN [id |-> e.id, v |-> IF e.out = "notimpl" THEN <<>> ELSE <<"outcome">>, path |-> "notimpl:" \o x1.ni]
     ELSE [id |-> e.id, path |-> r.path \o (IF a.n = "Translate" /\ Has(e, "attrs") /\ expout = "completed" /\ "ty" \notin ta.at.dc THEN ":attrs" ELSE ""),
           v |-> (IF e.out # expout THEN <<"outcome">> ELSE <<>>) \o StateDiffN(x1.s, post, r, Len(pre.mem.w)) \o
                 (IF osys # <<>> THEN <<"sys.other">> ELSE <<>>) \o
                 (IF isget /\ expout = "completed" /\ e.out = "completed" /\ e.res # rd.v THEN <<"value">> ELSE <<>>) \o
                 (IF a.n = "Translate" /\ expout = "completed" /\ e.out = "completed" /\ (e.res # <<pa.ext, pa.pa>>)
                  THEN <<"paddress">> ELSE <<>>) \o
                 [k \in 1..Len(attrbad) |-> "attr." \o attrbad[k]]]

\* direct calls of Registers.cpsr_write_by_instr / spsr_write_by_instr (C12): act = [n, val, mask, ret]
PsrApiVerdict(e, pre, post) ==
  LET a == e.act
      osys == IF Has(e.d, "osys") THEN e.d.osys ELSE <<>>
      r == IF a.n = "CpsrWrite" THEN CPSRWriteByInstr(pre, a.val, a.mask, a.ret) ELSE SPSRWriteByInstr(pre, a.val, a.mask)
      res == Result(r.s, "completed", TRUE, "psrapi:" \o a.n, X0(pre), FALSE, pre)
      \* UNPREDICTABLE mode writes: whatever else happens, the mode field must not change
      res2 == IF r.unp THEN [res EXCEPT !.dcC = IF a.n = "CpsrWrite" THEN <<MM, MM - 31>> ELSE Zero] ELSE res
  IN IF e.out # "completed" THEN [id |-> e.id, v |-> <<"hosterror">>, path |-> res.path]
     ELSE IF r.unp /\ a.n = "SpsrWrite" THEN
          [id |-> e.id, path |-> "psrapi:unpredictable",
           v |-> IF \A m \in SpsrNames : ~BadMode(pre.cfg, PM(post.spsr[m])) \/ PM(post.spsr[m]) = PM(pre.spsr[m]) THEN <<>> ELSE <<"badmode">>]
     ELSE [id |-> e.id, path |-> IF r.unp THEN "psrapi:unpredictable" ELSE res.path,
           v |-> StateDiffN(r.s, post, res2, Len(pre.mem.w)) \o (IF osys # <<>> THEN <<"sys.other">> ELSE <<>>)]

Verdict(e) ==
  LET pre  == Overlay(BaseState, e.pre)
      post == Overlay(pre, e.d)
      \* a step that starts from a state an earlier step of the same history left ill-typed (a register outside 0..2^32-1) cannot
      \* be judged against the specification; a host error it dies with is still a host error
      host == Has(e, "out") /\ e.out \notin (AllowedOutcomes \cup {"notimpl", "completed"})
  IN IF ~WordsOK(pre) THEN [id |-> e.id, v |-> <<"typeok.pre">> \o (IF host THEN <<"hosterror">> ELSE <<>>), path |-> "typeok"]
     ELSE IF ~WordsOK(post) THEN [id |-> e.id, v |-> <<"range">> \o (IF host THEN <<"hosterror">> ELSE <<>>), path |-> "typeok"]
     ELSE IF e.act.n = "SameDelta" THEN
          \* C05 positive path: the same instruction under a passing condition and under AL, from the
          \* same pre-state, must have the same effect (e.d / e.d2 are the two recorded deltas)
          \* (Thumb pairs that take an exception save CPSR, whose IT bits differ by construction, in the
          \* SPSR: for those only the outcome is compared -- e.full says which)
          [id |-> e.id, path |-> "pair:cond-pass",
           v |-> IF e.out = e.out2 /\ (~e.full \/ e.d = e.d2) THEN <<>> ELSE <<"cond-pass-differs">>]
     ELSE IF e.act.n \in {"MemAGet", "MemUGet", "MemUUnprivGet", "MemASet", "MemUSet", "MemUUnprivSet", "Translate"}
          THEN MemApiVerdict(e, pre, post)
     ELSE IF e.act.n \in {"CpsrWrite", "SpsrWrite"} THEN PsrApiVerdict(e, pre, post)
     ELSE IF e.act.n \in {"Step", "Exec"} THEN StepVerdict(e, pre, post)
     ELSE IF e.act.n = "Reset" THEN ResetVerdict(e, pre, post)
     ELSE ExcVerdict(e, pre, post)

VARIABLE i
Init == i = 0
Next == FALSE /\ i' = i
Post == TLCGet("level") >= 0 /\ ndJsonSerialize(IOEnv.OUT_FILE, [k \in 1..(Len(Trace) - 1) |-> Verdict(Trace[k + 1])])
=============================================================================
