-------------------------------- MODULE Decode -------------------------------
(***************************************************************************)
(* Instruction decode, hierarchical, following the decode tables of ARM    *)
(* ARM chapter A5 (ARM) and A6 (Thumb), with the "encoding-specific        *)
(* operations" of each encoding in A8 (operand derivation, UNPREDICTABLE   *)
(* conditions, SEE redirections).  Decode(iset, w, len, dx) returns        *)
(*   [k |-> family, enc |-> encoding name, unp |-> BOOLEAN, ...operands]   *)
(* with k = "undef" for UNDEFINED space and k = "unspec" where this        *)
(* specification does not (yet) say anything (those words are only subject *)
(* to the envelope properties).  dx = [it, arch, hyp] is the only machine  *)
(* state decode may depend on besides the carry flag (used at execute).    *)
(***************************************************************************)
EXTENDS Base, Cond

Undef        == [k |-> "undef", enc |-> "UNDEFINED", unp |-> FALSE]
Unspec(why)  == [k |-> "unspec", enc |-> why, unp |-> FALSE]
DPNames      == <<"AND", "EOR", "SUB", "RSB", "ADD", "ADC", "SBC", "RSC", "TST", "TEQ", "CMP", "CMN", "ORR", "MOV",
                  "BIC", "MVN">>
SRNames      == <<"LSL", "LSR", "ASR", "ROR">>
ImmShift(ty, imm5) ==
  CASE ty = 0 -> <<"LSL", imm5>>
    [] ty = 1 -> <<"LSR", IF imm5 = 0 THEN 32 ELSE imm5>>
    [] ty = 2 -> <<"ASR", IF imm5 = 0 THEN 32 ELSE imm5>>
    [] ty = 3 -> IF imm5 = 0 THEN <<"RRX", 1>> ELSE <<"ROR", imm5>>
RegO2(m, sh)      == [t |-> "reg", m |-> m, st |-> sh[1], sn |-> sh[2]]
DP(enc, op, d, n, S, o2, unp) ==
  [k |-> "dp", enc |-> enc, op |-> op, d |-> d, n |-> n, S |-> S, o2 |-> o2, unp |-> unp]

-----------------------------------------------------------------------------
(* load/store operand records *)
ImmOff(v)      == [t |-> "imm", v |-> <<0, v>>]
RegOff(m, sh)  == [t |-> "reg", m |-> m, st |-> sh[1], sn |-> sh[2]]
LS(enc, load, size, signed, t, n, index, add, wback, off, unpriv, lit, unp) ==
  [k |-> "ls", enc |-> enc, load |-> load, size |-> size, signed |-> signed, t |-> t, n |-> n, index |-> index,
   add |-> add, wback |-> wback, off |-> off, unpriv |-> unpriv, lit |-> lit, unp |-> unp]
LSD(enc, load, t, t2, n, index, add, wback, off, lit, unp) ==
  [k |-> "lsd", enc |-> enc, load |-> load, t |-> t, t2 |-> t2, n |-> n, index |-> index, add |-> add,
   wback |-> wback, off |-> off, lit |-> lit, unp |-> unp]
LSM(enc, load, n, regs, wback, am, unp) ==
  [k |-> IF load THEN "ldm" ELSE "stm", enc |-> enc, n |-> n, regs |-> regs, wback |-> wback, am |-> am, unp |-> unp]
RECURSIVE PopCnt16(_)
PopCnt16(x) == IF x = 0 THEN 0 ELSE (x % 2) + PopCnt16(x \div 2)
RegIn(regs, r) == (regs \div 2^r) % 2 = 1

-----------------------------------------------------------------------------
(* ARM *)
ArmDPReg(w) ==
  LET opc == Slice(w, 24, 21)  S == Bit(w, 20) = 1  n == Slice(w, 19, 16)  d == Slice(w, 15, 12)
      op  == DPNames[opc + 1]
      o2  == RegO2(Slice(w, 3, 0), ImmShift(Slice(w, 6, 5), Slice(w, 11, 7)))
      sbz == (opc \in 8..11 /\ d # 0) \/ (opc \in {13, 15} /\ n # 0)
  IN IF opc \notin 8..11 /\ d = 15 /\ S
     THEN [k |-> "excret", enc |-> "SUBS_PC_LR_r_A1", eret |-> FALSE, op |-> op, n |-> n, o2 |-> o2, unp |-> opc \in {13, 15} /\ n # 0]
     ELSE DP(op \o "_r_A1", op, d, n, S, o2, sbz)
ArmDPRsr(w) ==
  LET opc == Slice(w, 24, 21)  S == Bit(w, 20) = 1  n == Slice(w, 19, 16)  d == Slice(w, 15, 12)
      op  == DPNames[opc + 1]  m == Slice(w, 3, 0)  rs == Slice(w, 11, 8)
      o2  == [t |-> "rsr", m |-> m, st |-> SRNames[Slice(w, 6, 5) + 1], rs |-> rs]
      unp == m = 15 \/ rs = 15 \/ (opc \notin 8..11 /\ d = 15) \/ (opc \notin {13, 15} /\ n = 15) \/
             (opc \in 8..11 /\ d # 0) \/ (opc \in {13, 15} /\ n # 0)
  IN DP(op \o "_rsr_A1", op, d, n, S, o2, unp)
ArmDPImm(w) ==
  LET opc == Slice(w, 24, 21)  S == Bit(w, 20) = 1  n == Slice(w, 19, 16)  d == Slice(w, 15, 12)
      op  == DPNames[opc + 1]
      o2  == [t |-> "aimm", imm12 |-> Slice(w, 11, 0)]
      sbz == (opc \in 8..11 /\ d # 0) \/ (opc \in {13, 15} /\ n # 0)
  IN IF opc \notin 8..11 /\ d = 15 /\ S
     THEN [k |-> "excret", enc |-> "SUBS_PC_LR_i_A1", eret |-> FALSE, op |-> op, n |-> n, o2 |-> o2, unp |-> opc \in {13, 15} /\ n # 0]
     ELSE DP(op \o "_i_A1", op, d, n, S, o2, sbz)


\* A5.3 load/store word and unsigned byte
ArmLSWord(w, dx) ==
  LET A == Bit(w, 25)  P == Bit(w, 24)  U == Bit(w, 23)  B == Bit(w, 22)  W == Bit(w, 21)  L == Bit(w, 20)
      n == Slice(w, 19, 16)  t == Slice(w, 15, 12)  m == Slice(w, 3, 0)
      load == L = 1  size == IF B = 1 THEN 1 ELSE 4
      nm == (IF load THEN "LDR" ELSE "STR") \o (IF B = 1 THEN "B" ELSE "")
      off == IF A = 0 THEN ImmOff(Slice(w, 11, 0)) ELSE RegOff(m, ImmShift(Slice(w, 6, 5), Slice(w, 11, 7)))
      form == IF A = 0 THEN "_i_A1" ELSE "_r_A1"
      tvar == P = 0 /\ W = 1
      wback == P = 0 \/ W = 1
      mbad == A = 1 /\ m = 15
  IN IF tvar
     THEN LS(nm \o "T" \o (IF A = 0 THEN "_A1" ELSE "_A2"), load, size, FALSE, t, n, FALSE, U = 1, TRUE, off, TRUE, FALSE,
             n = 15 \/ n = t \/ mbad \/ (t = 15 /\ ~(B = 0 /\ ~load)) \/ dx.hyp)
     ELSE IF load /\ n = 15 /\ A = 0
     THEN LS(nm \o "_lit_A1", TRUE, size, FALSE, t, 15, TRUE, U = 1, FALSE, off, FALSE, TRUE,
             P = 0 \/ W = 1 \/ (B = 1 /\ t = 15))
     ELSE LS(nm \o form, load, size, FALSE, t, n, P = 1, U = 1, wback, off, FALSE, FALSE,
             mbad \/ (B = 1 /\ t = 15) \/ (wback /\ n = t) \/ ((~load) /\ wback /\ n = 15) \/ (load /\ wback /\ n = 15)
             \/ (A = 1 /\ dx.arch < 6 /\ wback /\ m = n))

\* A5.2.8 extra load/store: halfword, signed, dual
ArmExtraLS(w, dx) ==
  LET P == Bit(w, 24)  U == Bit(w, 23)  I == Bit(w, 22)  W == Bit(w, 21)  L == Bit(w, 20)
      n == Slice(w, 19, 16)  t == Slice(w, 15, 12)  m == Slice(w, 3, 0)  op2 == Slice(w, 6, 5)
      imm8 == Slice(w, 11, 8) * 16 + Slice(w, 3, 0)
      off == IF I = 1 THEN ImmOff(imm8) ELSE RegOff(m, <<"LSL", 0>>)
      form == IF I = 1 THEN "_i_A1" ELSE "_r_A1"
      tvar == P = 0 /\ W = 1
      wback == P = 0 \/ W = 1
      mbad == I = 0 /\ (m = 15 \/ Slice(w, 11, 8) # 0)
      dual == L = 0 /\ op2 \in {2, 3}
  IN IF dual
     THEN LET load == op2 = 2  t2 == (t + 1) % 16
              nm == IF load THEN "LDRD" ELSE "STRD" IN
          IF load /\ n = 15 /\ I = 1
          THEN LSD("LDRD_lit_A1", TRUE, t, t2, 15, TRUE, U = 1, FALSE, off, TRUE, t % 2 = 1 \/ t2 = 15 \/ P = 0 \/ W = 1)
          ELSE LSD(nm \o form, load, t, t2, n, P = 1, U = 1, wback, off, FALSE,
                   t % 2 = 1 \/ tvar \/ t2 = 15 \/ mbad \/ (wback /\ (n = t \/ n = t2)) \/ (wback /\ n = 15)
                   \/ (load /\ I = 0 /\ (m = t \/ m = t2)) \/ (I = 0 /\ dx.arch < 6 /\ wback /\ m = n))
     ELSE LET load == L = 1
              size == IF op2 = 2 THEN 1 ELSE 2
              signed == op2 \in {2, 3}
              nm == IF ~load THEN "STRH" ELSE IF op2 = 1 THEN "LDRH" ELSE IF op2 = 2 THEN "LDRSB" ELSE "LDRSH" IN
          IF tvar
          THEN LS(nm \o "T" \o (IF I = 1 THEN "_A1" ELSE "_A2"), load, size, signed, t, n, FALSE, U = 1, TRUE, off, TRUE, FALSE,
                  t = 15 \/ n = 15 \/ n = t \/ mbad \/ dx.hyp)
          ELSE IF load /\ n = 15 /\ I = 1
          THEN LS(nm \o "_lit_A1", TRUE, size, signed, t, 15, TRUE, U = 1, FALSE, off, FALSE, TRUE, P = W \/ t = 15)
          ELSE LS(nm \o form, load, size, signed, t, n, P = 1, U = 1, wback, off, FALSE, FALSE,
                  t = 15 \/ mbad \/ (wback /\ (n = 15 \/ n = t)) \/ (I = 0 /\ dx.arch < 6 /\ wback /\ m = n))

\* A5.5 block data transfer
ArmLSM(w, dx) ==
  LET P == Bit(w, 24)  U == Bit(w, 23)  S == Bit(w, 22)  W == Bit(w, 21)  L == Bit(w, 20)
      n == Slice(w, 19, 16)  regs == Lo(w)
      am == IF P = 0 THEN (IF U = 1 THEN "IA" ELSE "DA") ELSE (IF U = 1 THEN "IB" ELSE "DB")
      nm == (IF L = 1 THEN "LDM" ELSE "STM") \o am
  IN IF S = 1
     THEN IF L = 1 /\ RegIn(regs, 15)
          THEN [k |-> "ldmx", enc |-> "LDM_excret_A1", kind |-> "excret", n |-> n, regs |-> regs % 32768, wback |-> W = 1, am |-> am,
                unp |-> n = 15 \/ (W = 1 /\ RegIn(regs, n) /\ dx.arch >= 7)]
          ELSE IF L = 1
          THEN [k |-> "ldmx", enc |-> "LDM_user_A1", kind |-> "user", n |-> n, regs |-> regs, wback |-> FALSE, am |-> am,
                unp |-> n = 15 \/ PopCnt16(regs) < 1 \/ W = 1]
          ELSE [k |-> "stmu", enc |-> "STM_user_A1", n |-> n, regs |-> regs, wback |-> FALSE, am |-> am,
                unp |-> n = 15 \/ PopCnt16(regs) < 1 \/ W = 1]
     ELSE LSM(nm \o "_A1", L = 1, n, regs, W = 1, am,
              n = 15 \/ PopCnt16(regs) < 1 \/ (L = 1 /\ W = 1 /\ RegIn(regs, n) /\ dx.arch >= 7))

ArmMisc(w) ==
  LET op2 == Slice(w, 6, 4)  op == Slice(w, 22, 21)  m == Slice(w, 3, 0)
      sbo == Slice(w, 19, 8) = 4095
  IN CASE op2 = 0 /\ Bit(w, 9) = 0 /\ op % 2 = 0 ->
            [k |-> "mrs", enc |-> "MRS_A1", spsr |-> Bit(w, 22) = 1, d |-> Slice(w, 15, 12),
             unp |-> Slice(w, 15, 12) = 15 \/ Slice(w, 19, 16) # 15 \/ Slice(w, 11, 0) # 0]
       [] op2 = 0 /\ Bit(w, 9) = 0 /\ op % 2 = 1 ->
            [k |-> "msr", enc |-> "MSR_r_A1", spsr |-> Bit(w, 22) = 1, mask |-> Slice(w, 19, 16),
             src |-> [t |-> "reg", n |-> m],
             unp |-> m = 15 \/ Slice(w, 19, 16) = 0 \/ Slice(w, 15, 12) # 15 \/ Slice(w, 11, 8) # 0]
       [] op2 = 7 /\ op = 3 -> [k |-> "smc", enc |-> "SMC_A1", unp |-> Slice(w, 19, 8) # 0]
       \* ERET A1 belongs to the Virtualization Extensions, which the emulator documents as not implemented in ARM state
       [] op2 = 6 /\ op = 3 -> Unspec("arm-eret-virt-ext")
       [] op2 = 1 /\ op = 1 -> [k |-> "bx", enc |-> "BX_A1", m |-> m, unp |-> ~sbo]
       [] op2 = 3 /\ op = 1 -> [k |-> "blxr", enc |-> "BLX_r_A1", m |-> m, unp |-> m = 15 \/ ~sbo]
       [] OTHER -> Unspec("arm-misc")

ArmDPMisc(w, dx) ==
  LET op == Bit(w, 25)  op1 == Slice(w, 24, 20)  op2 == Slice(w, 7, 4)
      is10xx0 == (op1 \div 8 = 2) /\ (op1 % 2 = 0)
  IN IF op = 0
     THEN IF ~is10xx0
          THEN IF op2 % 2 = 0 THEN ArmDPReg(w)
               ELSE IF op2 \div 8 = 0 THEN ArmDPRsr(w)
               ELSE IF op2 = 9 THEN Unspec("arm-mul-sync")
               ELSE ArmExtraLS(w, dx)
          ELSE IF op2 \div 8 = 0 THEN ArmMisc(w)
               ELSE IF op2 % 2 = 0 THEN Unspec("arm-hmul")
               ELSE IF op2 = 9 THEN Unspec("arm-sync")
               ELSE ArmExtraLS(w, dx)
     ELSE IF ~is10xx0 THEN ArmDPImm(w)
          ELSE CASE op1 = 16 -> [k |-> "movw", enc |-> "MOVW_A2", d |-> Slice(w, 15, 12),
                                 imm16 |-> Slice(w, 19, 16) * 4096 + Slice(w, 11, 0), unp |-> Slice(w, 15, 12) = 15]
                 [] op1 = 20 -> [k |-> "movt", enc |-> "MOVT_A1", d |-> Slice(w, 15, 12),
                                 imm16 |-> Slice(w, 19, 16) * 4096 + Slice(w, 11, 0), unp |-> Slice(w, 15, 12) = 15]
                 [] OTHER    ->                       \* 10x10: MSR (immediate) and hints
                      LET R == Bit(w, 22)  mask == Slice(w, 19, 16)  h == Slice(w, 7, 0) IN
                      IF R = 0 /\ mask = 0
                      THEN (IF h \in 0..4
                            THEN [k |-> "hint", enc |-> "HINT_A1", h |-> <<"NOP", "YIELD", "WFE", "WFI", "SEV">>[h + 1],
                                  unp |-> Slice(w, 15, 8) # 240]
                            ELSE Unspec("arm-hint-dbg-unallocated"))
                      ELSE [k |-> "msr", enc |-> "MSR_i_A1", spsr |-> R = 1, mask |-> mask,
                            src |-> [t |-> "aimm", imm12 |-> Slice(w, 11, 0)],
                            unp |-> mask = 0 \/ Slice(w, 15, 12) # 15]

ArmBranchBlock(w, dx) ==
  IF Bit(w, 25) = 1
  THEN LET imm == SignExtW(LSLw(ExtractW(w, 23, 0), 2), 26)
       IN IF Bit(w, 24) = 0 THEN [k |-> "b", enc |-> "B_A1", imm |-> imm, unp |-> FALSE]
          ELSE [k |-> "bl", enc |-> "BL_A1", imm |-> imm, tiset |-> "ARM", unp |-> FALSE]
  ELSE ArmLSM(w, dx)

ArmUncond(w) ==
  LET op1 == Slice(w, 27, 20) IN
  IF op1 = 16 /\ Bit(w, 16) = 0 /\ Bit(w, 5) = 0
  THEN LET imod == Slice(w, 19, 18)  Mb == Bit(w, 17)  aif == Slice(w, 8, 6)  mode == Slice(w, 4, 0) IN
       [k |-> "cps", enc |-> "CPS_A1", enable |-> imod = 2, disable |-> imod = 3, a |-> Bit(w, 8) = 1, i_ |-> Bit(w, 7) = 1,
        f |-> Bit(w, 6) = 1, changemode |-> Mb = 1, mode |-> mode,
        unp |-> (mode # 0 /\ Mb = 0) \/ (imod \div 2 = 1 /\ aif = 0) \/ (imod \div 2 = 0 /\ aif # 0) \/
                (imod = 0 /\ Mb = 0) \/ imod = 1 \/ Slice(w, 15, 9) # 0]
  ELSE IF op1 = 16 /\ Bit(w, 16) = 1 /\ Slice(w, 7, 4) = 0
  THEN [k |-> "setend", enc |-> "SETEND_A1", e |-> Bit(w, 9), unp |-> Slice(w, 19, 17) # 0 \/ Slice(w, 15, 10) # 0 \/ Slice(w, 8, 8) # 0 \/ Slice(w, 3, 0) # 0]
  ELSE IF Slice(w, 27, 25) = 4 /\ Bit(w, 22) = 1 /\ Bit(w, 20) = 0
  THEN [k |-> "srs", enc |-> "SRS_A1", mode |-> Slice(w, 4, 0), wback |-> Bit(w, 21) = 1, inc |-> Bit(w, 23) = 1,
        wordhigher |-> Bit(w, 24) = Bit(w, 23), unp |-> Slice(w, 19, 5) # 26664]
  ELSE IF Slice(w, 27, 25) = 4 /\ Bit(w, 22) = 0 /\ Bit(w, 20) = 1
  THEN [k |-> "rfe", enc |-> "RFE_A1", n |-> Slice(w, 19, 16), wback |-> Bit(w, 21) = 1, inc |-> Bit(w, 23) = 1,
        wordhigher |-> Bit(w, 24) = Bit(w, 23), unp |-> Slice(w, 19, 16) = 15 \/ Lo(w) # 2560]
  ELSE IF Slice(w, 27, 25) = 5
  THEN [k |-> "bl", enc |-> "BLX_i_A2", tiset |-> "THUMB", unp |-> FALSE,
        imm |-> SignExtW(WOr(LSLw(ExtractW(w, 23, 0), 2), <<0, Bit(w, 24) * 2>>), 26)]
  ELSE Unspec("arm-unconditional")

ArmDecode(w, dx) ==
  LET cond == Slice(w, 31, 28)  op1 == Slice(w, 27, 25) IN
  IF cond = 15 THEN ArmUncond(w)
  ELSE CASE op1 \in {0, 1} -> ArmDPMisc(w, dx)
         [] op1 = 2 -> ArmLSWord(w, dx)
         [] op1 = 3 -> IF Bit(w, 4) = 0 THEN ArmLSWord(w, dx) ELSE Unspec("arm-media")
         [] op1 \in {4, 5} -> ArmBranchBlock(w, dx)
         [] op1 \in {6, 7} -> IF Slice(w, 25, 24) = 3 THEN [k |-> "svc", enc |-> "SVC_A1", imm |-> Lo(w), unp |-> FALSE]
                               ELSE Unspec("arm-coproc")

-----------------------------------------------------------------------------
(* Thumb, 16-bit.  h is the halfword as a Nat. *)
Bits(h, hi, lo) == (h \div 2^lo) % 2^(hi - lo + 1)
ImmO2(v) == [t |-> "imm", v |-> <<0, v>>]
LowReg(m) == RegO2(m, <<"LSL", 0>>)

T16ShiftAddSubMovCmp(h, dx) ==
  LET opc == Bits(h, 13, 9)  notIT == ~InITBlock(dx.it)
      rd == Bits(h, 2, 0)  rm3 == Bits(h, 5, 3)  imm5 == Bits(h, 10, 6)  r8 == Bits(h, 10, 8)  imm8 == Bits(h, 7, 0)
  IN CASE opc \div 4 = 0 ->
            IF imm5 = 0 THEN DP("MOV_r_T2", "MOV", rd, 0, TRUE, LowReg(rm3), InITBlock(dx.it))
            ELSE DP("LSL_i_T1", "MOV", rd, 0, notIT, RegO2(rm3, ImmShift(0, imm5)), FALSE)
       [] opc \div 4 = 1 -> DP("LSR_i_T1", "MOV", rd, 0, notIT, RegO2(rm3, ImmShift(1, imm5)), FALSE)
       [] opc \div 4 = 2 -> DP("ASR_i_T1", "MOV", rd, 0, notIT, RegO2(rm3, ImmShift(2, imm5)), FALSE)
       [] opc = 12 -> DP("ADD_r_T1", "ADD", rd, rm3, notIT, LowReg(Bits(h, 8, 6)), FALSE)
       [] opc = 13 -> DP("SUB_r_T1", "SUB", rd, rm3, notIT, LowReg(Bits(h, 8, 6)), FALSE)
       [] opc = 14 -> DP("ADD_i_T1", "ADD", rd, rm3, notIT, ImmO2(Bits(h, 8, 6)), FALSE)
       [] opc = 15 -> DP("SUB_i_T1", "SUB", rd, rm3, notIT, ImmO2(Bits(h, 8, 6)), FALSE)
       [] opc \div 4 = 4 -> DP("MOV_i_T1", "MOV", r8, 0, notIT, ImmO2(imm8), FALSE)
       [] opc \div 4 = 5 -> DP("CMP_i_T1", "CMP", 0, r8, TRUE, ImmO2(imm8), FALSE)
       [] opc \div 4 = 6 -> DP("ADD_i_T2", "ADD", r8, r8, notIT, ImmO2(imm8), FALSE)
       [] opc \div 4 = 7 -> DP("SUB_i_T2", "SUB", r8, r8, notIT, ImmO2(imm8), FALSE)

T16DP(h, dx) ==
  LET opc == Bits(h, 9, 6)  rdn == Bits(h, 2, 0)  rm == Bits(h, 5, 3)  notIT == ~InITBlock(dx.it)
      rsr(st) == [t |-> "rsr", m |-> rdn, st |-> st, rs |-> rm]
  IN CASE opc = 0  -> DP("AND_r_T1", "AND", rdn, rdn, notIT, LowReg(rm), FALSE)
       [] opc = 1  -> DP("EOR_r_T1", "EOR", rdn, rdn, notIT, LowReg(rm), FALSE)
       [] opc = 2  -> DP("LSL_r_T1", "MOV", rdn, 0, notIT, rsr("LSL"), FALSE)
       [] opc = 3  -> DP("LSR_r_T1", "MOV", rdn, 0, notIT, rsr("LSR"), FALSE)
       [] opc = 4  -> DP("ASR_r_T1", "MOV", rdn, 0, notIT, rsr("ASR"), FALSE)
       [] opc = 5  -> DP("ADC_r_T1", "ADC", rdn, rdn, notIT, LowReg(rm), FALSE)
       [] opc = 6  -> DP("SBC_r_T1", "SBC", rdn, rdn, notIT, LowReg(rm), FALSE)
       [] opc = 7  -> DP("ROR_r_T1", "MOV", rdn, 0, notIT, rsr("ROR"), FALSE)
       [] opc = 8  -> DP("TST_r_T1", "TST", 0, rdn, TRUE, LowReg(rm), FALSE)
       [] opc = 9  -> DP("RSB_i_T1", "RSB", rdn, rm, notIT, ImmO2(0), FALSE)
       [] opc = 10 -> DP("CMP_r_T1", "CMP", 0, rdn, TRUE, LowReg(rm), FALSE)
       [] opc = 11 -> DP("CMN_r_T1", "CMN", 0, rdn, TRUE, LowReg(rm), FALSE)
       [] opc = 12 -> DP("ORR_r_T1", "ORR", rdn, rdn, notIT, LowReg(rm), FALSE)
       [] opc = 13 -> Unspec("t16-mul")
       [] opc = 14 -> DP("BIC_r_T1", "BIC", rdn, rdn, notIT, LowReg(rm), FALSE)
       [] opc = 15 -> DP("MVN_r_T1", "MVN", rdn, 0, notIT, LowReg(rm), FALSE)

T16Special(h, dx) ==
  LET opc == Bits(h, 9, 6)  rm == Bits(h, 6, 3)  dn == Bits(h, 7, 7) * 8 + Bits(h, 2, 0)
      midIT == InITBlock(dx.it) /\ ~LastInITBlock(dx.it)
  IN CASE opc \div 4 = 0 -> DP("ADD_r_T2", "ADD", dn, dn, FALSE, LowReg(rm), (dn = 15 /\ rm = 15) \/ (dn = 15 /\ midIT))
       [] opc = 4 -> [k |-> "unpred", enc |-> "T16-special-0100", unp |-> TRUE]
       [] opc \in {5, 6, 7} -> DP("CMP_r_T2", "CMP", 0, dn, TRUE, LowReg(rm), (dn < 8 /\ rm < 8) \/ dn = 15 \/ rm = 15)
       [] opc \div 4 = 2 -> DP("MOV_r_T1", "MOV", dn, 0, FALSE, LowReg(rm),
                               (dn = 15 /\ midIT) \/ (dx.arch < 6 /\ dn < 8 /\ rm < 8))
       [] opc \in {12, 13} -> [k |-> "bx", enc |-> "BX_T1", m |-> rm, unp |-> midIT \/ Bits(h, 2, 0) # 0]
       [] opc \in {14, 15} -> [k |-> "blxr", enc |-> "BLX_r_T1", m |-> rm, unp |-> rm = 15 \/ midIT \/ Bits(h, 2, 0) # 0]


T16LSSingle(h, dx) ==
  LET opA == Bits(h, 15, 12)  opB == Bits(h, 11, 9)
      rt == Bits(h, 2, 0)  rn == Bits(h, 5, 3)  rm == Bits(h, 8, 6)  imm5 == Bits(h, 10, 6)  L == Bits(h, 11, 11) = 1
      reg == RegOff(rm, <<"LSL", 0>>)
      mk(enc, load, size, signed, off) == LS(enc, load, size, signed, rt, rn, TRUE, TRUE, FALSE, off, FALSE, FALSE, FALSE)
  IN CASE opA = 5 ->
            (CASE opB = 0 -> mk("STR_r_T1", FALSE, 4, FALSE, reg) [] opB = 1 -> mk("STRH_r_T1", FALSE, 2, FALSE, reg)
               [] opB = 2 -> mk("STRB_r_T1", FALSE, 1, FALSE, reg) [] opB = 3 -> mk("LDRSB_r_T1", TRUE, 1, TRUE, reg)
               [] opB = 4 -> mk("LDR_r_T1", TRUE, 4, FALSE, reg) [] opB = 5 -> mk("LDRH_r_T1", TRUE, 2, FALSE, reg)
               [] opB = 6 -> mk("LDRB_r_T1", TRUE, 1, FALSE, reg) [] opB = 7 -> mk("LDRSH_r_T1", TRUE, 2, TRUE, reg))
       [] opA = 6 -> mk(IF L THEN "LDR_i_T1" ELSE "STR_i_T1", L, 4, FALSE, ImmOff(imm5 * 4))
       [] opA = 7 -> mk(IF L THEN "LDRB_i_T1" ELSE "STRB_i_T1", L, 1, FALSE, ImmOff(imm5))
       [] opA = 8 -> mk(IF L THEN "LDRH_i_T1" ELSE "STRH_i_T1", L, 2, FALSE, ImmOff(imm5 * 2))
       [] opA = 9 -> LS(IF L THEN "LDR_i_T2" ELSE "STR_i_T2", L, 4, FALSE, Bits(h, 10, 8), 13, TRUE, TRUE, FALSE,
                        ImmOff(Bits(h, 7, 0) * 4), FALSE, FALSE, FALSE)
T16LSM(h, dx) ==
  LET L == Bits(h, 11, 11) = 1  n == Bits(h, 10, 8)  regs == Bits(h, 7, 0)
  IN IF L THEN LSM("LDM_T1", TRUE, n, regs, ~RegIn(regs, n), "IA", regs = 0)
     ELSE LSM("STM_T1", FALSE, n, regs, TRUE, "IA", regs = 0)

T16Misc(h, dx) ==
  LET o == Bits(h, 11, 5) IN
  CASE o \div 4 = 0 -> DP("ADD_SP_i_T2", "ADD", 13, 13, FALSE, ImmO2(Bits(h, 6, 0) * 4), FALSE)
    [] o \div 4 = 1 -> DP("SUB_SP_i_T1", "SUB", 13, 13, FALSE, ImmO2(Bits(h, 6, 0) * 4), FALSE)
    [] Bits(h, 10, 10) = 0 /\ Bits(h, 8, 8) = 1 ->
         [k |-> "cbz", enc |-> "CBZ_T1", n |-> Bits(h, 2, 0), nonzero |-> Bits(h, 11, 11) = 1,
          imm |-> <<0, (Bits(h, 9, 9) * 32 + Bits(h, 7, 3)) * 2>>, unp |-> InITBlock(dx.it)]
    [] Bits(h, 11, 9) = 2 -> LSM("PUSH_T1", FALSE, 13, Bits(h, 8, 8) * 16384 + Bits(h, 7, 0), TRUE, "DB",
                                 Bits(h, 8, 0) = 0)
    [] Bits(h, 11, 9) = 6 -> LSM("POP_T1", TRUE, 13, Bits(h, 8, 8) * 32768 + Bits(h, 7, 0), TRUE, "IA",
                                 Bits(h, 8, 0) = 0 \/ (Bits(h, 8, 8) = 1 /\ InITBlock(dx.it) /\ ~LastInITBlock(dx.it)))
    [] Bits(h, 11, 8) = 15 ->
         IF Bits(h, 3, 0) # 0
         THEN [k |-> "it", enc |-> "IT_T1", fc |-> Bits(h, 7, 4), mask |-> Bits(h, 3, 0),
               unp |-> ~ITLegal(Bits(h, 7, 4), Bits(h, 3, 0)) \/ InITBlock(dx.it)]
         ELSE IF Bits(h, 7, 4) \in 0..4
              THEN [k |-> "hint", enc |-> "HINT_T1", h |-> <<"NOP", "YIELD", "WFE", "WFI", "SEV">>[Bits(h, 7, 4) + 1], unp |-> FALSE]
              ELSE Unspec("t16-hints-unallocated")
    [] Bits(h, 11, 5) = 50 -> [k |-> "setend", enc |-> "SETEND_T1", e |-> Bits(h, 3, 3),
                               unp |-> InITBlock(dx.it) \/ Bits(h, 4, 4) # 1 \/ Bits(h, 2, 0) # 0]
    [] Bits(h, 11, 5) = 51 -> [k |-> "cps", enc |-> "CPS_T1", enable |-> Bits(h, 4, 4) = 0, disable |-> Bits(h, 4, 4) = 1,
                               a |-> Bits(h, 2, 2) = 1, i_ |-> Bits(h, 1, 1) = 1, f |-> Bits(h, 0, 0) = 1,
                               changemode |-> FALSE, mode |-> 0,
                               unp |-> InITBlock(dx.it) \/ Bits(h, 2, 0) = 0 \/ Bits(h, 3, 3) # 0]
    [] OTHER -> Unspec("t16-misc")

T16CondBranchSvc(h, dx) ==
  LET cond == Bits(h, 11, 8) IN
  CASE cond = 14 -> [k |-> "undef", enc |-> "UDF_T1", unp |-> FALSE]
    [] cond = 15 -> [k |-> "svc", enc |-> "SVC_T1", imm |-> Bits(h, 7, 0), unp |-> FALSE]
    [] OTHER -> [k |-> "b", enc |-> "B_T1", cond |-> cond, imm |-> SignExtN(Bits(h, 7, 0) * 2, 9), unp |-> InITBlock(dx.it)]

T16Decode(h, dx) ==
  LET opc == Bits(h, 15, 10) IN
  CASE opc \div 16 = 0 -> T16ShiftAddSubMovCmp(h, dx)
    [] opc = 16 -> T16DP(h, dx)
    [] opc = 17 -> T16Special(h, dx)
    [] opc \div 2 = 9 -> LS("LDR_lit_T1", TRUE, 4, FALSE, Bits(h, 10, 8), 15, TRUE, TRUE, FALSE, ImmOff(Bits(h, 7, 0) * 4),
                             FALSE, TRUE, FALSE)
    [] opc \div 4 = 5 \/ opc \div 8 = 3 \/ opc \div 8 = 4 -> T16LSSingle(h, dx)
    [] opc \div 2 = 20 -> [k |-> "adr", enc |-> "ADR_T1", d |-> Bits(h, 10, 8), add |-> TRUE,
                           imm |-> <<0, Bits(h, 7, 0) * 4>>, unp |-> FALSE]
    [] opc \div 2 = 21 -> DP("ADD_SP_i_T1", "ADD", Bits(h, 10, 8), 13, FALSE, ImmO2(Bits(h, 7, 0) * 4), FALSE)
    [] opc \div 4 = 11 -> T16Misc(h, dx)
    [] opc \div 2 = 24 \/ opc \div 2 = 25 -> T16LSM(h, dx)
    [] opc \div 4 = 13 -> T16CondBranchSvc(h, dx)
    [] opc \div 2 = 28 -> [k |-> "b", enc |-> "B_T2", imm |-> SignExtN(Bits(h, 10, 0) * 2, 12),
                           unp |-> InITBlock(dx.it) /\ ~LastInITBlock(dx.it)]
    [] OTHER -> Unspec("t16-other")

-----------------------------------------------------------------------------
(* Thumb, 32-bit.  w = hw1:hw2 as a word *)
T32ModImmOps == [o \in 0..15 |-> CASE o = 0 -> "AND" [] o = 1 -> "BIC" [] o = 2 -> "ORR" [] o = 3 -> "ORN"
                                   [] o = 4 -> "EOR" [] o = 8 -> "ADD" [] o = 10 -> "ADC" [] o = 11 -> "SBC"
                                   [] o = 13 -> "SUB" [] o = 14 -> "RSB" [] OTHER -> "none"]
\* common register rules of the 32-bit Thumb data-processing encodings (BadReg = SP or PC)
BadReg(r) == r \in {13, 15}
T32DPCommon(enc0, o, S, n, d, o2, shifted) ==
  LET base == T32ModImmOps[o] IN
  IF base = "none" THEN Undef
  ELSE
  LET isTest == d = 15 /\ S /\ o \in {0, 4, 8, 13}
      op == IF isTest THEN (CASE o = 0 -> "TST" [] o = 4 -> "TEQ" [] o = 8 -> "CMN" [] o = 13 -> "CMP")
            ELSE IF n = 15 /\ o = 2 THEN "MOV" ELSE IF n = 15 /\ o = 3 THEN "MVN" ELSE base
      spOK == o \in {8, 13} /\ n = 13            \* ADD/SUB/CMN/CMP (SP plus ...)
      unp == IF isTest THEN (n = 15 \/ (n = 13 /\ ~spOK)) \/ (shifted /\ BadReg(o2.m))
             ELSE IF op \in {"MOV", "MVN"} THEN BadReg(d) \/ (shifted /\ BadReg(o2.m))
             ELSE (d = 13 /\ ~spOK) \/ d = 15 \/ n = 15 \/ (n = 13 /\ ~spOK) \/ (shifted /\ BadReg(o2.m))
                  \/ (spOK /\ d = 13 /\ shifted /\ (o2.st # "LSL" \/ o2.sn > 3))
  IN DP(op \o enc0, op, d, n, S, o2, unp)

T32DPModImm(w) ==
  LET o == Slice(w, 24, 21)  S == Bit(w, 20) = 1  n == Slice(w, 19, 16)  d == Slice(w, 11, 8)
      imm12 == Bit(w, 26) * 2048 + Slice(w, 14, 12) * 256 + Slice(w, 7, 0)
  IN T32DPCommon("_i_T32", o, S, n, d, [t |-> "timm", imm12 |-> imm12], FALSE)
T32DPShiftedReg(w) ==
  LET o == Slice(w, 24, 21)  S == Bit(w, 20) = 1  n == Slice(w, 19, 16)  d == Slice(w, 11, 8)
      sh == ImmShift(Slice(w, 5, 4), Slice(w, 14, 12) * 4 + Slice(w, 7, 6))
  IN IF o = 6 THEN Unspec("t32-pkh")
     ELSE T32DPCommon("_r_T32", o, S, n, d, RegO2(Slice(w, 3, 0), sh), TRUE)

T32DPPlainImm(w) ==
  LET o == Slice(w, 24, 20)  n == Slice(w, 19, 16)  d == Slice(w, 11, 8)
      imm12 == Bit(w, 26) * 2048 + Slice(w, 14, 12) * 256 + Slice(w, 7, 0)
      imm16 == Slice(w, 19, 16) * 4096 + imm12
  IN CASE o = 0  -> IF n = 15 THEN [k |-> "adr", enc |-> "ADR_T3", d |-> d, add |-> TRUE, imm |-> <<0, imm12>>, unp |-> BadReg(d)]
                    ELSE DP("ADDW_T4", "ADD", d, n, FALSE, ImmO2(imm12), (d = 13 /\ n # 13) \/ d = 15)
       [] o = 10 -> IF n = 15 THEN [k |-> "adr", enc |-> "ADR_T2", d |-> d, add |-> FALSE, imm |-> <<0, imm12>>, unp |-> BadReg(d)]
                    ELSE DP("SUBW_T4", "SUB", d, n, FALSE, ImmO2(imm12), (d = 13 /\ n # 13) \/ d = 15)
       [] o = 4  -> [k |-> "movw", enc |-> "MOVW_T3", d |-> d, imm16 |-> imm16, unp |-> BadReg(d)]
       [] o = 12 -> [k |-> "movt", enc |-> "MOVT_T1", d |-> d, imm16 |-> imm16, unp |-> BadReg(d)]
       [] OTHER  -> Unspec("t32-sat-bitfield")


\* A6.3.7-10 load/store single data item: 1111 100 S U size L Rn Rt ...
T32LSSingle(w, dx) ==
  LET S == Bit(w, 24)  U == Bit(w, 23)  sz == Slice(w, 22, 21)  L == Bit(w, 20)
      n == Slice(w, 19, 16)  t == Slice(w, 15, 12)  m == Slice(w, 3, 0)
      load == L = 1  size == IF sz = 0 THEN 1 ELSE IF sz = 1 THEN 2 ELSE 4  signed == S = 1
      nm == (IF load THEN "LDR" ELSE "STR") \o (IF signed THEN "S" ELSE "") \o (IF sz = 0 THEN "B" ELSE IF sz = 1 THEN "H" ELSE "")
      midIT == InITBlock(dx.it) /\ ~LastInITBlock(dx.it)
      \* (word stores of SP through the imm8/register forms: not certain they are predictable -> envelope only)
      tbad == IF size = 4 THEN (IF load THEN (t = 15 /\ midIT) ELSE (t = 15 \/ (t = 13 /\ U = 0))) ELSE BadReg(t)
  IN IF sz = 3 \/ (signed /\ ~load) \/ (signed /\ sz = 2) THEN Undef
     ELSE IF (~load) /\ n = 15 THEN Undef
     ELSE IF load /\ size < 4 /\ t = 15 THEN Unspec("t32-memory-hints")
     ELSE IF load /\ n = 15
          THEN LS(nm \o "_lit_T", TRUE, size, signed, t, 15, TRUE, U = 1, FALSE, ImmOff(Slice(w, 11, 0)), FALSE, TRUE,
                  tbad \/ (size < 4 /\ t = 13))
     ELSE IF U = 1
          THEN LS(nm \o "_i12_T", load, size, signed, t, n, TRUE, TRUE, FALSE, ImmOff(Slice(w, 11, 0)), FALSE, FALSE, tbad)
     ELSE IF Bit(w, 11) = 1
          THEN LET P == Bit(w, 10)  UU == Bit(w, 9)  W == Bit(w, 8) IN
               IF P = 0 /\ W = 0 THEN Undef
               ELSE IF P = 1 /\ UU = 1 /\ W = 0
                    THEN LS(nm \o "T_T1", load, size, signed, t, n, TRUE, TRUE, FALSE, ImmOff(Slice(w, 7, 0)), TRUE, FALSE,
                            BadReg(t) \/ dx.hyp)
                    ELSE LS(nm \o "_i8_T", load, size, signed, t, n, P = 1, UU = 1, W = 1, ImmOff(Slice(w, 7, 0)), FALSE, FALSE,
                            tbad \/ (W = 1 /\ n = t))
     ELSE IF Slice(w, 10, 6) = 0
          THEN LS(nm \o "_r_T2", load, size, signed, t, n, TRUE, TRUE, FALSE, RegOff(m, <<"LSL", Slice(w, 5, 4)>>), FALSE, FALSE,
                  tbad \/ BadReg(m))
     ELSE Undef

\* A6.3.6 load/store dual, table branch (exclusives are not specified yet)
T32DualExclTB(w, dx) ==
  LET P == Bit(w, 24)  U == Bit(w, 23)  W == Bit(w, 21)  L == Bit(w, 20)
      n == Slice(w, 19, 16)  t == Slice(w, 15, 12)  t2 == Slice(w, 11, 8)
      wback == W = 1
  IN IF P = 0 /\ W = 0
     THEN IF Slice(w, 24, 20) = 13 /\ Slice(w, 7, 5) = 0
          THEN [k |-> "tb", enc |-> IF Bit(w, 4) = 1 THEN "TBH_T1" ELSE "TBB_T1", n |-> n, m |-> Slice(w, 3, 0),
                half |-> Bit(w, 4) = 1,
                unp |-> n = 13 \/ BadReg(Slice(w, 3, 0)) \/ (InITBlock(dx.it) /\ ~LastInITBlock(dx.it)) \/ Slice(w, 15, 8) # 240]
          ELSE Unspec("t32-exclusive")
     ELSE IF L = 1 /\ n = 15
          THEN LSD("LDRD_lit_T1", TRUE, t, t2, 15, TRUE, U = 1, FALSE, ImmOff(Slice(w, 7, 0) * 4), TRUE,
                   BadReg(t) \/ BadReg(t2) \/ t = t2 \/ W = 1)
     ELSE LSD(IF L = 1 THEN "LDRD_i_T1" ELSE "STRD_i_T1", L = 1, t, t2, n, P = 1, U = 1, wback, ImmOff(Slice(w, 7, 0) * 4), FALSE,
              (wback /\ (n = t \/ n = t2)) \/ BadReg(t) \/ BadReg(t2) \/ (L = 1 /\ t = t2) \/ (L = 0 /\ n = 15))

\* A6.3.5 load/store multiple
T32LSM(w, dx) ==
  LET op == Slice(w, 24, 23)  W == Bit(w, 21)  L == Bit(w, 20)  n == Slice(w, 19, 16)
      regs == Lo(w)  P == Bit(w, 15)  Mb == Bit(w, 14)
      midIT == InITBlock(dx.it) /\ ~LastInITBlock(dx.it)
  IN IF op \in {0, 3}
     THEN IF L = 1
          THEN [k |-> "rfe", enc |-> "RFE_T", n |-> n, wback |-> W = 1, inc |-> op = 3, wordhigher |-> FALSE,
                unp |-> n = 15 \/ Lo(w) # 49152 \/ midIT]
          ELSE [k |-> "srs", enc |-> "SRS_T", mode |-> Slice(w, 4, 0), wback |-> W = 1, inc |-> op = 3, wordhigher |-> FALSE,
                unp |-> n # 13 \/ Slice(w, 15, 5) # 1536]
     ELSE LET am == IF op = 1 THEN "IA" ELSE "DB"
              nm == (IF L = 1 THEN "LDM" ELSE "STM") \o am \o "_T2" IN
          IF L = 1
          THEN LSM(nm, TRUE, n, regs, W = 1, am,
                   n = 15 \/ PopCnt16(regs) < 2 \/ (P = 1 /\ Mb = 1) \/ Bit(w, 13) = 1 \/ (P = 1 /\ midIT) \/ (W = 1 /\ RegIn(regs, n)))
          ELSE LSM(nm, FALSE, n, regs, W = 1, am,
                   n = 15 \/ PopCnt16(regs) < 2 \/ P = 1 \/ Bit(w, 13) = 1 \/ (W = 1 /\ RegIn(regs, n)))

T32BranchMisc(w, dx) ==
  LET op1 == Slice(w, 14, 12)  op == Slice(w, 26, 20)
      S == Bit(w, 26)  J1 == Bit(w, 13)  J2 == Bit(w, 11)
      I1 == 1 - ((J1 + S) % 2)  I2 == 1 - ((J2 + S) % 2)
      midIT == InITBlock(dx.it) /\ ~LastInITBlock(dx.it)
      midITx == midIT
      \* S:I1:I2:imm10:imm11:'0' as a 25-bit quantity in a word
      off25 == WOr(WOr(<<S * 256 + I1 * 128 + I2 * 64, 0>>, LSLw(<<0, Slice(w, 25, 16)>>, 12)),
                   <<0, Slice(w, 10, 0) * 2>>)
  IN CASE op1 \in {0, 2} ->
            IF (op \div 8) % 8 # 7
            THEN [k |-> "b", enc |-> "B_T3", cond |-> Slice(w, 25, 22), unp |-> InITBlock(dx.it),
                  imm |-> SignExtW(WOr(WOr(<<S * 16 + J2 * 8 + J1 * 4, 0>>, LSLw(<<0, Slice(w, 21, 16)>>, 12)),
                                       <<0, Slice(w, 10, 0) * 2>>), 21)]
            ELSE CASE op \in {56, 57} ->
                        [k |-> "msr", enc |-> "MSR_r_T1", spsr |-> Bit(w, 20) = 1, mask |-> Slice(w, 11, 8),
                         src |-> [t |-> "reg", n |-> Slice(w, 19, 16)],
                         unp |-> Slice(w, 11, 8) = 0 \/ BadReg(Slice(w, 19, 16)) \/ Slice(w, 7, 0) # 0 \/ Bit(w, 13) # 0]
                   [] op = 58 /\ Slice(w, 10, 8) = 0 ->
                        IF Slice(w, 7, 0) \in 0..4
                        THEN [k |-> "hint", enc |-> "HINT_T2", h |-> <<"NOP", "YIELD", "WFE", "WFI", "SEV">>[Slice(w, 7, 0) + 1],
                              unp |-> Slice(w, 19, 16) # 15 \/ Bit(w, 13) # 0 \/ Bit(w, 11) # 0]
                        ELSE Unspec("t32-hint-dbg-unallocated")
                   [] op = 58 ->
                        LET imod == Slice(w, 10, 9)  Mb == Bit(w, 8)  aif == Slice(w, 7, 5)  mode == Slice(w, 4, 0) IN
                        [k |-> "cps", enc |-> "CPS_T2", enable |-> imod = 2, disable |-> imod = 3, a |-> Bit(w, 7) = 1,
                         i_ |-> Bit(w, 6) = 1, f |-> Bit(w, 5) = 1, changemode |-> Mb = 1, mode |-> mode,
                         unp |-> (mode # 0 /\ Mb = 0) \/ (imod \div 2 = 1 /\ aif = 0) \/ (imod \div 2 = 0 /\ aif # 0) \/
                                 imod = 1 \/ InITBlock(dx.it) \/ Slice(w, 19, 16) # 15 \/ Bit(w, 13) # 0 \/ Bit(w, 11) # 0]
                   [] op = 61 ->
                        IF dx.hyp /\ Slice(w, 7, 0) # 0 THEN Undef          \* SUBS PC, LR is UNDEFINED in Hyp mode (decode-time check)
                        ELSE
                        [k |-> "excret", enc |-> IF Slice(w, 7, 0) = 0 THEN "ERET_T1" ELSE "SUBS_PC_LR_T1",
                              eret |-> Slice(w, 7, 0) = 0, op |-> "SUB", n |-> 14, o2 |-> ImmO2(Slice(w, 7, 0)),
                              unp |-> midITx \/ Slice(w, 19, 16) # 14 \/ Slice(w, 11, 8) # 15 \/ Bit(w, 13) # 0]
                   [] op \in {62, 63} ->
                        [k |-> "mrs", enc |-> "MRS_T1", spsr |-> Bit(w, 20) = 1, d |-> Slice(w, 11, 8),
                         unp |-> BadReg(Slice(w, 11, 8)) \/ Slice(w, 19, 16) # 15 \/ Slice(w, 7, 0) # 0 \/ Bit(w, 13) # 0]
                   [] op = 127 /\ op1 = 0 -> [k |-> "smc", enc |-> "SMC_T1", unp |-> midITx \/ Slice(w, 11, 0) # 0]
                   [] op = 127 /\ op1 = 2 -> [k |-> "undef", enc |-> "UDF_T2", unp |-> FALSE]
                   [] OTHER -> Unspec("t32-misc-control")
       [] op1 \in {1, 3} -> [k |-> "b", enc |-> "B_T4", imm |-> SignExtW(off25, 25), unp |-> midIT]
       [] op1 \in {5, 7} -> [k |-> "bl", enc |-> "BL_T1", tiset |-> "THUMB", imm |-> SignExtW(off25, 25), unp |-> midIT]
       [] op1 \in {4, 6} -> IF Bit(w, 0) = 1 THEN Undef
                            ELSE [k |-> "bl", enc |-> "BLX_i_T2", tiset |-> "ARM", imm |-> SignExtW(off25, 25), unp |-> midIT]

T32Decode(w, dx) ==
  LET op1 == Slice(w, 28, 27)  op2 == Slice(w, 26, 20)  op == Bit(w, 15) IN
  CASE op1 = 1 -> IF op2 \div 64 = 1 THEN Unspec("t32-coproc")
                  ELSE IF op2 \div 32 = 1 THEN T32DPShiftedReg(w)
                  ELSE IF (op2 \div 4) % 2 = 0 THEN T32LSM(w, dx) ELSE T32DualExclTB(w, dx)
    [] op1 = 2 -> IF op = 1 THEN T32BranchMisc(w, dx)
                  ELSE IF (op2 \div 32) % 2 = 0 THEN T32DPModImm(w) ELSE T32DPPlainImm(w)
    [] op1 = 3 -> IF op2 \div 64 = 1 THEN Unspec("t32-coproc")
                  ELSE IF op2 \div 32 = 0 THEN (IF op2 \div 16 = 1 /\ op2 % 2 = 0 THEN Unspec("t32-advsimd-ls") ELSE T32LSSingle(w, dx))
                  ELSE Unspec("t32-dpreg-mul")
    [] OTHER -> Unspec("t32-bad-prefix")

-----------------------------------------------------------------------------
\* iset: 0 = ARM, 1 = Thumb; len in {16, 32}; w a word (16-bit instructions in the low limb)
Decode(iset, w, len, dx) ==
  IF iset = 0 THEN ArmDecode(w, dx)
  ELSE IF len = 16 THEN T16Decode(Lo(w), dx)
  ELSE T32Decode(w, dx)

\* the condition the instruction executes under (A8.3 CurrentCond)
CondOf(iset, w, len, i, dx) ==
  IF iset = 0 THEN Slice(w, 31, 28)
  ELSE IF i.k = "b" /\ i.enc \in {"B_T1", "B_T3"} THEN i.cond
  ELSE ITCond(dx.it)
=============================================================================
