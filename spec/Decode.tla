-------------------------------- MODULE Decode -------------------------------
(***************************************************************************)
(* Instruction decode, hierarchical, following the decode tables of ARM    *)
(* ARM chapter A5 (ARM) and A6 (Thumb), with the "encoding-specific        *)
(* operations" of each encoding in A8 (operand derivation, UNPREDICTABLE   *)
(* conditions, SEE redirections).  Decode(iset, w, len, dx) returns        *)
(*   [k |-> family, enc |-> encoding name, unp |-> BOOLEAN, ...operands]   *)
(* with k = "undef" for UNDEFINED space and k = "unspec" where this        *)
(* specification does not (yet) say anything (those words are only subject *)
(* to the envelope properties).  dx = [it, arch, hyp] is the only machine  *)
(* state decode may depend on besides the carry flag (used at execute).    *)
(***************************************************************************)
EXTENDS Base, Cond

Undef        == [k |-> "undef", enc |-> "UNDEFINED", unp |-> FALSE]
Unspec(why)  == [k |-> "unspec", enc |-> why, unp |-> FALSE]
\* encodings of extensions the emulator documents as not implemented (VFP / Advanced SIMD): the only allowed outcomes are
\* the Undefined Instruction exception and the not-implemented error - never execution as some other instruction
Unimpl(why)  == [k |-> "unimpl", enc |-> why, unp |-> FALSE]
\* hint / barrier space (PLD, PLI, PLDW, DMB, DSB, ISB, DBG, unallocated hints; partly UNPREDICTABLE or UNDEFINED): nothing
\* architecturally visible may happen - NOP, UNDEFINED or the not-implemented error
Nopish(why)  == [k |-> "nopish", enc |-> why, unp |-> FALSE]
DPNames      == <<"AND", "EOR", "SUB", "RSB", "ADD", "ADC", "SBC", "RSC", "TST", "TEQ", "CMP", "CMN", "ORR", "MOV",
                  "BIC", "MVN">>
SRNames      == <<"LSL", "LSR", "ASR", "ROR">>
ImmShift(ty, imm5) ==
  CASE ty = 0 -> <<"LSL", imm5>>
    [] ty = 1 -> <<"LSR", IF imm5 = 0 THEN 32 ELSE imm5>>
    [] ty = 2 -> <<"ASR", IF imm5 = 0 THEN 32 ELSE imm5>>
    [] ty = 3 -> IF imm5 = 0 THEN <<"RRX", 1>> ELSE <<"ROR", imm5>>
RegO2(m, sh)      == [t |-> "reg", m |-> m, st |-> sh[1], sn |-> sh[2]]
DP(enc, op, d, n, S, o2, unp) ==
  [k |-> "dp", enc |-> enc, op |-> op, d |-> d, n |-> n, S |-> S, o2 |-> o2, unp |-> unp]

-----------------------------------------------------------------------------
(* load/store operand records *)
ImmOff(v)      == [t |-> "imm", v |-> <<0, v>>]
RegOff(m, sh)  == [t |-> "reg", m |-> m, st |-> sh[1], sn |-> sh[2]]
LS(enc, load, size, signed, t, n, index, add, wback, off, unpriv, lit, unp) ==
  [k |-> "ls", enc |-> enc, load |-> load, size |-> size, signed |-> signed, t |-> t, n |-> n, index |-> index,
   add |-> add, wback |-> wback, off |-> off, unpriv |-> unpriv, lit |-> lit, unp |-> unp]
LSD(enc, load, t, t2, n, index, add, wback, off, lit, unp) ==
  [k |-> "lsd", enc |-> enc, load |-> load, t |-> t, t2 |-> t2, n |-> n, index |-> index, add |-> add,
   wback |-> wback, off |-> off, lit |-> lit, unp |-> unp]
LSM(enc, load, n, regs, wback, am, unp) ==
  [k |-> IF load THEN "ldm" ELSE "stm", enc |-> enc, n |-> n, regs |-> regs, wback |-> wback, am |-> am, unp |-> unp]
RECURSIVE PopCnt16(_)
PopCnt16(x) == IF x = 0 THEN 0 ELSE (x % 2) + PopCnt16(x \div 2)
RegIn(regs, r) == (regs \div 2^r) % 2 = 1

-----------------------------------------------------------------------------
(* multiply / media operand records (Media.tla) *)
Any15(S) == 15 \in S
MUL(enc, op, d, n, m, a, dhi, dlo, S, unp) ==
  [k |-> "mul", enc |-> enc, op |-> op, d |-> d, n |-> n, m |-> m, a |-> a, dhi |-> dhi, dlo |-> dlo, S |-> S, unp |-> unp]
HMUL(enc, op, d, n, m, a, dhi, dlo, nh, mh, swap, round, unp) ==
  [k |-> "hmul", enc |-> enc, op |-> op, d |-> d, n |-> n, m |-> m, a |-> a, dhi |-> dhi, dlo |-> dlo, nh |-> nh, mh |-> mh,
   swap |-> swap, round |-> round, unp |-> unp]
PAR(enc, pfx, op, d, n, m, unp) == [k |-> "par", enc |-> enc, pfx |-> pfx, op |-> op, d |-> d, n |-> n, m |-> m, unp |-> unp]
EXT(enc, signed, w, rot, d, n, m, unp) ==
  [k |-> "misc", enc |-> enc, op |-> "EXT", signed |-> signed, w |-> w, rot |-> rot, d |-> d, n |-> n, m |-> m, unp |-> unp]
MISC1(enc, op, d, m, unp) == [k |-> "misc", enc |-> enc, op |-> op, d |-> d, m |-> m, unp |-> unp]
ParOps == <<"ADD16", "ASX", "SAX", "SUB16", "ADD8", "x", "x", "SUB8">>

-----------------------------------------------------------------------------
(* ARM *)
ArmDPReg(w) ==
  LET opc == Slice(w, 24, 21)  S == Bit(w, 20) = 1  n == Slice(w, 19, 16)  d == Slice(w, 15, 12)
      op  == DPNames[opc + 1]
      o2  == RegO2(Slice(w, 3, 0), ImmShift(Slice(w, 6, 5), Slice(w, 11, 7)))
      sbz == (opc \in 8..11 /\ d # 0) \/ (opc \in {13, 15} /\ n # 0)
  IN IF opc \notin 8..11 /\ d = 15 /\ S
     THEN [k |-> "excret", enc |-> "SUBS_PC_LR_r_A1", eret |-> FALSE, op |-> op, n |-> n, o2 |-> o2, unp |-> opc \in {13, 15} /\ n # 0]
     ELSE DP(op \o "_r_A1", op, d, n, S, o2, sbz)
ArmDPRsr(w) ==
  LET opc == Slice(w, 24, 21)  S == Bit(w, 20) = 1  n == Slice(w, 19, 16)  d == Slice(w, 15, 12)
      op  == DPNames[opc + 1]  m == Slice(w, 3, 0)  rs == Slice(w, 11, 8)
      o2  == [t |-> "rsr", m |-> m, st |-> SRNames[Slice(w, 6, 5) + 1], rs |-> rs]
      unp == m = 15 \/ rs = 15 \/ (opc \notin 8..11 /\ d = 15) \/ (opc \notin {13, 15} /\ n = 15) \/
             (opc \in 8..11 /\ d # 0) \/ (opc \in {13, 15} /\ n # 0)
  IN DP(op \o "_rsr_A1", op, d, n, S, o2, unp)
ArmDPImm(w) ==
  LET opc == Slice(w, 24, 21)  S == Bit(w, 20) = 1  n == Slice(w, 19, 16)  d == Slice(w, 15, 12)
      op  == DPNames[opc + 1]
      o2  == [t |-> "aimm", imm12 |-> Slice(w, 11, 0)]
      sbz == (opc \in 8..11 /\ d # 0) \/ (opc \in {13, 15} /\ n # 0)
  IN IF opc \notin 8..11 /\ d = 15 /\ S
     THEN [k |-> "excret", enc |-> "SUBS_PC_LR_i_A1", eret |-> FALSE, op |-> op, n |-> n, o2 |-> o2, unp |-> opc \in {13, 15} /\ n # 0]
     ELSE DP(op \o "_i_A1", op, d, n, S, o2, sbz)


\* A5.3 load/store word and unsigned byte
ArmLSWord(w, dx) ==
  LET A == Bit(w, 25)  P == Bit(w, 24)  U == Bit(w, 23)  B == Bit(w, 22)  W == Bit(w, 21)  L == Bit(w, 20)
      n == Slice(w, 19, 16)  t == Slice(w, 15, 12)  m == Slice(w, 3, 0)
      load == L = 1  size == IF B = 1 THEN 1 ELSE 4
      nm == (IF load THEN "LDR" ELSE "STR") \o (IF B = 1 THEN "B" ELSE "")
      off == IF A = 0 THEN ImmOff(Slice(w, 11, 0)) ELSE RegOff(m, ImmShift(Slice(w, 6, 5), Slice(w, 11, 7)))
      form == IF A = 0 THEN "_i_A1" ELSE "_r_A1"
      tvar == P = 0 /\ W = 1
      wback == P = 0 \/ W = 1
      mbad == A = 1 /\ m = 15
  IN IF tvar
     THEN LS(nm \o "T" \o (IF A = 0 THEN "_A1" ELSE "_A2"), load, size, FALSE, t, n, FALSE, U = 1, TRUE, off, TRUE, FALSE,
             n = 15 \/ n = t \/ mbad \/ (t = 15 /\ ~(B = 0 /\ ~load)) \/ dx.hyp \/ (A = 1 /\ dx.arch < 6 /\ m = n))
     ELSE IF load /\ n = 15 /\ A = 0
     THEN LS(nm \o "_lit_A1", TRUE, size, FALSE, t, 15, TRUE, U = 1, FALSE, off, FALSE, TRUE,
             P = 0 \/ W = 1 \/ (B = 1 /\ t = 15))
     ELSE LS(nm \o form, load, size, FALSE, t, n, P = 1, U = 1, wback, off, FALSE, FALSE,
             mbad \/ (B = 1 /\ t = 15) \/ (wback /\ n = t) \/ ((~load) /\ wback /\ n = 15) \/ (load /\ wback /\ n = 15)
             \/ (A = 1 /\ dx.arch < 6 /\ wback /\ m = n))

\* A5.2.8 extra load/store: halfword, signed, dual
ArmExtraLS(w, dx) ==
  LET P == Bit(w, 24)  U == Bit(w, 23)  I == Bit(w, 22)  W == Bit(w, 21)  L == Bit(w, 20)
      n == Slice(w, 19, 16)  t == Slice(w, 15, 12)  m == Slice(w, 3, 0)  op2 == Slice(w, 6, 5)
      imm8 == Slice(w, 11, 8) * 16 + Slice(w, 3, 0)
      off == IF I = 1 THEN ImmOff(imm8) ELSE RegOff(m, <<"LSL", 0>>)
      form == IF I = 1 THEN "_i_A1" ELSE "_r_A1"
      tvar == P = 0 /\ W = 1
      wback == P = 0 \/ W = 1
      mbad == I = 0 /\ (m = 15 \/ Slice(w, 11, 8) # 0)
      dual == L = 0 /\ op2 \in {2, 3}
  IN IF dual
     THEN LET load == op2 = 2  t2 == (t + 1) % 16
              nm == IF load THEN "LDRD" ELSE "STRD" IN
          IF load /\ n = 15 /\ I = 1
          THEN LSD("LDRD_lit_A1", TRUE, t, t2, 15, TRUE, U = 1, FALSE, off, TRUE, t % 2 = 1 \/ t2 = 15 \/ P = 0 \/ W = 1)
          ELSE LSD(nm \o form, load, t, t2, n, P = 1, U = 1, wback, off, FALSE,
                   t % 2 = 1 \/ tvar \/ t2 = 15 \/ mbad \/ (wback /\ (n = t \/ n = t2)) \/ (wback /\ n = 15)
                   \/ (load /\ I = 0 /\ (m = t \/ m = t2)) \/ (I = 0 /\ dx.arch < 6 /\ wback /\ m = n))
     ELSE LET load == L = 1
              size == IF op2 = 2 THEN 1 ELSE 2
              signed == op2 \in {2, 3}
              nm == IF ~load THEN "STRH" ELSE IF op2 = 1 THEN "LDRH" ELSE IF op2 = 2 THEN "LDRSB" ELSE "LDRSH" IN
          IF tvar
          THEN LS(nm \o "T" \o (IF I = 1 THEN "_A1" ELSE "_A2"), load, size, signed, t, n, FALSE, U = 1, TRUE, off, TRUE, FALSE,
                  t = 15 \/ n = 15 \/ n = t \/ mbad \/ dx.hyp)
          ELSE IF load /\ n = 15 /\ I = 1
          THEN LS(nm \o "_lit_A1", TRUE, size, signed, t, 15, TRUE, U = 1, FALSE, off, FALSE, TRUE, P = W \/ t = 15)
          ELSE LS(nm \o form, load, size, signed, t, n, P = 1, U = 1, wback, off, FALSE, FALSE,
                  t = 15 \/ mbad \/ (wback /\ (n = 15 \/ n = t)) \/ (I = 0 /\ dx.arch < 6 /\ wback /\ m = n))

\* A5.5 block data transfer
ArmLSM(w, dx) ==
  LET P == Bit(w, 24)  U == Bit(w, 23)  S == Bit(w, 22)  W == Bit(w, 21)  L == Bit(w, 20)
      n == Slice(w, 19, 16)  regs == Lo(w)
      am == IF P = 0 THEN (IF U = 1 THEN "IA" ELSE "DA") ELSE (IF U = 1 THEN "IB" ELSE "DB")
      nm == (IF L = 1 THEN "LDM" ELSE "STM") \o am
  IN IF S = 1
     THEN IF L = 1 /\ RegIn(regs, 15)
          THEN [k |-> "ldmx", enc |-> "LDM_excret_A1", kind |-> "excret", n |-> n, regs |-> regs % 32768, wback |-> W = 1, am |-> am,
                unp |-> n = 15 \/ (W = 1 /\ RegIn(regs, n) /\ dx.arch >= 7)]
          ELSE IF L = 1
          THEN [k |-> "ldmx", enc |-> "LDM_user_A1", kind |-> "user", n |-> n, regs |-> regs, wback |-> FALSE, am |-> am,
                unp |-> n = 15 \/ PopCnt16(regs) < 1 \/ W = 1]
          ELSE [k |-> "stmu", enc |-> "STM_user_A1", n |-> n, regs |-> regs, wback |-> FALSE, am |-> am,
                unp |-> n = 15 \/ PopCnt16(regs) < 1 \/ W = 1]
     ELSE LSM(nm \o "_A1", L = 1, n, regs, W = 1, am,
              n = 15 \/ PopCnt16(regs) < 1 \/ (L = 1 /\ W = 1 /\ RegIn(regs, n) /\ dx.arch >= 7))


\* A5.2.5 multiply and multiply accumulate
ArmMul(w, dx) ==
  LET op == Slice(w, 23, 21)  S == Bit(w, 20) = 1
      d == Slice(w, 19, 16)  a == Slice(w, 15, 12)  m == Slice(w, 11, 8)  n == Slice(w, 3, 0)
      longunp == Any15({d, a, m, n}) \/ d = a \/ (dx.arch < 6 /\ (d = n \/ a = n))
  IN CASE op = 0 -> MUL("MUL_A1", "MUL", d, n, m, 0, 0, 0, S, Any15({d, m, n}) \/ (dx.arch < 6 /\ d = n) \/ a # 0)
       [] op = 1 -> MUL("MLA_A1", "MLA", d, n, m, a, 0, 0, S, Any15({d, m, n, a}) \/ (dx.arch < 6 /\ d = n))
       [] op = 2 -> IF S THEN Undef ELSE MUL("UMAAL_A1", "UMAAL", 0, n, m, 0, d, a, FALSE, Any15({d, a, m, n}) \/ d = a)
       [] op = 3 -> IF S THEN Undef ELSE MUL("MLS_A1", "MLS", d, n, m, a, 0, 0, FALSE, Any15({d, m, n, a}))
       [] op = 4 -> MUL("UMULL_A1", "UMULL", 0, n, m, 0, d, a, S, longunp)
       [] op = 5 -> MUL("UMLAL_A1", "UMLAL", 0, n, m, 0, d, a, S, longunp)
       [] op = 6 -> MUL("SMULL_A1", "SMULL", 0, n, m, 0, d, a, S, longunp)
       [] op = 7 -> MUL("SMLAL_A1", "SMLAL", 0, n, m, 0, d, a, S, longunp)
\* A5.2.7 halfword multiply
ArmHMul(w, dx) ==
  LET op1 == Slice(w, 22, 21)  d == Slice(w, 19, 16)  a == Slice(w, 15, 12)  m == Slice(w, 11, 8)  n == Slice(w, 3, 0)
      nh == Bit(w, 5) = 1  mh == Bit(w, 6) = 1
  IN CASE op1 = 0 -> HMUL("SMLAxy_A1", "SMLAxy", d, n, m, a, 0, 0, nh, mh, FALSE, FALSE, Any15({d, n, m, a}))
       [] op1 = 1 -> IF ~nh THEN HMUL("SMLAWy_A1", "SMLAWy", d, n, m, a, 0, 0, FALSE, mh, FALSE, FALSE, Any15({d, n, m, a}))
                     ELSE HMUL("SMULWy_A1", "SMULWy", d, n, m, 0, 0, 0, FALSE, mh, FALSE, FALSE, Any15({d, n, m}) \/ a # 0)
       [] op1 = 2 -> HMUL("SMLALxy_A1", "SMLALxy", 0, n, m, 0, d, a, nh, mh, FALSE, FALSE, Any15({d, n, m, a}) \/ d = a)
       [] op1 = 3 -> HMUL("SMULxy_A1", "SMULxy", d, n, m, 0, 0, 0, nh, mh, FALSE, FALSE, Any15({d, n, m}) \/ a # 0)
\* A5.4 media instructions
ArmMedia(w, dx) ==
  LET op1 == Slice(w, 24, 20)  op2 == Slice(w, 7, 5)
      n == Slice(w, 19, 16)  d == Slice(w, 15, 12)  m == Slice(w, 3, 0)  rs == Slice(w, 11, 8)
  IN IF op1 \div 8 = 0 THEN                                     \* parallel add/sub: 000xx signed, 001xx unsigned
       LET pp == op1 % 4  uns == (op1 \div 4) % 2 = 1
           pfx == IF uns THEN <<"x", "U", "UQ", "UH">>[pp + 1] ELSE <<"x", "S", "Q", "SH">>[pp + 1]
       IN IF pp = 0 \/ ParOps[op2 + 1] = "x" THEN Undef
          ELSE PAR(pfx \o ParOps[op2 + 1] \o "_A1", pfx, ParOps[op2 + 1], d, n, m, Any15({d, n, m}) \/ rs # 15)
     ELSE IF op1 \div 8 = 1 THEN                                \* 01xxx packing, unpacking, saturation, reversal
       LET sub == op1 % 8 IN
       IF sub = 0 /\ op2 % 2 = 0 THEN
            [k |-> "misc", enc |-> "PKH_A1", op |-> "PKH", d |-> d, n |-> n, m |-> m, tb |-> Bit(w, 6) = 1,
             st |-> ImmShift(Bit(w, 6) * 2, Slice(w, 11, 7))[1], sn |-> ImmShift(Bit(w, 6) * 2, Slice(w, 11, 7))[2],
             unp |-> Any15({d, n, m})]
       ELSE IF sub = 0 /\ op2 = 5 THEN [k |-> "misc", enc |-> "SEL_A1", op |-> "SEL", d |-> d, n |-> n, m |-> m, unp |-> Any15({d, n, m}) \/ rs # 15]
       ELSE IF sub \in {2, 3} /\ op2 % 2 = 0 THEN
            [k |-> "sat", enc |-> "SSAT_A1", unsigned |-> FALSE, dual |-> FALSE, satto |-> Slice(w, 20, 16) + 1, d |-> d, n |-> m,
             st |-> ImmShift(Bit(w, 6) * 2, Slice(w, 11, 7))[1], sn |-> ImmShift(Bit(w, 6) * 2, Slice(w, 11, 7))[2], unp |-> Any15({d, m})]
       ELSE IF sub \in {6, 7} /\ op2 % 2 = 0 THEN
            [k |-> "sat", enc |-> "USAT_A1", unsigned |-> TRUE, dual |-> FALSE, satto |-> Slice(w, 20, 16), d |-> d, n |-> m,
             st |-> ImmShift(Bit(w, 6) * 2, Slice(w, 11, 7))[1], sn |-> ImmShift(Bit(w, 6) * 2, Slice(w, 11, 7))[2], unp |-> Any15({d, m})]
       ELSE IF sub = 2 /\ op2 = 1 THEN
            [k |-> "sat", enc |-> "SSAT16_A1", unsigned |-> FALSE, dual |-> TRUE, satto |-> Slice(w, 19, 16) + 1, d |-> d, n |-> m,
             st |-> "LSL", sn |-> 0, unp |-> Any15({d, m}) \/ rs # 15]
       ELSE IF sub = 6 /\ op2 = 1 THEN
            [k |-> "sat", enc |-> "USAT16_A1", unsigned |-> TRUE, dual |-> TRUE, satto |-> Slice(w, 19, 16), d |-> d, n |-> m,
             st |-> "LSL", sn |-> 0, unp |-> Any15({d, m}) \/ rs # 15]
       ELSE IF op2 = 3 /\ sub \in {0, 2, 3, 4, 6, 7} THEN
            LET sg == sub < 4
                wd == CASE sub % 4 = 0 -> "B16" [] sub % 4 = 2 -> "B" [] sub % 4 = 3 -> "H"
            IN EXT((IF sg THEN "SXT" ELSE "UXT") \o (IF n = 15 THEN "" ELSE "A") \o wd \o "_A1", sg, wd, 8 * Slice(w, 11, 10), d, n, m,
                   Any15({d, m}) \/ Slice(w, 9, 8) # 0)
       ELSE IF sub = 3 /\ op2 = 1 THEN MISC1("REV_A1", "REV", d, m, Any15({d, m}) \/ n # 15 \/ rs # 15)
       ELSE IF sub = 3 /\ op2 = 5 THEN MISC1("REV16_A1", "REV16", d, m, Any15({d, m}) \/ n # 15 \/ rs # 15)
       ELSE IF sub = 7 /\ op2 = 1 THEN MISC1("RBIT_A1", "RBIT", d, m, Any15({d, m}) \/ n # 15 \/ rs # 15)
       ELSE IF sub = 7 /\ op2 = 5 THEN MISC1("REVSH_A1", "REVSH", d, m, Any15({d, m}) \/ n # 15 \/ rs # 15)
       ELSE Undef
     ELSE IF op1 \div 8 = 2 THEN                                \* 10xxx signed multiplies, divide
       LET sub == op1 % 8  dd == n  aa == d  mm == rs  nn == m  sw == Bit(w, 5) = 1 IN     \* Rd = 19:16, Ra = 15:12, Rm = 11:8, Rn = 3:0
       CASE sub = 0 /\ op2 \div 2 = 0 -> IF aa = 15 THEN HMUL("SMUAD_A1", "SMUAD", dd, nn, mm, 0, 0, 0, FALSE, FALSE, sw, FALSE, Any15({dd, nn, mm}))
                                          ELSE HMUL("SMLAD_A1", "SMLAD", dd, nn, mm, aa, 0, 0, FALSE, FALSE, sw, FALSE, Any15({dd, nn, mm}))
         [] sub = 0 /\ op2 \div 2 = 1 -> IF aa = 15 THEN HMUL("SMUSD_A1", "SMUSD", dd, nn, mm, 0, 0, 0, FALSE, FALSE, sw, FALSE, Any15({dd, nn, mm}))
                                          ELSE HMUL("SMLSD_A1", "SMLSD", dd, nn, mm, aa, 0, 0, FALSE, FALSE, sw, FALSE, Any15({dd, nn, mm}))
         [] sub = 1 /\ op2 = 0 -> [k |-> "div", enc |-> "SDIV_A1", signed |-> TRUE, d |-> dd, n |-> nn, m |-> mm, unp |-> Any15({dd, nn, mm}) \/ aa # 15]
         [] sub = 3 /\ op2 = 0 -> [k |-> "div", enc |-> "UDIV_A1", signed |-> FALSE, d |-> dd, n |-> nn, m |-> mm, unp |-> Any15({dd, nn, mm}) \/ aa # 15]
         [] sub = 4 /\ op2 \div 2 = 0 -> HMUL("SMLALD_A1", "SMLALD", 0, nn, mm, 0, dd, aa, FALSE, FALSE, sw, FALSE, Any15({dd, aa, nn, mm}) \/ dd = aa)
         [] sub = 4 /\ op2 \div 2 = 1 -> HMUL("SMLSLD_A1", "SMLSLD", 0, nn, mm, 0, dd, aa, FALSE, FALSE, sw, FALSE, Any15({dd, aa, nn, mm}) \/ dd = aa)
         [] sub = 5 /\ op2 \div 2 = 0 -> IF aa = 15 THEN HMUL("SMMUL_A1", "SMMUL", dd, nn, mm, 0, 0, 0, FALSE, FALSE, FALSE, sw, Any15({dd, nn, mm}))
                                          ELSE HMUL("SMMLA_A1", "SMMLA", dd, nn, mm, aa, 0, 0, FALSE, FALSE, FALSE, sw, Any15({dd, nn, mm}))
         [] sub = 5 /\ op2 \div 2 = 3 -> HMUL("SMMLS_A1", "SMMLS", dd, nn, mm, aa, 0, 0, FALSE, FALSE, FALSE, sw, Any15({dd, nn, mm, aa}))
         [] OTHER -> Undef
     ELSE                                                        \* 11xxx
       LET sub == op1 % 8 IN
       IF sub = 0 /\ op2 = 0 THEN
            [k |-> "misc", enc |-> IF d = 15 THEN "USAD8_A1" ELSE "USADA8_A1", op |-> IF d = 15 THEN "USAD8" ELSE "USADA8",
             d |-> n, a |-> d, m |-> rs, n |-> m, unp |-> Any15({n, rs, m})]
       ELSE IF sub \in {2, 3} /\ op2 % 4 = 2 THEN
            [k |-> "misc", enc |-> "SBFX_A1", op |-> "SBFX", d |-> d, n |-> m, lsb |-> Slice(w, 11, 7), widthm1 |-> Slice(w, 20, 16), unp |-> Any15({d, m})]
       ELSE IF sub \in {6, 7} /\ op2 % 4 = 2 THEN
            [k |-> "misc", enc |-> "UBFX_A1", op |-> "UBFX", d |-> d, n |-> m, lsb |-> Slice(w, 11, 7), widthm1 |-> Slice(w, 20, 16), unp |-> Any15({d, m})]
       ELSE IF sub \in {4, 5} /\ op2 % 4 = 0 THEN
            IF m = 15 THEN [k |-> "misc", enc |-> "BFC_A1", op |-> "BFC", d |-> d, lsb |-> Slice(w, 11, 7), msb |-> Slice(w, 20, 16), unp |-> d = 15]
            ELSE [k |-> "misc", enc |-> "BFI_A1", op |-> "BFI", d |-> d, n |-> m, lsb |-> Slice(w, 11, 7), msb |-> Slice(w, 20, 16), unp |-> d = 15]
       ELSE Undef

ArmMisc(w) ==
  LET op2 == Slice(w, 6, 4)  op == Slice(w, 22, 21)  m == Slice(w, 3, 0)
      sbo == Slice(w, 19, 8) = 4095
  IN CASE op2 = 0 /\ Bit(w, 9) = 0 /\ op % 2 = 0 ->
            [k |-> "mrs", enc |-> "MRS_A1", spsr |-> Bit(w, 22) = 1, d |-> Slice(w, 15, 12),
             unp |-> Slice(w, 15, 12) = 15 \/ Slice(w, 19, 16) # 15 \/ Slice(w, 11, 0) # 0]
       [] op2 = 0 /\ Bit(w, 9) = 0 /\ op % 2 = 1 ->
            [k |-> "msr", enc |-> "MSR_r_A1", spsr |-> Bit(w, 22) = 1, mask |-> Slice(w, 19, 16),
             src |-> [t |-> "reg", n |-> m],
             unp |-> m = 15 \/ Slice(w, 19, 16) = 0 \/ Slice(w, 15, 12) # 15 \/ Slice(w, 11, 8) # 0]
       [] op2 = 7 /\ op = 3 -> [k |-> "smc", enc |-> "SMC_A1", unp |-> Slice(w, 19, 8) # 0]
       \* BKPT: the debug-event hook of the emulator is a documented mock (UNPREDICTABLE unless cond = AL)
       [] op2 = 7 /\ op = 1 -> Unimpl("bkpt")
       \* ERET A1 belongs to the Virtualization Extensions, which the emulator documents as not implemented in ARM state
       [] op2 = 6 /\ op = 3 -> Unimpl("arm-eret-virt-ext")
       \* MRS / MSR (banked register): Virtualization Extensions, documented as not implemented
       [] op2 = 0 /\ Bit(w, 9) = 1 -> Unimpl("arm-banked-mrs-msr")
       [] op2 = 1 /\ op = 3 -> MISC1("CLZ_A1", "CLZ", Slice(w, 15, 12), m, Any15({Slice(w, 15, 12), m}) \/ Slice(w, 19, 16) # 15 \/ Slice(w, 11, 8) # 15)
       [] op2 = 5 -> [k |-> "qarith", enc |-> <<"QADD_A1", "QSUB_A1", "QDADD_A1", "QDSUB_A1">>[op + 1], double |-> op \div 2 = 1, sub |-> op % 2 = 1,
                      d |-> Slice(w, 15, 12), n |-> Slice(w, 19, 16), m |-> m, unp |-> Any15({Slice(w, 15, 12), Slice(w, 19, 16), m}) \/ Slice(w, 11, 8) # 0]
       [] op2 = 1 /\ op = 1 -> [k |-> "bx", enc |-> "BX_A1", m |-> m, unp |-> ~sbo]
       [] op2 = 3 /\ op = 1 -> [k |-> "blxr", enc |-> "BLX_r_A1", m |-> m, unp |-> m = 15 \/ ~sbo]
       [] op2 = 2 /\ op = 1 -> [k |-> "bxj", enc |-> "BXJ_A1", m |-> m, unp |-> m = 15 \/ ~sbo]
       [] OTHER -> Unimpl("arm-misc-unallocated")

\* A5.2.10 synchronization primitives (ARM): LDREX/STREX and the byte / halfword / doubleword forms (ARMv6 / v6K on).
\* SWP / SWPB are not specified (the emulator prints "deprecated" and treats them as UNDEFINED).
ExSfx(size) == CASE size = 4 -> "" [] size = 8 -> "D" [] size = 1 -> "B" [] OTHER -> "H"
ArmSync(w, dx) ==
  LET op == Slice(w, 23, 20)  n == Slice(w, 19, 16)  r12 == Slice(w, 15, 12)  r0 == Slice(w, 3, 0)
      sbo == Slice(w, 11, 8) = 15
      size == CASE op \div 2 = 4 -> 4 [] op \div 2 = 5 -> 8 [] op \div 2 = 6 -> 1 [] OTHER -> 2
  IN IF dx.arch < 6 THEN Unspec("arm-sync-pre-v6")
     ELSE IF op \in {0, 4} THEN Unimpl("arm-swp")            \* SWP / SWPB: the emulator reports them deprecated and takes UNDEFINED
     ELSE IF op < 8 THEN Undef
     ELSE IF op % 2 = 1
     THEN [k |-> "ldrex", enc |-> "LDREX" \o ExSfx(size) \o "_A1", size |-> size, t |-> r12, t2 |-> (r12 + 1) % 16, n |-> n,
           imm |-> Zero, unp |-> n = 15 \/ r12 = 15 \/ ~sbo \/ r0 # 15 \/ (size = 8 /\ (r12 % 2 = 1 \/ r12 = 14))]
     ELSE [k |-> "strex", enc |-> "STREX" \o ExSfx(size) \o "_A1", size |-> size, d |-> r12, t |-> r0, t2 |-> (r0 + 1) % 16,
           n |-> n, imm |-> Zero,
           unp |-> r12 = 15 \/ n = 15 \/ r0 = 15 \/ r12 = n \/ r12 = r0 \/ ~sbo \/
                   (size = 8 /\ (r0 % 2 = 1 \/ r0 = 14 \/ r12 = r0 + 1))]

ArmDPMisc(w, dx) ==
  LET op == Bit(w, 25)  op1 == Slice(w, 24, 20)  op2 == Slice(w, 7, 4)
      is10xx0 == (op1 \div 8 = 2) /\ (op1 % 2 = 0)
  IN IF op = 0
     THEN IF ~is10xx0
          THEN IF op2 % 2 = 0 THEN ArmDPReg(w)
               ELSE IF op2 \div 8 = 0 THEN ArmDPRsr(w)
               ELSE IF op2 = 9 THEN (IF op1 \div 16 = 0 THEN ArmMul(w, dx) ELSE ArmSync(w, dx))
               ELSE ArmExtraLS(w, dx)
          ELSE IF op2 \div 8 = 0 THEN ArmMisc(w)
               ELSE IF op2 % 2 = 0 THEN ArmHMul(w, dx)
               ELSE IF op2 = 9 THEN ArmSync(w, dx)
               ELSE ArmExtraLS(w, dx)
     ELSE IF ~is10xx0 THEN ArmDPImm(w)
          ELSE CASE op1 = 16 -> [k |-> "movw", enc |-> "MOVW_A2", d |-> Slice(w, 15, 12),
                                 imm16 |-> Slice(w, 19, 16) * 4096 + Slice(w, 11, 0), unp |-> Slice(w, 15, 12) = 15]
                 [] op1 = 20 -> [k |-> "movt", enc |-> "MOVT_A1", d |-> Slice(w, 15, 12),
                                 imm16 |-> Slice(w, 19, 16) * 4096 + Slice(w, 11, 0), unp |-> Slice(w, 15, 12) = 15]
                 [] OTHER    ->                       \* 10x10: MSR (immediate) and hints
                      LET R == Bit(w, 22)  mask == Slice(w, 19, 16)  h == Slice(w, 7, 0) IN
                      IF R = 0 /\ mask = 0
                      THEN (IF h \in 0..4
                            THEN [k |-> "hint", enc |-> "HINT_A1", h |-> <<"NOP", "YIELD", "WFE", "WFI", "SEV">>[h + 1],
                                  unp |-> Slice(w, 15, 8) # 240]
                            ELSE Nopish("arm-hint-dbg-unallocated"))
                      ELSE [k |-> "msr", enc |-> "MSR_i_A1", spsr |-> R = 1, mask |-> mask,
                            src |-> [t |-> "aimm", imm12 |-> Slice(w, 11, 0)],
                            unp |-> mask = 0 \/ Slice(w, 15, 12) # 15]

ArmBranchBlock(w, dx) ==
  IF Bit(w, 25) = 1
  THEN LET imm == SignExtW(LSLw(ExtractW(w, 23, 0), 2), 26)
       IN IF Bit(w, 24) = 0 THEN [k |-> "b", enc |-> "B_A1", imm |-> imm, unp |-> FALSE]
          ELSE [k |-> "bl", enc |-> "BL_A1", imm |-> imm, tiset |-> "ARM", unp |-> FALSE]
  ELSE ArmLSM(w, dx)

\* A5.6 / A5.7.1 / A6.3.18 coprocessor instructions: the same layout of bits 25:0 in the conditional ARM space (A1),
\* the unconditional ARM space (A2, the "2" variants) and 32-bit Thumb (T1 / T2 by bit 28).  Only generic coprocessors
\* and the CP14 / CP15 system spaces are specified (CP10/11 = VFP / Advanced SIMD reach hooks the emulator does not model).
\* Semantics (ISA.tla ExecCoproc): UNDEFINED when NSACR / CPACR deny the access, otherwise the documented
\* not-implemented outcome of the emulator's coprocessor hooks.
CoprocSpace(w, sfx, thumb) ==
  LET op1 == Slice(w, 25, 20)  cp == Slice(w, 11, 8)  op == Bit(w, 4)  n == Slice(w, 19, 16)
      t == Slice(w, 15, 12)  t2 == Slice(w, 19, 16)
      P == Bit(w, 24)  W == Bit(w, 21)
      C(enc, mem, unp) == [k |-> "coproc", enc |-> enc \o sfx, cp |-> cp, memop |-> mem, unp |-> unp, w |-> w]
  IN IF op1 \div 2 = 0 THEN Undef
     ELSE IF cp \div 2 = 5 THEN Unimpl("coproc-vfp-advsimd")
     ELSE IF op1 = 4 THEN C("MCRR", FALSE, t = 15 \/ t2 = 15 \/ (thumb /\ (t = 13 \/ t2 = 13)))
     ELSE IF op1 = 5 THEN C("MRRC", FALSE, t = 15 \/ t2 = 15 \/ t = t2 \/ (thumb /\ (t = 13 \/ t2 = 13)))
     ELSE IF op1 \div 32 = 0 /\ op1 % 2 = 0 THEN C("STC", TRUE, n = 15 /\ (W = 1 \/ thumb))
     ELSE IF op1 \div 32 = 0 /\ n # 15 THEN C("LDC_i", TRUE, FALSE)
     ELSE IF op1 \div 32 = 0 THEN C("LDC_lit", TRUE, W = 1 \/ (P = 0 /\ thumb))
     ELSE IF op1 \div 16 = 2 /\ op = 0 THEN C("CDP", FALSE, FALSE)
     ELSE IF op1 \div 16 = 2 /\ op1 % 2 = 0 THEN C("MCR", FALSE, t = 15 \/ (thumb /\ t = 13))
     ELSE IF op1 \div 16 = 2 THEN C("MRC", FALSE, thumb /\ t = 13)
     ELSE Unspec("coproc-space-other")

ArmUncond(w) ==
  LET op1 == Slice(w, 27, 20) IN
  IF op1 = 16 /\ Bit(w, 16) = 0 /\ Bit(w, 5) = 0
  THEN LET imod == Slice(w, 19, 18)  Mb == Bit(w, 17)  aif == Slice(w, 8, 6)  mode == Slice(w, 4, 0) IN
       [k |-> "cps", enc |-> "CPS_A1", enable |-> imod = 2, disable |-> imod = 3, a |-> Bit(w, 8) = 1, i_ |-> Bit(w, 7) = 1,
        f |-> Bit(w, 6) = 1, changemode |-> Mb = 1, mode |-> mode,
        unp |-> (mode # 0 /\ Mb = 0) \/ (imod \div 2 = 1 /\ aif = 0) \/ (imod \div 2 = 0 /\ aif # 0) \/
                (imod = 0 /\ Mb = 0) \/ imod = 1 \/ Slice(w, 15, 9) # 0]
  ELSE IF op1 = 16 /\ Bit(w, 16) = 1 /\ Slice(w, 7, 4) = 0
  THEN [k |-> "setend", enc |-> "SETEND_A1", e |-> Bit(w, 9), unp |-> Slice(w, 19, 17) # 0 \/ Slice(w, 15, 10) # 0 \/ Slice(w, 8, 8) # 0 \/ Slice(w, 3, 0) # 0]
  ELSE IF Slice(w, 27, 25) = 4 /\ Bit(w, 22) = 1 /\ Bit(w, 20) = 0
  THEN [k |-> "srs", enc |-> "SRS_A1", mode |-> Slice(w, 4, 0), wback |-> Bit(w, 21) = 1, inc |-> Bit(w, 23) = 1,
        wordhigher |-> Bit(w, 24) = Bit(w, 23), unp |-> Slice(w, 19, 5) # 26664]
  ELSE IF Slice(w, 27, 25) = 4 /\ Bit(w, 22) = 0 /\ Bit(w, 20) = 1
  THEN [k |-> "rfe", enc |-> "RFE_A1", n |-> Slice(w, 19, 16), wback |-> Bit(w, 21) = 1, inc |-> Bit(w, 23) = 1,
        wordhigher |-> Bit(w, 24) = Bit(w, 23), unp |-> Slice(w, 19, 16) = 15 \/ Lo(w) # 2560]
  ELSE IF Slice(w, 27, 25) = 5
  THEN [k |-> "bl", enc |-> "BLX_i_A2", tiset |-> "THUMB", unp |-> FALSE,
        imm |-> SignExtW(WOr(LSLw(ExtractW(w, 23, 0), 2), <<0, Bit(w, 24) * 2>>), 26)]
  ELSE IF Slice(w, 27, 20) = 87 /\ Slice(w, 7, 4) = 1
  THEN [k |-> "hint", enc |-> "CLREX_A1", h |-> "NOP", unp |-> Slice(w, 19, 8) # 4080 \/ Slice(w, 3, 0) # 15]
  ELSE IF Slice(w, 27, 25) = 1 THEN Unimpl("arm-advsimd-dp")
  ELSE IF Slice(w, 27, 24) = 4 /\ Bit(w, 20) = 0 THEN Unimpl("arm-advsimd-ls")
  ELSE IF Slice(w, 27, 26) = 1 THEN Nopish("arm-memhint-barrier")
  ELSE IF Slice(w, 27, 26) = 3 /\ Slice(w, 25, 24) # 3 THEN CoprocSpace(w, "_A2", FALSE)
  ELSE Unimpl("arm-unconditional-unallocated")

ArmDecode(w, dx) ==
  LET cond == Slice(w, 31, 28)  op1 == Slice(w, 27, 25) IN
  IF cond = 15 THEN ArmUncond(w)
  ELSE CASE op1 \in {0, 1} -> ArmDPMisc(w, dx)
         [] op1 = 2 -> ArmLSWord(w, dx)
         [] op1 = 3 -> IF Bit(w, 4) = 0 THEN ArmLSWord(w, dx) ELSE ArmMedia(w, dx)
         [] op1 \in {4, 5} -> ArmBranchBlock(w, dx)
         [] op1 \in {6, 7} -> IF Slice(w, 25, 24) = 3 THEN [k |-> "svc", enc |-> "SVC_A1", imm |-> Lo(w), unp |-> FALSE]
                               ELSE CoprocSpace(w, "_A1", FALSE)

-----------------------------------------------------------------------------
(* Thumb, 16-bit.  h is the halfword as a Nat. *)
Bits(h, hi, lo) == (h \div 2^lo) % 2^(hi - lo + 1)
ImmO2(v) == [t |-> "imm", v |-> <<0, v>>]
LowReg(m) == RegO2(m, <<"LSL", 0>>)

T16ShiftAddSubMovCmp(h, dx) ==
  LET opc == Bits(h, 13, 9)  notIT == ~InITBlock(dx.it)
      rd == Bits(h, 2, 0)  rm3 == Bits(h, 5, 3)  imm5 == Bits(h, 10, 6)  r8 == Bits(h, 10, 8)  imm8 == Bits(h, 7, 0)
  IN CASE opc \div 4 = 0 ->
            IF imm5 = 0 THEN DP("MOV_r_T2", "MOV", rd, 0, TRUE, LowReg(rm3), InITBlock(dx.it))
            ELSE DP("LSL_i_T1", "MOV", rd, 0, notIT, RegO2(rm3, ImmShift(0, imm5)), FALSE)
       [] opc \div 4 = 1 -> DP("LSR_i_T1", "MOV", rd, 0, notIT, RegO2(rm3, ImmShift(1, imm5)), FALSE)
       [] opc \div 4 = 2 -> DP("ASR_i_T1", "MOV", rd, 0, notIT, RegO2(rm3, ImmShift(2, imm5)), FALSE)
       [] opc = 12 -> DP("ADD_r_T1", "ADD", rd, rm3, notIT, LowReg(Bits(h, 8, 6)), FALSE)
       [] opc = 13 -> DP("SUB_r_T1", "SUB", rd, rm3, notIT, LowReg(Bits(h, 8, 6)), FALSE)
       [] opc = 14 -> DP("ADD_i_T1", "ADD", rd, rm3, notIT, ImmO2(Bits(h, 8, 6)), FALSE)
       [] opc = 15 -> DP("SUB_i_T1", "SUB", rd, rm3, notIT, ImmO2(Bits(h, 8, 6)), FALSE)
       [] opc \div 4 = 4 -> DP("MOV_i_T1", "MOV", r8, 0, notIT, ImmO2(imm8), FALSE)
       [] opc \div 4 = 5 -> DP("CMP_i_T1", "CMP", 0, r8, TRUE, ImmO2(imm8), FALSE)
       [] opc \div 4 = 6 -> DP("ADD_i_T2", "ADD", r8, r8, notIT, ImmO2(imm8), FALSE)
       [] opc \div 4 = 7 -> DP("SUB_i_T2", "SUB", r8, r8, notIT, ImmO2(imm8), FALSE)

T16DP(h, dx) ==
  LET opc == Bits(h, 9, 6)  rdn == Bits(h, 2, 0)  rm == Bits(h, 5, 3)  notIT == ~InITBlock(dx.it)
      rsr(st) == [t |-> "rsr", m |-> rdn, st |-> st, rs |-> rm]
  IN CASE opc = 0  -> DP("AND_r_T1", "AND", rdn, rdn, notIT, LowReg(rm), FALSE)
       [] opc = 1  -> DP("EOR_r_T1", "EOR", rdn, rdn, notIT, LowReg(rm), FALSE)
       [] opc = 2  -> DP("LSL_r_T1", "MOV", rdn, 0, notIT, rsr("LSL"), FALSE)
       [] opc = 3  -> DP("LSR_r_T1", "MOV", rdn, 0, notIT, rsr("LSR"), FALSE)
       [] opc = 4  -> DP("ASR_r_T1", "MOV", rdn, 0, notIT, rsr("ASR"), FALSE)
       [] opc = 5  -> DP("ADC_r_T1", "ADC", rdn, rdn, notIT, LowReg(rm), FALSE)
       [] opc = 6  -> DP("SBC_r_T1", "SBC", rdn, rdn, notIT, LowReg(rm), FALSE)
       [] opc = 7  -> DP("ROR_r_T1", "MOV", rdn, 0, notIT, rsr("ROR"), FALSE)
       [] opc = 8  -> DP("TST_r_T1", "TST", 0, rdn, TRUE, LowReg(rm), FALSE)
       [] opc = 9  -> DP("RSB_i_T1", "RSB", rdn, rm, notIT, ImmO2(0), FALSE)
       [] opc = 10 -> DP("CMP_r_T1", "CMP", 0, rdn, TRUE, LowReg(rm), FALSE)
       [] opc = 11 -> DP("CMN_r_T1", "CMN", 0, rdn, TRUE, LowReg(rm), FALSE)
       [] opc = 12 -> DP("ORR_r_T1", "ORR", rdn, rdn, notIT, LowReg(rm), FALSE)
       [] opc = 13 -> MUL("MUL_T1", "MUL", rdn, rm, rdn, 0, 0, 0, notIT, dx.arch < 6 /\ rdn = rm)
       [] opc = 14 -> DP("BIC_r_T1", "BIC", rdn, rdn, notIT, LowReg(rm), FALSE)
       [] opc = 15 -> DP("MVN_r_T1", "MVN", rdn, 0, notIT, LowReg(rm), FALSE)

T16Special(h, dx) ==
  LET opc == Bits(h, 9, 6)  rm == Bits(h, 6, 3)  dn == Bits(h, 7, 7) * 8 + Bits(h, 2, 0)
      midIT == InITBlock(dx.it) /\ ~LastInITBlock(dx.it)
  IN CASE opc \div 4 = 0 -> DP("ADD_r_T2", "ADD", dn, dn, FALSE, LowReg(rm), (dn = 15 /\ rm = 15) \/ (dn = 15 /\ midIT))
       [] opc = 4 -> [k |-> "unpred", enc |-> "T16-special-0100", unp |-> TRUE]
       [] opc \in {5, 6, 7} -> DP("CMP_r_T2", "CMP", 0, dn, TRUE, LowReg(rm), (dn < 8 /\ rm < 8) \/ dn = 15 \/ rm = 15)
       [] opc \div 4 = 2 -> DP("MOV_r_T1", "MOV", dn, 0, FALSE, LowReg(rm),
                               (dn = 15 /\ midIT) \/ (dx.arch < 6 /\ dn < 8 /\ rm < 8))
       [] opc \in {12, 13} -> [k |-> "bx", enc |-> "BX_T1", m |-> rm, unp |-> midIT \/ Bits(h, 2, 0) # 0]
       [] opc \in {14, 15} -> [k |-> "blxr", enc |-> "BLX_r_T1", m |-> rm, unp |-> rm = 15 \/ midIT \/ Bits(h, 2, 0) # 0]


T16LSSingle(h, dx) ==
  LET opA == Bits(h, 15, 12)  opB == Bits(h, 11, 9)
      rt == Bits(h, 2, 0)  rn == Bits(h, 5, 3)  rm == Bits(h, 8, 6)  imm5 == Bits(h, 10, 6)  L == Bits(h, 11, 11) = 1
      reg == RegOff(rm, <<"LSL", 0>>)
      mk(enc, load, size, signed, off) == LS(enc, load, size, signed, rt, rn, TRUE, TRUE, FALSE, off, FALSE, FALSE, FALSE)
  IN CASE opA = 5 ->
            (CASE opB = 0 -> mk("STR_r_T1", FALSE, 4, FALSE, reg) [] opB = 1 -> mk("STRH_r_T1", FALSE, 2, FALSE, reg)
               [] opB = 2 -> mk("STRB_r_T1", FALSE, 1, FALSE, reg) [] opB = 3 -> mk("LDRSB_r_T1", TRUE, 1, TRUE, reg)
               [] opB = 4 -> mk("LDR_r_T1", TRUE, 4, FALSE, reg) [] opB = 5 -> mk("LDRH_r_T1", TRUE, 2, FALSE, reg)
               [] opB = 6 -> mk("LDRB_r_T1", TRUE, 1, FALSE, reg) [] opB = 7 -> mk("LDRSH_r_T1", TRUE, 2, TRUE, reg))
       [] opA = 6 -> mk(IF L THEN "LDR_i_T1" ELSE "STR_i_T1", L, 4, FALSE, ImmOff(imm5 * 4))
       [] opA = 7 -> mk(IF L THEN "LDRB_i_T1" ELSE "STRB_i_T1", L, 1, FALSE, ImmOff(imm5))
       [] opA = 8 -> mk(IF L THEN "LDRH_i_T1" ELSE "STRH_i_T1", L, 2, FALSE, ImmOff(imm5 * 2))
       [] opA = 9 -> LS(IF L THEN "LDR_i_T2" ELSE "STR_i_T2", L, 4, FALSE, Bits(h, 10, 8), 13, TRUE, TRUE, FALSE,
                        ImmOff(Bits(h, 7, 0) * 4), FALSE, FALSE, FALSE)
T16LSM(h, dx) ==
  LET L == Bits(h, 11, 11) = 1  n == Bits(h, 10, 8)  regs == Bits(h, 7, 0)
  IN IF L THEN LSM("LDM_T1", TRUE, n, regs, ~RegIn(regs, n), "IA", regs = 0)
     ELSE LSM("STM_T1", FALSE, n, regs, TRUE, "IA", regs = 0)

T16Misc(h, dx) ==
  LET o == Bits(h, 11, 5) IN
  CASE o \div 4 = 0 -> DP("ADD_SP_i_T2", "ADD", 13, 13, FALSE, ImmO2(Bits(h, 6, 0) * 4), FALSE)
    [] o \div 4 = 1 -> DP("SUB_SP_i_T1", "SUB", 13, 13, FALSE, ImmO2(Bits(h, 6, 0) * 4), FALSE)
    [] Bits(h, 10, 10) = 0 /\ Bits(h, 8, 8) = 1 ->
         [k |-> "cbz", enc |-> "CBZ_T1", n |-> Bits(h, 2, 0), nonzero |-> Bits(h, 11, 11) = 1,
          imm |-> <<0, (Bits(h, 9, 9) * 32 + Bits(h, 7, 3)) * 2>>, unp |-> InITBlock(dx.it)]
    [] Bits(h, 11, 8) = 2 -> LET op == Bits(h, 7, 6) IN
         EXT(<<"SXTH_T1", "SXTB_T1", "UXTH_T1", "UXTB_T1">>[op + 1], op < 2, IF op % 2 = 0 THEN "H" ELSE "B", 0, Bits(h, 2, 0), 15, Bits(h, 5, 3), FALSE)
    [] Bits(h, 11, 8) = 10 /\ Bits(h, 7, 6) # 2 -> LET op == Bits(h, 7, 6) IN
         MISC1(<<"REV_T1", "REV16_T1", "x", "REVSH_T1">>[op + 1], <<"REV", "REV16", "x", "REVSH">>[op + 1], Bits(h, 2, 0), Bits(h, 5, 3), FALSE)
    [] Bits(h, 11, 9) = 2 -> LSM("PUSH_T1", FALSE, 13, Bits(h, 8, 8) * 16384 + Bits(h, 7, 0), TRUE, "DB",
                                 Bits(h, 8, 0) = 0)
    [] Bits(h, 11, 9) = 6 -> LSM("POP_T1", TRUE, 13, Bits(h, 8, 8) * 32768 + Bits(h, 7, 0), TRUE, "IA",
                                 Bits(h, 8, 0) = 0 \/ (Bits(h, 8, 8) = 1 /\ InITBlock(dx.it) /\ ~LastInITBlock(dx.it)))
    [] Bits(h, 11, 8) = 15 ->
         IF Bits(h, 3, 0) # 0
         THEN [k |-> "it", enc |-> "IT_T1", fc |-> Bits(h, 7, 4), mask |-> Bits(h, 3, 0),
               unp |-> ~ITLegal(Bits(h, 7, 4), Bits(h, 3, 0)) \/ InITBlock(dx.it)]
         ELSE IF Bits(h, 7, 4) \in 0..4
              THEN [k |-> "hint", enc |-> "HINT_T1", h |-> <<"NOP", "YIELD", "WFE", "WFI", "SEV">>[Bits(h, 7, 4) + 1], unp |-> FALSE]
              ELSE Nopish("t16-hints-unallocated")
    [] Bits(h, 11, 5) = 50 -> [k |-> "setend", enc |-> "SETEND_T1", e |-> Bits(h, 3, 3),
                               unp |-> InITBlock(dx.it) \/ Bits(h, 4, 4) # 1 \/ Bits(h, 2, 0) # 0]
    [] Bits(h, 11, 5) = 51 -> [k |-> "cps", enc |-> "CPS_T1", enable |-> Bits(h, 4, 4) = 0, disable |-> Bits(h, 4, 4) = 1,
                               a |-> Bits(h, 2, 2) = 1, i_ |-> Bits(h, 1, 1) = 1, f |-> Bits(h, 0, 0) = 1,
                               changemode |-> FALSE, mode |-> 0,
                               unp |-> InITBlock(dx.it) \/ Bits(h, 2, 0) = 0 \/ Bits(h, 3, 3) # 0]
    [] Bits(h, 11, 8) = 14 -> Unimpl("bkpt")                                   \* BKPT T1 (0xBExx)
    [] OTHER -> Unimpl("t16-misc-unallocated")

T16CondBranchSvc(h, dx) ==
  LET cond == Bits(h, 11, 8) IN
  CASE cond = 14 -> [k |-> "undef", enc |-> "UDF_T1", unp |-> FALSE]
    [] cond = 15 -> [k |-> "svc", enc |-> "SVC_T1", imm |-> Bits(h, 7, 0), unp |-> FALSE]
    [] OTHER -> [k |-> "b", enc |-> "B_T1", cond |-> cond, imm |-> SignExtN(Bits(h, 7, 0) * 2, 9), unp |-> InITBlock(dx.it)]

T16Decode(h, dx) ==
  LET opc == Bits(h, 15, 10) IN
  CASE opc \div 16 = 0 -> T16ShiftAddSubMovCmp(h, dx)
    [] opc = 16 -> T16DP(h, dx)
    [] opc = 17 -> T16Special(h, dx)
    [] opc \div 2 = 9 -> LS("LDR_lit_T1", TRUE, 4, FALSE, Bits(h, 10, 8), 15, TRUE, TRUE, FALSE, ImmOff(Bits(h, 7, 0) * 4),
                             FALSE, TRUE, FALSE)
    [] opc \div 4 = 5 \/ opc \div 8 = 3 \/ opc \div 8 = 4 -> T16LSSingle(h, dx)
    [] opc \div 2 = 20 -> [k |-> "adr", enc |-> "ADR_T1", d |-> Bits(h, 10, 8), add |-> TRUE,
                           imm |-> <<0, Bits(h, 7, 0) * 4>>, unp |-> FALSE]
    [] opc \div 2 = 21 -> DP("ADD_SP_i_T1", "ADD", Bits(h, 10, 8), 13, FALSE, ImmO2(Bits(h, 7, 0) * 4), FALSE)
    [] opc \div 4 = 11 -> T16Misc(h, dx)
    [] opc \div 2 = 24 \/ opc \div 2 = 25 -> T16LSM(h, dx)
    [] opc \div 4 = 13 -> T16CondBranchSvc(h, dx)
    [] opc \div 2 = 28 -> [k |-> "b", enc |-> "B_T2", imm |-> SignExtN(Bits(h, 10, 0) * 2, 12),
                           unp |-> InITBlock(dx.it) /\ ~LastInITBlock(dx.it)]
    [] OTHER -> Unspec("t16-other")

-----------------------------------------------------------------------------
(* Thumb, 32-bit.  w = hw1:hw2 as a word *)
T32ModImmOps == [o \in 0..15 |-> CASE o = 0 -> "AND" [] o = 1 -> "BIC" [] o = 2 -> "ORR" [] o = 3 -> "ORN"
                                   [] o = 4 -> "EOR" [] o = 8 -> "ADD" [] o = 10 -> "ADC" [] o = 11 -> "SBC"
                                   [] o = 13 -> "SUB" [] o = 14 -> "RSB" [] OTHER -> "none"]
\* common register rules of the 32-bit Thumb data-processing encodings (BadReg = SP or PC)
BadReg(r) == r \in {13, 15}
T32DPCommon(enc0, o, S, n, d, o2, shifted) ==
  LET base == T32ModImmOps[o] IN
  IF base = "none" THEN Undef
  ELSE
  LET isTest == d = 15 /\ S /\ o \in {0, 4, 8, 13}
      op == IF isTest THEN (CASE o = 0 -> "TST" [] o = 4 -> "TEQ" [] o = 8 -> "CMN" [] o = 13 -> "CMP")
            ELSE IF n = 15 /\ o = 2 THEN "MOV" ELSE IF n = 15 /\ o = 3 THEN "MVN" ELSE base
      spOK == o \in {8, 13} /\ n = 13            \* ADD/SUB/CMN/CMP (SP plus ...)
      unp == IF isTest THEN (n = 15 \/ (n = 13 /\ ~spOK)) \/ (shifted /\ BadReg(o2.m))
             ELSE IF op \in {"MOV", "MVN"} THEN BadReg(d) \/ (shifted /\ BadReg(o2.m))
             ELSE (d = 13 /\ ~spOK) \/ d = 15 \/ n = 15 \/ (n = 13 /\ ~spOK) \/ (shifted /\ BadReg(o2.m))
                  \/ (spOK /\ d = 13 /\ shifted /\ (o2.st # "LSL" \/ o2.sn > 3))
  IN DP(op \o enc0, op, d, n, S, o2, unp)

T32DPModImm(w) ==
  LET o == Slice(w, 24, 21)  S == Bit(w, 20) = 1  n == Slice(w, 19, 16)  d == Slice(w, 11, 8)
      imm12 == Bit(w, 26) * 2048 + Slice(w, 14, 12) * 256 + Slice(w, 7, 0)
  IN T32DPCommon("_i_T32", o, S, n, d, [t |-> "timm", imm12 |-> imm12], FALSE)
T32DPShiftedReg(w) ==
  LET o == Slice(w, 24, 21)  S == Bit(w, 20) = 1  n == Slice(w, 19, 16)  d == Slice(w, 11, 8)
      sh == ImmShift(Slice(w, 5, 4), Slice(w, 14, 12) * 4 + Slice(w, 7, 6))
  IN IF o = 6 THEN
       (IF S \/ Bit(w, 4) = 1 THEN Undef
        ELSE [k |-> "misc", enc |-> "PKH_T1", op |-> "PKH", d |-> d, n |-> n, m |-> Slice(w, 3, 0), tb |-> Bit(w, 5) = 1,
              st |-> ImmShift(Bit(w, 5) * 2, Slice(w, 14, 12) * 4 + Slice(w, 7, 6))[1],
              sn |-> ImmShift(Bit(w, 5) * 2, Slice(w, 14, 12) * 4 + Slice(w, 7, 6))[2],
              unp |-> BadReg(d) \/ BadReg(n) \/ BadReg(Slice(w, 3, 0))])
     ELSE T32DPCommon("_r_T32", o, S, n, d, RegO2(Slice(w, 3, 0), sh), TRUE)

T32DPPlainImm(w) ==
  LET o == Slice(w, 24, 20)  n == Slice(w, 19, 16)  d == Slice(w, 11, 8)
      imm12 == Bit(w, 26) * 2048 + Slice(w, 14, 12) * 256 + Slice(w, 7, 0)
      imm16 == Slice(w, 19, 16) * 4096 + imm12
  IN CASE o = 0  -> IF n = 15 THEN [k |-> "adr", enc |-> "ADR_T3", d |-> d, add |-> TRUE, imm |-> <<0, imm12>>, unp |-> BadReg(d)]
                    ELSE DP("ADDW_T4", "ADD", d, n, FALSE, ImmO2(imm12), (d = 13 /\ n # 13) \/ d = 15)
       [] o = 10 -> IF n = 15 THEN [k |-> "adr", enc |-> "ADR_T2", d |-> d, add |-> FALSE, imm |-> <<0, imm12>>, unp |-> BadReg(d)]
                    ELSE DP("SUBW_T4", "SUB", d, n, FALSE, ImmO2(imm12), (d = 13 /\ n # 13) \/ d = 15)
       [] o = 4  -> [k |-> "movw", enc |-> "MOVW_T3", d |-> d, imm16 |-> imm16, unp |-> BadReg(d)]
       [] o = 12 -> [k |-> "movt", enc |-> "MOVT_T1", d |-> d, imm16 |-> imm16, unp |-> BadReg(d)]
       [] o \in {16, 18} ->
            LET sh == ImmShift(Bit(w, 21) * 2, Slice(w, 14, 12) * 4 + Slice(w, 7, 6)) IN
            IF o = 18 /\ Slice(w, 14, 12) = 0 /\ Slice(w, 7, 6) = 0
            THEN [k |-> "sat", enc |-> "SSAT16_T1", unsigned |-> FALSE, dual |-> TRUE, satto |-> Slice(w, 3, 0) + 1, d |-> d, n |-> n,
                  st |-> "LSL", sn |-> 0, unp |-> BadReg(d) \/ BadReg(n) \/ Slice(w, 5, 4) # 0 \/ Bit(w, 26) # 0]
            ELSE [k |-> "sat", enc |-> "SSAT_T1", unsigned |-> FALSE, dual |-> FALSE, satto |-> Slice(w, 4, 0) + 1, d |-> d, n |-> n,
                  st |-> sh[1], sn |-> sh[2], unp |-> BadReg(d) \/ BadReg(n) \/ Bit(w, 5) # 0 \/ Bit(w, 26) # 0]
       [] o \in {24, 26} ->
            LET sh == ImmShift(Bit(w, 21) * 2, Slice(w, 14, 12) * 4 + Slice(w, 7, 6)) IN
            IF o = 26 /\ Slice(w, 14, 12) = 0 /\ Slice(w, 7, 6) = 0
            THEN [k |-> "sat", enc |-> "USAT16_T1", unsigned |-> TRUE, dual |-> TRUE, satto |-> Slice(w, 3, 0), d |-> d, n |-> n,
                  st |-> "LSL", sn |-> 0, unp |-> BadReg(d) \/ BadReg(n) \/ Slice(w, 5, 4) # 0 \/ Bit(w, 26) # 0]
            ELSE [k |-> "sat", enc |-> "USAT_T1", unsigned |-> TRUE, dual |-> FALSE, satto |-> Slice(w, 4, 0), d |-> d, n |-> n,
                  st |-> sh[1], sn |-> sh[2], unp |-> BadReg(d) \/ BadReg(n)]
       [] o = 20 -> [k |-> "misc", enc |-> "SBFX_T1", op |-> "SBFX", d |-> d, n |-> n, lsb |-> Slice(w, 14, 12) * 4 + Slice(w, 7, 6),
                     widthm1 |-> Slice(w, 4, 0), unp |-> BadReg(d) \/ BadReg(n)]
       [] o = 28 -> [k |-> "misc", enc |-> "UBFX_T1", op |-> "UBFX", d |-> d, n |-> n, lsb |-> Slice(w, 14, 12) * 4 + Slice(w, 7, 6),
                     widthm1 |-> Slice(w, 4, 0), unp |-> BadReg(d) \/ BadReg(n)]
       [] o = 22 -> IF n = 15 THEN [k |-> "misc", enc |-> "BFC_T1", op |-> "BFC", d |-> d, lsb |-> Slice(w, 14, 12) * 4 + Slice(w, 7, 6),
                                    msb |-> Slice(w, 4, 0), unp |-> BadReg(d)]
                    ELSE [k |-> "misc", enc |-> "BFI_T1", op |-> "BFI", d |-> d, n |-> n, lsb |-> Slice(w, 14, 12) * 4 + Slice(w, 7, 6),
                          msb |-> Slice(w, 4, 0), unp |-> BadReg(d) \/ n = 13]
       [] OTHER  -> Undef



\* A6.3.12 data-processing (register), A6.3.13-15 parallel add/sub and miscellaneous operations
T32DPReg(w, dx) ==
  LET op1 == Slice(w, 23, 20)  n == Slice(w, 19, 16)  d == Slice(w, 11, 8)  op2 == Slice(w, 7, 4)  m == Slice(w, 3, 0)
      br == BadReg(d) \/ BadReg(m)
  IN IF Slice(w, 15, 12) # 15 THEN Undef
     ELSE IF op1 \div 8 = 0 /\ op2 = 0 THEN
          DP(<<"LSL", "LSR", "ASR", "ROR">>[(op1 \div 2) + 1] \o "_r_T2", "MOV", d, 0, op1 % 2 = 1,
             [t |-> "rsr", m |-> n, st |-> SRNames[(op1 \div 2) + 1], rs |-> m], br \/ BadReg(n))
     ELSE IF op1 \div 8 = 0 /\ op2 \div 8 = 1 THEN
          IF op1 > 5 THEN Undef
          ELSE LET sg == op1 % 2 = 0
                   wd == CASE op1 \div 2 = 0 -> "H" [] op1 \div 2 = 1 -> "B16" [] op1 \div 2 = 2 -> "B"
               IN EXT((IF sg THEN "SXT" ELSE "UXT") \o (IF n = 15 THEN "" ELSE "A") \o wd \o "_T", sg, wd, 8 * Slice(w, 5, 4), d, n, m,
                      br \/ n = 13 \/ Bit(w, 6) # 0)
     ELSE IF op1 \div 8 = 1 /\ op2 \div 8 = 0 THEN
          LET uns == op2 \div 4 = 1  pp == op2 % 4
              pfx == IF uns THEN <<"U", "UQ", "UH", "x">>[pp + 1] ELSE <<"S", "Q", "SH", "x">>[pp + 1]
              o == CASE op1 % 8 = 1 -> "ADD16" [] op1 % 8 = 2 -> "ASX" [] op1 % 8 = 6 -> "SAX" [] op1 % 8 = 5 -> "SUB16"
                     [] op1 % 8 = 0 -> "ADD8" [] op1 % 8 = 4 -> "SUB8" [] OTHER -> "x"
          IN IF pfx = "x" \/ o = "x" THEN Undef ELSE PAR(pfx \o o \o "_T1", pfx, o, d, n, m, br \/ BadReg(n))
     ELSE IF op1 \div 4 = 2 /\ op2 \div 4 = 2 THEN
          LET q == op2 % 4 IN
          CASE op1 = 8 -> [k |-> "qarith", enc |-> <<"QADD_T1", "QDADD_T1", "QSUB_T1", "QDSUB_T1">>[q + 1], double |-> q % 2 = 1, sub |-> q \div 2 = 1,
                           d |-> d, n |-> n, m |-> m, unp |-> br \/ BadReg(n)]
            [] op1 = 9 -> MISC1(<<"REV_T2", "REV16_T2", "RBIT_T1", "REVSH_T2">>[q + 1], <<"REV", "REV16", "RBIT", "REVSH">>[q + 1], d, m, br \/ n # m)
            [] op1 = 10 -> IF q = 0 THEN [k |-> "misc", enc |-> "SEL_T1", op |-> "SEL", d |-> d, n |-> n, m |-> m, unp |-> br \/ BadReg(n)] ELSE Undef
            [] op1 = 11 -> IF q = 0 THEN MISC1("CLZ_T1", "CLZ", d, m, br \/ n # m) ELSE Undef
     ELSE Undef
\* A6.3.16 multiply, multiply accumulate, absolute difference
T32Mul(w, dx) ==
  LET op1 == Slice(w, 22, 20)  n == Slice(w, 19, 16)  a == Slice(w, 15, 12)  d == Slice(w, 11, 8)  op2 == Slice(w, 5, 4)  m == Slice(w, 3, 0)
      br == BadReg(d) \/ BadReg(n) \/ BadReg(m)  noacc == a = 15
      hi2 == op2 \div 2 = 1  lo2 == op2 % 2 = 1
  IN IF Slice(w, 7, 6) # 0 THEN Undef
     ELSE CASE op1 = 0 /\ op2 = 0 -> IF noacc THEN MUL("MUL_T2", "MUL", d, n, m, 0, 0, 0, FALSE, br) ELSE MUL("MLA_T1", "MLA", d, n, m, a, 0, 0, FALSE, br \/ a = 13)
            [] op1 = 0 /\ op2 = 1 -> MUL("MLS_T1", "MLS", d, n, m, a, 0, 0, FALSE, br \/ BadReg(a))
            [] op1 = 1 -> IF noacc THEN HMUL("SMULxy_T1", "SMULxy", d, n, m, 0, 0, 0, hi2, lo2, FALSE, FALSE, br)
                          ELSE HMUL("SMLAxy_T1", "SMLAxy", d, n, m, a, 0, 0, hi2, lo2, FALSE, FALSE, br \/ a = 13)
            [] op1 = 2 /\ ~hi2 -> IF noacc THEN HMUL("SMUAD_T1", "SMUAD", d, n, m, 0, 0, 0, FALSE, FALSE, lo2, FALSE, br)
                                  ELSE HMUL("SMLAD_T1", "SMLAD", d, n, m, a, 0, 0, FALSE, FALSE, lo2, FALSE, br \/ a = 13)
            [] op1 = 3 /\ ~hi2 -> IF noacc THEN HMUL("SMULWy_T1", "SMULWy", d, n, m, 0, 0, 0, FALSE, lo2, FALSE, FALSE, br)
                                  ELSE HMUL("SMLAWy_T1", "SMLAWy", d, n, m, a, 0, 0, FALSE, lo2, FALSE, FALSE, br \/ a = 13)
            [] op1 = 4 /\ ~hi2 -> IF noacc THEN HMUL("SMUSD_T1", "SMUSD", d, n, m, 0, 0, 0, FALSE, FALSE, lo2, FALSE, br)
                                  ELSE HMUL("SMLSD_T1", "SMLSD", d, n, m, a, 0, 0, FALSE, FALSE, lo2, FALSE, br \/ a = 13)
            [] op1 = 5 /\ ~hi2 -> IF noacc THEN HMUL("SMMUL_T1", "SMMUL", d, n, m, 0, 0, 0, FALSE, FALSE, FALSE, lo2, br)
                                  ELSE HMUL("SMMLA_T1", "SMMLA", d, n, m, a, 0, 0, FALSE, FALSE, FALSE, lo2, br \/ a = 13)
            [] op1 = 6 /\ ~hi2 -> HMUL("SMMLS_T1", "SMMLS", d, n, m, a, 0, 0, FALSE, FALSE, FALSE, lo2, br \/ BadReg(a))
            [] op1 = 7 /\ op2 = 0 -> [k |-> "misc", enc |-> IF noacc THEN "USAD8_T1" ELSE "USADA8_T1", op |-> IF noacc THEN "USAD8" ELSE "USADA8",
                                      d |-> d, a |-> a, m |-> m, n |-> n, unp |-> br \/ a = 13]
            [] OTHER -> Undef
\* A6.3.17 long multiply, long multiply accumulate, divide
T32LongMul(w, dx) ==
  LET op1 == Slice(w, 22, 20)  n == Slice(w, 19, 16)  lo == Slice(w, 15, 12)  hi == Slice(w, 11, 8)  op2 == Slice(w, 7, 4)  m == Slice(w, 3, 0)
      br == BadReg(lo) \/ BadReg(hi) \/ BadReg(n) \/ BadReg(m) \/ hi = lo
      brd == BadReg(hi) \/ BadReg(n) \/ BadReg(m)
  IN CASE op1 = 0 /\ op2 = 0 -> MUL("SMULL_T1", "SMULL", 0, n, m, 0, hi, lo, FALSE, br)
       [] op1 = 1 /\ op2 = 15 -> [k |-> "div", enc |-> "SDIV_T1", signed |-> TRUE, d |-> hi, n |-> n, m |-> m, unp |-> brd \/ lo # 15]
       [] op1 = 2 /\ op2 = 0 -> MUL("UMULL_T1", "UMULL", 0, n, m, 0, hi, lo, FALSE, br)
       [] op1 = 3 /\ op2 = 15 -> [k |-> "div", enc |-> "UDIV_T1", signed |-> FALSE, d |-> hi, n |-> n, m |-> m, unp |-> brd \/ lo # 15]
       [] op1 = 4 /\ op2 = 0 -> MUL("SMLAL_T1", "SMLAL", 0, n, m, 0, hi, lo, FALSE, br)
       [] op1 = 4 /\ op2 \div 4 = 2 -> HMUL("SMLALxy_T1", "SMLALxy", 0, n, m, 0, hi, lo, (op2 \div 2) % 2 = 1, op2 % 2 = 1, FALSE, FALSE, br)
       [] op1 = 4 /\ op2 \div 2 = 6 -> HMUL("SMLALD_T1", "SMLALD", 0, n, m, 0, hi, lo, FALSE, FALSE, op2 % 2 = 1, FALSE, br)
       [] op1 = 5 /\ op2 \div 2 = 6 -> HMUL("SMLSLD_T1", "SMLSLD", 0, n, m, 0, hi, lo, FALSE, FALSE, op2 % 2 = 1, FALSE, br)
       [] op1 = 6 /\ op2 = 0 -> MUL("UMLAL_T1", "UMLAL", 0, n, m, 0, hi, lo, FALSE, br)
       [] op1 = 6 /\ op2 = 6 -> MUL("UMAAL_T1", "UMAAL", 0, n, m, 0, hi, lo, FALSE, br)
       [] OTHER -> Undef

\* A6.3.7-10 load/store single data item: 1111 100 S U size L Rn Rt ...
T32LSSingle(w, dx) ==
  LET S == Bit(w, 24)  U == Bit(w, 23)  sz == Slice(w, 22, 21)  L == Bit(w, 20)
      n == Slice(w, 19, 16)  t == Slice(w, 15, 12)  m == Slice(w, 3, 0)
      load == L = 1  size == IF sz = 0 THEN 1 ELSE IF sz = 1 THEN 2 ELSE 4  signed == S = 1
      nm == (IF load THEN "LDR" ELSE "STR") \o (IF signed THEN "S" ELSE "") \o (IF sz = 0 THEN "B" ELSE IF sz = 1 THEN "H" ELSE "")
      midIT == InITBlock(dx.it) /\ ~LastInITBlock(dx.it)
      \* (word stores of SP through the imm8/register forms: not certain they are predictable -> envelope only)
      tbad == IF size = 4 THEN (IF load THEN (t = 15 /\ midIT) ELSE (t = 15 \/ (t = 13 /\ U = 0))) ELSE BadReg(t)
  IN IF sz = 3 \/ (signed /\ ~load) \/ (signed /\ sz = 2) THEN Undef
     ELSE IF (~load) /\ n = 15 THEN Undef
     ELSE IF load /\ size < 4 /\ t = 15 THEN Nopish("t32-memory-hints")
     ELSE IF load /\ n = 15
          THEN LS(nm \o "_lit_T", TRUE, size, signed, t, 15, TRUE, U = 1, FALSE, ImmOff(Slice(w, 11, 0)), FALSE, TRUE,
                  tbad \/ (size < 4 /\ t = 13))
     ELSE IF U = 1
          THEN LS(nm \o "_i12_T", load, size, signed, t, n, TRUE, TRUE, FALSE, ImmOff(Slice(w, 11, 0)), FALSE, FALSE, tbad)
     ELSE IF Bit(w, 11) = 1
          THEN LET P == Bit(w, 10)  UU == Bit(w, 9)  W == Bit(w, 8) IN
               IF P = 0 /\ W = 0 THEN Undef
               ELSE IF P = 1 /\ UU = 1 /\ W = 0
                    THEN LS(nm \o "T_T1", load, size, signed, t, n, TRUE, TRUE, FALSE, ImmOff(Slice(w, 7, 0)), TRUE, FALSE,
                            BadReg(t) \/ dx.hyp)
                    ELSE LS(nm \o "_i8_T", load, size, signed, t, n, P = 1, UU = 1, W = 1, ImmOff(Slice(w, 7, 0)), FALSE, FALSE,
                            tbad \/ (W = 1 /\ n = t))
     ELSE IF Slice(w, 10, 6) = 0
          THEN LS(nm \o "_r_T2", load, size, signed, t, n, TRUE, TRUE, FALSE, RegOff(m, <<"LSL", Slice(w, 5, 4)>>), FALSE, FALSE,
                  tbad \/ BadReg(m))
     ELSE Undef

\* A6.3.6: load/store exclusive (T1 encodings, ARMv6T2 / v7)
T32Excl(w, dx) ==
  LET op1 == Slice(w, 24, 23)  op2 == Slice(w, 21, 20)  op3 == Slice(w, 7, 4)
      n == Slice(w, 19, 16)  r12 == Slice(w, 15, 12)  r8 == Slice(w, 11, 8)  r0 == Slice(w, 3, 0)
      imm == <<0, Slice(w, 7, 0) * 4>>
  IN IF dx.arch < 6 THEN Unspec("t32-exclusive-pre-v6")
     ELSE IF op1 = 0 /\ op2 = 0
     THEN [k |-> "strex", enc |-> "STREX_T1", size |-> 4, d |-> r8, t |-> r12, t2 |-> 0, n |-> n, imm |-> imm,
           unp |-> BadReg(r8) \/ BadReg(r12) \/ n = 15 \/ r8 = n \/ r8 = r12]
     ELSE IF op1 = 0 /\ op2 = 1
     THEN [k |-> "ldrex", enc |-> "LDREX_T1", size |-> 4, t |-> r12, t2 |-> 0, n |-> n, imm |-> imm,
           unp |-> BadReg(r12) \/ n = 15 \/ r8 # 15]
     ELSE IF op1 = 1 /\ op2 = 0 /\ op3 \in {4, 5, 7}
     THEN LET size == IF op3 = 4 THEN 1 ELSE IF op3 = 5 THEN 2 ELSE 8 IN
          [k |-> "strex", enc |-> "STREX" \o ExSfx(size) \o "_T1", size |-> size, d |-> r0, t |-> r12, t2 |-> r8, n |-> n, imm |-> Zero,
           unp |-> BadReg(r0) \/ BadReg(r12) \/ n = 15 \/ r0 = n \/ r0 = r12 \/
                   (IF size = 8 THEN BadReg(r8) \/ r0 = r8 ELSE r8 # 15)]
     ELSE IF op1 = 1 /\ op2 = 1 /\ op3 \in {4, 5, 7}
     THEN LET size == IF op3 = 4 THEN 1 ELSE IF op3 = 5 THEN 2 ELSE 8 IN
          [k |-> "ldrex", enc |-> "LDREX" \o ExSfx(size) \o "_T1", size |-> size, t |-> r12, t2 |-> r8, n |-> n, imm |-> Zero,
           unp |-> BadReg(r12) \/ n = 15 \/ r0 # 15 \/ (IF size = 8 THEN BadReg(r8) \/ r8 = r12 ELSE r8 # 15)]
     ELSE Unimpl("t32-exclusive-unallocated")

\* A6.3.6 load/store dual, table branch
T32DualExclTB(w, dx) ==
  LET P == Bit(w, 24)  U == Bit(w, 23)  W == Bit(w, 21)  L == Bit(w, 20)
      n == Slice(w, 19, 16)  t == Slice(w, 15, 12)  t2 == Slice(w, 11, 8)
      wback == W = 1
  IN IF P = 0 /\ W = 0
     THEN IF Slice(w, 24, 20) = 13 /\ Slice(w, 7, 5) = 0
          THEN [k |-> "tb", enc |-> IF Bit(w, 4) = 1 THEN "TBH_T1" ELSE "TBB_T1", n |-> n, m |-> Slice(w, 3, 0),
                half |-> Bit(w, 4) = 1,
                unp |-> n = 13 \/ BadReg(Slice(w, 3, 0)) \/ (InITBlock(dx.it) /\ ~LastInITBlock(dx.it)) \/ Slice(w, 15, 8) # 240]
          ELSE T32Excl(w, dx)
     ELSE IF L = 1 /\ n = 15
          THEN LSD("LDRD_lit_T1", TRUE, t, t2, 15, TRUE, U = 1, FALSE, ImmOff(Slice(w, 7, 0) * 4), TRUE,
                   BadReg(t) \/ BadReg(t2) \/ t = t2 \/ W = 1)
     ELSE LSD(IF L = 1 THEN "LDRD_i_T1" ELSE "STRD_i_T1", L = 1, t, t2, n, P = 1, U = 1, wback, ImmOff(Slice(w, 7, 0) * 4), FALSE,
              (wback /\ (n = t \/ n = t2)) \/ BadReg(t) \/ BadReg(t2) \/ (L = 1 /\ t = t2) \/ (L = 0 /\ n = 15))

\* A6.3.5 load/store multiple
T32LSM(w, dx) ==
  LET op == Slice(w, 24, 23)  W == Bit(w, 21)  L == Bit(w, 20)  n == Slice(w, 19, 16)
      regs == Lo(w)  P == Bit(w, 15)  Mb == Bit(w, 14)
      midIT == InITBlock(dx.it) /\ ~LastInITBlock(dx.it)
  IN IF op \in {0, 3}
     THEN IF L = 1
          THEN [k |-> "rfe", enc |-> "RFE_T", n |-> n, wback |-> W = 1, inc |-> op = 3, wordhigher |-> FALSE,
                unp |-> n = 15 \/ Lo(w) # 49152 \/ midIT]
          ELSE [k |-> "srs", enc |-> "SRS_T", mode |-> Slice(w, 4, 0), wback |-> W = 1, inc |-> op = 3, wordhigher |-> FALSE,
                unp |-> n # 13 \/ Slice(w, 15, 5) # 1536]
     ELSE LET am == IF op = 1 THEN "IA" ELSE "DB"
              nm == (IF L = 1 THEN "LDM" ELSE "STM") \o am \o "_T2" IN
          IF L = 1
          THEN LSM(nm, TRUE, n, regs, W = 1, am,
                   n = 15 \/ PopCnt16(regs) < 2 \/ (P = 1 /\ Mb = 1) \/ Bit(w, 13) = 1 \/ (P = 1 /\ midIT) \/ (W = 1 /\ RegIn(regs, n)))
          ELSE LSM(nm, FALSE, n, regs, W = 1, am,
                   n = 15 \/ PopCnt16(regs) < 2 \/ P = 1 \/ Bit(w, 13) = 1 \/ (W = 1 /\ RegIn(regs, n)))

T32BranchMisc(w, dx) ==
  LET op1 == Slice(w, 14, 12)  op == Slice(w, 26, 20)
      S == Bit(w, 26)  J1 == Bit(w, 13)  J2 == Bit(w, 11)
      I1 == 1 - ((J1 + S) % 2)  I2 == 1 - ((J2 + S) % 2)
      midIT == InITBlock(dx.it) /\ ~LastInITBlock(dx.it)
      midITx == midIT
      \* S:I1:I2:imm10:imm11:'0' as a 25-bit quantity in a word
      off25 == WOr(WOr(<<S * 256 + I1 * 128 + I2 * 64, 0>>, LSLw(<<0, Slice(w, 25, 16)>>, 12)),
                   <<0, Slice(w, 10, 0) * 2>>)
  IN CASE op1 \in {0, 2} ->
            IF (op \div 8) % 8 # 7
            THEN [k |-> "b", enc |-> "B_T3", cond |-> Slice(w, 25, 22), unp |-> InITBlock(dx.it),
                  imm |-> SignExtW(WOr(WOr(<<S * 16 + J2 * 8 + J1 * 4, 0>>, LSLw(<<0, Slice(w, 21, 16)>>, 12)),
                                       <<0, Slice(w, 10, 0) * 2>>), 21)]
            ELSE CASE op \in {56, 57} ->
                        [k |-> "msr", enc |-> "MSR_r_T1", spsr |-> Bit(w, 20) = 1, mask |-> Slice(w, 11, 8),
                         src |-> [t |-> "reg", n |-> Slice(w, 19, 16)],
                         unp |-> Slice(w, 11, 8) = 0 \/ BadReg(Slice(w, 19, 16)) \/ Slice(w, 7, 0) # 0 \/ Bit(w, 13) # 0]
                   [] op = 58 /\ Slice(w, 10, 8) = 0 ->
                        IF Slice(w, 7, 0) \in 0..4
                        THEN [k |-> "hint", enc |-> "HINT_T2", h |-> <<"NOP", "YIELD", "WFE", "WFI", "SEV">>[Slice(w, 7, 0) + 1],
                              unp |-> Slice(w, 19, 16) # 15 \/ Bit(w, 13) # 0 \/ Bit(w, 11) # 0]
                        ELSE Nopish("t32-hint-dbg-unallocated")
                   [] op = 58 ->
                        LET imod == Slice(w, 10, 9)  Mb == Bit(w, 8)  aif == Slice(w, 7, 5)  mode == Slice(w, 4, 0) IN
                        [k |-> "cps", enc |-> "CPS_T2", enable |-> imod = 2, disable |-> imod = 3, a |-> Bit(w, 7) = 1,
                         i_ |-> Bit(w, 6) = 1, f |-> Bit(w, 5) = 1, changemode |-> Mb = 1, mode |-> mode,
                         unp |-> (mode # 0 /\ Mb = 0) \/ (imod \div 2 = 1 /\ aif = 0) \/ (imod \div 2 = 0 /\ aif # 0) \/
                                 imod = 1 \/ InITBlock(dx.it) \/ Slice(w, 19, 16) # 15 \/ Bit(w, 13) # 0 \/ Bit(w, 11) # 0]
                   \* CLREX T1 (miscellaneous control, op 0111011, hw2<7:4> = 0010): the monitors are stubs -> nothing observable
                   [] op = 59 /\ Slice(w, 7, 4) = 2 /\ dx.arch >= 6 ->
                        [k |-> "hint", enc |-> "CLREX_T1", h |-> "NOP",
                         unp |-> Slice(w, 19, 16) # 15 \/ Slice(w, 11, 8) # 15 \/ Slice(w, 3, 0) # 15 \/ Bit(w, 13) # 0]
                   \* ENTERX / LEAVEX (ThumbEE): the emulator switches instruction-set state regardless of its have_thumbee setting
                   \* (its tests assert that); not specified
                   [] op = 59 /\ Slice(w, 7, 4) \in {0, 1} -> Unspec("t32-enterx-leavex")
                   [] op = 59 /\ Slice(w, 7, 4) > 2 -> Nopish("t32-barrier")
                   [] op = 59 /\ Slice(w, 7, 4) = 2 /\ dx.arch < 6 -> Unspec("t32-clrex-pre-v6")
                   [] op = 60 -> [k |-> "bxj", enc |-> "BXJ_T1", m |-> Slice(w, 19, 16),
                                  unp |-> BadReg(Slice(w, 19, 16)) \/ midITx \/ Slice(w, 11, 0) # 3840 \/ Bit(w, 13) # 0]
                   [] op = 61 ->
                        IF dx.hyp /\ Slice(w, 7, 0) # 0 THEN Undef          \* SUBS PC, LR is UNDEFINED in Hyp mode (decode-time check)
                        ELSE
                        [k |-> "excret", enc |-> IF Slice(w, 7, 0) = 0 THEN "ERET_T1" ELSE "SUBS_PC_LR_T1",
                              eret |-> Slice(w, 7, 0) = 0, op |-> "SUB", n |-> 14, o2 |-> ImmO2(Slice(w, 7, 0)),
                              unp |-> midITx \/ Slice(w, 19, 16) # 14 \/ Slice(w, 11, 8) # 15 \/ Bit(w, 13) # 0]
                   [] op \in {62, 63} ->
                        [k |-> "mrs", enc |-> "MRS_T1", spsr |-> Bit(w, 20) = 1, d |-> Slice(w, 11, 8),
                         unp |-> BadReg(Slice(w, 11, 8)) \/ Slice(w, 19, 16) # 15 \/ Slice(w, 7, 0) # 0 \/ Bit(w, 13) # 0]
                   [] op = 127 /\ op1 = 0 -> [k |-> "smc", enc |-> "SMC_T1", unp |-> midITx \/ Slice(w, 11, 0) # 0]
                   [] op = 127 /\ op1 = 2 -> [k |-> "undef", enc |-> "UDF_T2", unp |-> FALSE]
                   [] OTHER -> Unimpl("t32-misc-control-other")
       [] op1 \in {1, 3} -> [k |-> "b", enc |-> "B_T4", imm |-> SignExtW(off25, 25), unp |-> midIT]
       [] op1 \in {5, 7} -> [k |-> "bl", enc |-> "BL_T1", tiset |-> "THUMB", imm |-> SignExtW(off25, 25), unp |-> midIT]
       [] op1 \in {4, 6} -> IF Bit(w, 0) = 1 THEN Undef
                            ELSE [k |-> "bl", enc |-> "BLX_i_T2", tiset |-> "ARM", imm |-> SignExtW(off25, 25), unp |-> midIT]

T32Decode(w, dx) ==
  LET op1 == Slice(w, 28, 27)  op2 == Slice(w, 26, 20)  op == Bit(w, 15) IN
  CASE op1 = 1 -> IF op2 \div 64 = 1 THEN (IF Slice(w, 25, 24) = 3 THEN Unimpl("t32-advsimd-dp") ELSE CoprocSpace(w, "_T1", TRUE))
                  ELSE IF op2 \div 32 = 1 THEN T32DPShiftedReg(w)
                  ELSE IF (op2 \div 4) % 2 = 0 THEN T32LSM(w, dx) ELSE T32DualExclTB(w, dx)
    [] op1 = 2 -> IF op = 1 THEN T32BranchMisc(w, dx)
                  ELSE IF (op2 \div 32) % 2 = 0 THEN T32DPModImm(w) ELSE T32DPPlainImm(w)
    [] op1 = 3 -> IF op2 \div 64 = 1 THEN (IF Slice(w, 25, 24) = 3 THEN Unimpl("t32-advsimd-dp") ELSE CoprocSpace(w, "_T2", TRUE))
                  ELSE IF op2 \div 32 = 0 THEN (IF op2 \div 16 = 1 /\ op2 % 2 = 0 THEN Unimpl("t32-advsimd-ls") ELSE T32LSSingle(w, dx))
                  ELSE IF op2 \div 16 = 2 THEN T32DPReg(w, dx)
                  ELSE IF op2 \div 8 = 6 THEN T32Mul(w, dx)
                  ELSE T32LongMul(w, dx)
    [] OTHER -> Unspec("t32-bad-prefix")

-----------------------------------------------------------------------------
\* iset: 0 = ARM, 1 = Thumb; len in {16, 32}; w a word (16-bit instructions in the low limb)
Decode(iset, w, len, dx) ==
  IF iset = 0 THEN ArmDecode(w, dx)
  ELSE IF len = 16 THEN T16Decode(Lo(w), dx)
  ELSE T32Decode(w, dx)

\* the condition the instruction executes under (A8.3 CurrentCond)
CondOf(iset, w, len, i, dx) ==
  IF iset = 0 THEN Slice(w, 31, 28)
  ELSE IF i.k = "b" /\ i.enc \in {"B_T1", "B_T3"} THEN i.cond
  ELSE ITCond(dx.it)
=============================================================================
