-------------------------------- MODULE Media --------------------------------
(***************************************************************************)
(* Multiply, divide, saturating, packed-SIMD, extend, bit-field, pack and  *)
(* reverse instructions (ARM ARM A8: MUL MLA MLS UMULL UMLAL UMAAL SMULL   *)
(* SMLAL SMUL/SMLA<x><y> SMULW/SMLAW SMLAL<x><y> SMUAD/SMUSD/SMLAD/SMLSD   *)
(* SMLALD/SMLSLD SMMUL/SMMLA/SMMLS SDIV UDIV QADD QSUB QDADD QDSUB SSAT    *)
(* USAT SSAT16 USAT16, the parallel add/subtract family, SEL USAD8 USADA8, *)
(* SXT*/UXT* (+ accumulate forms), BFC BFI SBFX UBFX PKH REV REV16 REVSH    *)
(* RBIT CLZ).  8/16-bit lanes are computed on plain integers, 32/64-bit    *)
(* quantities on limbs (W32).                                              *)
(***************************************************************************)
EXTENDS ISA

\* small signed integer -> word / quad (two's complement); |i| < 2^31
SW(i) == IF i >= 0 THEN FromNat(i) ELSE Neg(FromNat(-i))
SQ(i) == QSExt(SW(i))
\* halfword / byte lanes of a word as unsigned and signed integers
HalfU(w, hi) == IF hi THEN w[1] ELSE w[2]
HalfS(w, hi) == LET h == HalfU(w, hi) IN IF h >= 32768 THEN h - 65536 ELSE h
ByteU(w, k) == Byte(w, k)
ByteS(w, k) == LET b == Byte(w, k) IN IF b >= 128 THEN b - 256 ELSE b
MkHalves(hi, lo) == <<hi % 65536, lo % 65536>>
MkBytes(b3, b2, b1, b0) == <<(b3 % 256) * 256 + (b2 % 256), (b1 % 256) * 256 + (b0 % 256)>>
\* a 64-bit value fits a signed 32-bit word?
FitsS32(q) == QSExt(QLo(q)) = q
SatS32(q) == IF FitsS32(q) THEN <<QLo(q), FALSE>> ELSE IF QIsNeg(q) THEN <<<<32768, 0>>, TRUE>> ELSE <<<<32767, 65535>>, TRUE>>
SetQ(x) == [x EXCEPT !.s.cpsr = SetBitW(@, 27, 1)]
SetQIf(x, c) == IF c THEN SetQ(x) ELSE x
SatSI(i, n) == IF i > 2^(n-1) - 1 THEN <<2^(n-1) - 1, TRUE>> ELSE IF i < -(2^(n-1)) THEN <<-(2^(n-1)), TRUE>> ELSE <<i, FALSE>>
SatUI(i, n) == IF i > 2^n - 1 THEN <<2^n - 1, TRUE>> ELSE IF i < 0 THEN <<0, TRUE>> ELSE <<i, FALSE>>
SetNZq(c, q) == SetBitW(SetBitW(c, 31, IF QIsNeg(q) THEN 1 ELSE 0), 30, IF q = QZero THEN 1 ELSE 0)

\* i = [k |-> "mul", op, d, n, m, a, dhi, dlo, S, ...]
ExecMul(x, i) ==
  LET s == x.s
      rn == Rget(s, i.n)  rm == Rget(s, i.m)
      v4c(x1) == IF s.cfg.arch = 4 /\ i.S THEN [x1 EXCEPT !.dcC = WOr(@, <<8192, 0>>)] ELSE x1           \* C UNKNOWN on ARMv4
      v4cv(x1) == IF s.cfg.arch = 4 /\ i.S THEN [x1 EXCEPT !.dcC = WOr(@, <<12288, 0>>)] ELSE x1         \* C and V
      put32(r) == LET x1 == RsetX(x, i.d, r) IN v4c(IF i.S THEN [x1 EXCEPT !.s.cpsr = SetNZ(@, r)] ELSE x1)
      put64(q) == LET x1 == RsetX(RsetX(x, i.dhi, QHi(q)), i.dlo, QLo(q))
                  IN v4cv(IF i.S THEN [x1 EXCEPT !.s.cpsr = SetNZq(@, q)] ELSE x1)
      acc64 == QMk(Rget(s, i.dhi), Rget(s, i.dlo))
  IN CASE i.op = "MUL"   -> put32(MulLo(rn, rm))
       [] i.op = "MLA"   -> put32(Add(MulLo(rn, rm), Rget(s, i.a)))
       [] i.op = "MLS"   -> RsetX(x, i.d, Sub(Rget(s, i.a), MulLo(rn, rm)))
       [] i.op = "UMULL" -> put64(MulUU(rn, rm))
       [] i.op = "UMLAL" -> put64(QAdd(MulUU(rn, rm), acc64))
       [] i.op = "UMAAL" -> put64(QAdd(QAdd(MulUU(rn, rm), QZExt(Rget(s, i.dhi))), QZExt(Rget(s, i.dlo))))
       [] i.op = "SMULL" -> put64(MulSS(rn, rm))
       [] i.op = "SMLAL" -> put64(QAdd(MulSS(rn, rm), acc64))

\* halfword and dual multiplies: i = [op, d, n, m, a, dhi, dlo, nh, mh (use high half), swap, round, sub]
ExecHMul(x, i) ==
  LET s == x.s
      rn == Rget(s, i.n)  rm == Rget(s, i.m)
      o1 == HalfS(rn, i.nh)  o2 == HalfS(rm, i.mh)
      p  == SQ(o1 * o2)
      acc64 == QMk(Rget(s, i.dhi), Rget(s, i.dlo))
      \* dual: operand2 = swap ? ROR(R[m],16) : R[m]; product1 = lo*lo, product2 = hi*hi
      m2 == IF i.swap THEN <<rm[2], rm[1]>> ELSE rm
      p1 == SQ(HalfS(rn, FALSE) * HalfS(m2, FALSE))
      p2 == SQ(HalfS(rn, TRUE) * HalfS(m2, TRUE))
      wprod == MulSS(rn, SW(o2))                         \* 32 x 16 signed
  IN CASE i.op = "SMLAxy" -> LET r == QAdd(p, QSExt(Rget(s, i.a))) IN SetQIf(RsetX(x, i.d, QLo(r)), ~FitsS32(r))
       [] i.op = "SMULxy" -> RsetX(x, i.d, QLo(p))
       [] i.op = "SMLALxy" -> LET r == QAdd(p, acc64) IN RsetX(RsetX(x, i.dhi, QHi(r)), i.dlo, QLo(r))
       [] i.op = "SMULWy" -> RsetX(x, i.d, <<wprod[2], wprod[3]>>)                       \* product<47:16>
       [] i.op = "SMLAWy" -> LET a16 == LET a == Rget(s, i.a) IN <<(IF IsNeg(a) THEN MM ELSE 0), a[1], a[2], 0>>     \* SInt(R[a]) << 16
                                 r == QAdd(wprod, a16)
                                 res == <<r[2], r[3]>>
                             IN SetQIf(RsetX(x, i.d, res), QAsrL(r) # QSExt(res))
       [] i.op = "SMUAD" -> LET r == QAdd(p1, p2) IN SetQIf(RsetX(x, i.d, QLo(r)), ~FitsS32(r))
       [] i.op = "SMUSD" -> RsetX(x, i.d, QLo(QSub(p1, p2)))
       [] i.op = "SMLAD" -> LET r == QAdd(QAdd(p1, p2), QSExt(Rget(s, i.a))) IN SetQIf(RsetX(x, i.d, QLo(r)), ~FitsS32(r))
       [] i.op = "SMLSD" -> LET r == QAdd(QSub(p1, p2), QSExt(Rget(s, i.a))) IN SetQIf(RsetX(x, i.d, QLo(r)), ~FitsS32(r))
       [] i.op = "SMLALD" -> LET r == QAdd(QAdd(p1, p2), acc64) IN RsetX(RsetX(x, i.dhi, QHi(r)), i.dlo, QLo(r))
       [] i.op = "SMLSLD" -> LET r == QAdd(QSub(p1, p2), acc64) IN RsetX(RsetX(x, i.dhi, QHi(r)), i.dlo, QLo(r))
       [] i.op \in {"SMMUL", "SMMLA", "SMMLS"} ->
            LET prod == MulSS(rn, rm)
                a0   == IF i.op = "SMMUL" THEN QZero ELSE QMk(Rget(s, i.a), Zero)          \* SInt(R[a]) << 32
                r0   == IF i.op = "SMMLS" THEN QSub(a0, prod) ELSE QAdd(a0, prod)
                r    == IF i.round THEN QAdd(r0, <<0, 0, 32768, 0>>) ELSE r0
            IN RsetX(x, i.d, QHi(r))

ExecDiv(x, i) ==
  LET s == x.s  rn == Rget(s, i.n)  rm == Rget(s, i.m) IN
  IF IsZeroW(rm)
  THEN IF s.cfg.v7r /\ Bit(s.sys.SCTLR, 19) = 1 THEN Raise(x, "undef") ELSE RsetX(x, i.d, Zero)
  ELSE RsetX(x, i.d, IF i.signed THEN SDiv(rn, rm) ELSE UDiv(rn, rm))

\* QADD QSUB QDADD QDSUB
ExecQArith(x, i) ==
  LET s == x.s  rn == QSExt(Rget(s, i.n))  rm == QSExt(Rget(s, i.m))
      dbl == SatS32(QAdd(rn, rn))
      o2  == IF i.double THEN QSExt(dbl[1]) ELSE rn
      r   == SatS32(IF i.sub THEN QSub(rm, o2) ELSE QAdd(rm, o2))
  IN SetQIf(RsetX(x, i.d, r[1]), r[2] \/ (i.double /\ dbl[2]))

\* SSAT / USAT / SSAT16 / USAT16 : i = [unsigned, satto, n, d, st, sn, dual]
ExecSat(x, i) ==
  LET s == x.s IN
  IF i.dual
  THEN LET lo == HalfS(Rget(s, i.n), FALSE)  hi == HalfS(Rget(s, i.n), TRUE)
           r1 == IF i.unsigned THEN SatUI(lo, i.satto) ELSE SatSI(lo, i.satto)
           r2 == IF i.unsigned THEN SatUI(hi, i.satto) ELSE SatSI(hi, i.satto)
       IN SetQIf(RsetX(x, i.d, MkHalves(r2[1], r1[1])), r1[2] \/ r2[2])
  ELSE LET opnd == ShiftW(Rget(s, i.n), i.st, i.sn, CFlag(x))
           neg == IsNeg(opnd)
           \* compare the signed 32-bit operand against the saturation range on limbs
           maxs == IF i.unsigned THEN (IF i.satto = 0 THEN Zero ELSE LSRw(AllOnes, 32 - i.satto)) ELSE LSRw(AllOnes, 33 - i.satto)
           mins == IF i.unsigned THEN Zero ELSE WNot(maxs)                                   \* -(2^(n-1))
           over == (~neg) /\ Lt(maxs, opnd)
           under == neg /\ (IF i.unsigned THEN TRUE ELSE Lt(opnd, mins))
           r == IF over THEN maxs ELSE IF under THEN mins ELSE opnd
       IN SetQIf(RsetX(x, i.d, r), over \/ under)

\* parallel add/subtract: i = [pfx ("S","Q","SH","U","UQ","UH"), op ("ADD16","ASX","SAX","SUB16","ADD8","SUB8")]
ExecParallel(x, i) ==
  LET s == x.s  rn == Rget(s, i.n)  rm == Rget(s, i.m)
      signed == i.pfx \in {"S", "Q", "SH"}
      Hf(w, hi) == IF signed THEN HalfS(w, hi) ELSE HalfU(w, hi)
      Bt(w, k) == IF signed THEN ByteS(w, k) ELSE ByteU(w, k)
      \* lane results as integers
      lanes16 == CASE i.op = "ADD16" -> <<Hf(rn, FALSE) + Hf(rm, FALSE), Hf(rn, TRUE) + Hf(rm, TRUE)>>
                   [] i.op = "SUB16" -> <<Hf(rn, FALSE) - Hf(rm, FALSE), Hf(rn, TRUE) - Hf(rm, TRUE)>>
                   [] i.op = "ASX"   -> <<Hf(rn, FALSE) - Hf(rm, TRUE), Hf(rn, TRUE) + Hf(rm, FALSE)>>      \* diff (low), sum (high)
                   [] i.op = "SAX"   -> <<Hf(rn, FALSE) + Hf(rm, TRUE), Hf(rn, TRUE) - Hf(rm, FALSE)>>      \* sum (low), diff (high)
                   [] OTHER -> <<0, 0>>
      isAdd16 == CASE i.op = "ADD16" -> <<TRUE, TRUE>> [] i.op = "SUB16" -> <<FALSE, FALSE>> [] i.op = "ASX" -> <<FALSE, TRUE>>
                   [] i.op = "SAX" -> <<TRUE, FALSE>> [] OTHER -> <<TRUE, TRUE>>
      lanes8 == IF i.op = "ADD8" THEN [k \in 1..4 |-> Bt(rn, k - 1) + Bt(rm, k - 1)] ELSE [k \in 1..4 |-> Bt(rn, k - 1) - Bt(rm, k - 1)]
      is8 == i.op \in {"ADD8", "SUB8"}
      fin(v, w) == CASE i.pfx = "Q"  -> SatSI(v, w)[1] [] i.pfx = "UQ" -> SatUI(v, w)[1]
                     [] i.pfx \in {"SH", "UH"} -> (IF v >= 0 THEN v \div 2 ELSE -((-v + 1) \div 2))          \* arithmetic shift right by 1 (floor)
                     [] OTHER -> v
      \* GE: signed: result >= 0; unsigned add: carry (>= 2^w); unsigned sub: no borrow (>= 0)
      ge(v, w, add) == IF signed THEN v >= 0 ELSE IF add THEN v >= 2^w ELSE v >= 0
      res == IF is8 THEN MkBytes(fin(lanes8[4], 8), fin(lanes8[3], 8), fin(lanes8[2], 8), fin(lanes8[1], 8))
             ELSE MkHalves(fin(lanes16[2], 16), fin(lanes16[1], 16))
      gebits == IF is8 THEN (IF ge(lanes8[1], 8, i.op = "ADD8") THEN 1 ELSE 0) + (IF ge(lanes8[2], 8, i.op = "ADD8") THEN 2 ELSE 0)
                          + (IF ge(lanes8[3], 8, i.op = "ADD8") THEN 4 ELSE 0) + (IF ge(lanes8[4], 8, i.op = "ADD8") THEN 8 ELSE 0)
                ELSE (IF ge(lanes16[1], 16, isAdd16[1]) THEN 3 ELSE 0) + (IF ge(lanes16[2], 16, isAdd16[2]) THEN 12 ELSE 0)
      x1 == RsetX(x, i.d, res)
  IN IF i.pfx \in {"S", "U"} THEN [x1 EXCEPT !.s.cpsr = SetGE(@, gebits)] ELSE x1

\* misc media: i.op in SEL USAD8 USADA8 SXT.. UXT.. PKHBT PKHTB REV REV16 REVSH RBIT CLZ BFC BFI SBFX UBFX
ExecMisc(x, i) ==
  LET s == x.s IN
  CASE i.op = "SEL" ->
         LET rn == Rget(s, i.n)  rm == Rget(s, i.m)  ge == PGE(s.cpsr)
             pick(k) == IF (ge \div 2^k) % 2 = 1 THEN Byte(rn, k) ELSE Byte(rm, k)
         IN RsetX(x, i.d, MkBytes(pick(3), pick(2), pick(1), pick(0)))
    [] i.op \in {"USAD8", "USADA8"} ->
         LET rn == Rget(s, i.n)  rm == Rget(s, i.m)
             ad(k) == LET d == Byte(rn, k) - Byte(rm, k) IN IF d < 0 THEN -d ELSE d
             sum == ad(0) + ad(1) + ad(2) + ad(3)
         IN RsetX(x, i.d, IF i.op = "USADA8" THEN Add(Rget(s, i.a), FromNat(sum)) ELSE FromNat(sum))
    [] i.op = "EXT" ->                       \* i = [signed, w ("B","H","B16"), rot, n (15 = no accumulate)]
         LET rot == RORw(Rget(s, i.m), i.rot)
             base == IF i.n = 15 THEN Zero ELSE Rget(s, i.n)
             e8(b) == IF i.signed /\ b >= 128 THEN b + 65280 ELSE b                 \* 8 -> 16 bits
             r == CASE i.w = "B" -> Add(base, IF i.signed THEN SignExtW(<<0, Byte(rot, 0)>>, 8) ELSE <<0, Byte(rot, 0)>>)
                    [] i.w = "H" -> Add(base, IF i.signed THEN SignExtW(<<0, rot[2]>>, 16) ELSE <<0, rot[2]>>)
                    [] i.w = "B16" -> MkHalves(base[1] + e8(Byte(rot, 2)), base[2] + e8(Byte(rot, 0)))
         IN RsetX(x, i.d, r)
    [] i.op = "PKH" ->
         LET o2 == ShiftW(Rget(s, i.m), i.st, i.sn, CFlag(x))  rn == Rget(s, i.n)
         IN RsetX(x, i.d, IF i.tb THEN <<rn[1], o2[2]>> ELSE <<o2[1], rn[2]>>)
    [] i.op = "REV"   -> RsetX(x, i.d, REVw(Rget(s, i.m)))
    [] i.op = "REV16" -> RsetX(x, i.d, REV16w(Rget(s, i.m)))
    [] i.op = "REVSH" -> LET m == Rget(s, i.m) IN RsetX(x, i.d, SignExtW(<<0, (m[2] % 256) * 256 + (m[2] \div 256)>>, 16))
    [] i.op = "RBIT"  -> RsetX(x, i.d, RBITw(Rget(s, i.m)))
    [] i.op = "CLZ"   -> RsetX(x, i.d, <<0, CLZ(Rget(s, i.m))>>)
    [] i.op = "BFC"   -> IF i.msb < i.lsb THEN Unpred(x) ELSE RsetX(x, i.d, InsertW(Rget(s, i.d), i.msb, i.lsb, Zero))
    [] i.op = "BFI"   -> IF i.msb < i.lsb THEN Unpred(x) ELSE RsetX(x, i.d, InsertW(Rget(s, i.d), i.msb, i.lsb, Rget(s, i.n)))
    [] i.op \in {"SBFX", "UBFX"} ->
         LET msb == i.lsb + i.widthm1 IN
         IF msb > 31 THEN Unpred(x)
         ELSE LET f == ExtractW(Rget(s, i.n), msb, i.lsb)
              IN RsetX(x, i.d, IF i.op = "SBFX" THEN SignExtW(f, i.widthm1 + 1) ELSE f)
=============================================================================
