--------------------------------- MODULE Exc ---------------------------------
(***************************************************************************)
(* Exception entry (ARM ARM B1.8.1 vectors, B1.9 exception descriptions:   *)
(* TakeReset, TakeUndefInstrException, TakeSVCException, TakeSMCException, *)
(* TakeDataAbortException, TakePhysicalIRQException, TakePhysicalFIQ-      *)
(* Exception, TakeHypTrapException, EnterMonitorMode, EnterHypMode).       *)
(* In a state `s`, s.R.PC is the address of the instruction that caused    *)
(* the exception (for IRQ/FIQ: of the next instruction to execute).        *)
(* External aborts, debug exceptions and virtual interrupts do not exist   *)
(* in the emulator (mock hooks returning false) and are not modelled.      *)
(***************************************************************************)
EXTENDS State

HaveSec(s)  == s.cfg.sec
HaveVirt(s) == s.cfg.virt

ExcVectorBase(s) ==
  IF SCTLR_V(s) = 1 THEN <<65535, 0>>
  ELSE IF HaveSec(s) THEN s.sys.VBAR
  ELSE Zero

\* common tail for the Secure/Non-secure PL1 modes
\* useAW/useFW: this exception kind sets A (F) subject to the SCR.AW (SCR.FW) rule, which the
\* pseudocode evaluates AFTER SCR.NS has been cleared for an entry from Monitor mode
EnterPL1(s, mode, spsrv, lr, useAW, useFW, target) ==
  LET s1 == IF HaveSec(s) /\ Mode(s) = MON THEN [s EXCEPT !.sys.SCR = SetBitW(@, 0, 0)] ELSE s
      setA == useAW /\ ((~HaveSec(s1)) \/ HaveVirt(s1) \/ SCR_NS(s1) = 0 \/ SCR_AW(s1) = 1)
      setF == useFW /\ ((~HaveSec(s1)) \/ HaveVirt(s1) \/ SCR_NS(s1) = 0 \/ SCR_FW(s1) = 1)
      c1 == SetM(s1.cpsr, mode)
      s2 == [s1 EXCEPT !.cpsr = c1]
      s3 == Rset(SPSRset(s2, spsrv), 14, lr)
      c2 == SetBitW(s3.cpsr, 7, 1)
      c3 == IF setA THEN SetBitW(c2, 8, 1) ELSE c2
      c4 == IF setF THEN SetBitW(c3, 6, 1) ELSE c3
      c5 == SetBitW(SetBitW(SetBitW(SetIT(c4, 0), 24, 0), 5, SCTLR_TE(s3)), 9, SCTLR_EE(s3))
  IN SetPC([s3 EXCEPT !.cpsr = c5], target)

EnterMonitorMode(s, spsrv, lr, off) ==
  LET c1 == SetM(s.cpsr, MON)
      s2 == [s EXCEPT !.cpsr = c1]
      s3 == Rset(SPSRset(s2, spsrv), 14, lr)
      c5 == SetBitW(SetBitW(SetBitW(SetBitW(SetBitW(SetBitW(SetIT(s3.cpsr, 0), 24, 0), 5, SCTLR_TE(s3)),
                     9, SCTLR_EE(s3)), 8, 1), 7, 1), 6, 1)
  IN SetPC([s3 EXCEPT !.cpsr = c5], AddInt(s.sys.MVBAR, off))

EnterHypMode(s, spsrv, ret, off) ==
  LET c1 == SetM(s.cpsr, HYP)
      s2 == [s EXCEPT !.cpsr = c1]
      s3 == [SPSRset(s2, spsrv) EXCEPT !.elr = ret]
      c2 == SetBitW(SetBitW(SetBitW(SetIT(s3.cpsr, 0), 24, 0), 5, HSCTLR_TE(s3)), 9, HSCTLR_EE(s3))
      c3 == IF SCR_EA(s) = 0 THEN SetBitW(c2, 8, 1) ELSE c2
      c4 == IF SCR_FIQ(s) = 0 THEN SetBitW(c3, 6, 1) ELSE c3
      c5 == IF SCR_IRQ(s) = 0 THEN SetBitW(c4, 7, 1) ELSE c4
  IN SetPC([s3 EXCEPT !.cpsr = c5], AddInt(s.sys.HVBAR, off))

ClearNSIfMon(s) == IF Mode(s) = MON THEN [s EXCEPT !.sys.SCR = SetBitW(@, 0, 0)] ELSE s

TakeToHyp(s)    == HaveVirt(s) /\ HaveSec(s) /\ SCR_NS(s) = 1 /\ Mode(s) = HYP
RouteTGE(s)     == HaveVirt(s) /\ HaveSec(s) /\ ~IsSecure(s) /\ HCR_TGE(s) = 1 /\ Mode(s) = USR
ITAdvanced(s)   == [s EXCEPT !.cpsr = SetIT(@, ITAdvance(PIT(@)))]

TakeUndefInstr(s) ==
  LET th   == PT(s.cpsr) = 1
      lr   == AddInt(s.R.PC, IF th THEN 2 ELSE 4)
      pref == s.R.PC
  IN IF TakeToHyp(s) THEN EnterHypMode(s, s.cpsr, pref, 4)
     ELSE IF RouteTGE(s) THEN EnterHypMode(s, s.cpsr, pref, 20)
     ELSE EnterPL1(s, UND, s.cpsr, lr, FALSE, FALSE, AddInt(ExcVectorBase(s), 4))

\* len = length in bytes of the SVC instruction (2 or 4)
TakeSVC(s0, len) ==
  LET s  == ITAdvanced(s0)
      lr == AddInt(s.R.PC, len)
  IN IF TakeToHyp(s) THEN EnterHypMode(s, s.cpsr, lr, 8)
     ELSE IF RouteTGE(s) THEN EnterHypMode(s, s.cpsr, lr, 20)
     ELSE EnterPL1(s, SVC, s.cpsr, lr, FALSE, FALSE, AddInt(ExcVectorBase(s), 8))

TakeSMC(s0) ==
  LET s  == ITAdvanced(s0)
      lr == AddInt(s.R.PC, 4)
  IN EnterMonitorMode(ClearNSIfMon(s), s.cpsr, lr, 8)

\* kind: [alignment |-> BOOLEAN, secondstage |-> BOOLEAN]
TakeDataAbort(s, kind) ==
  LET lr   == AddInt(s.R.PC, 8)
      pref == s.R.PC
      routeHyp == HaveVirt(s) /\ HaveSec(s) /\ ~IsSecure(s) /\
                  (kind.secondstage \/ (Mode(s) = USR /\ HCR_TGE(s) = 1 /\ kind.alignment))
  IN IF TakeToHyp(s) THEN EnterHypMode(s, s.cpsr, pref, 16)
     ELSE IF routeHyp THEN EnterHypMode(s, s.cpsr, pref, 20)
     ELSE EnterPL1(s, ABT, s.cpsr, lr, TRUE, FALSE, AddInt(ExcVectorBase(s), 16))

TakeHypTrap(s) == EnterHypMode(s, s.cpsr, s.R.PC, 20)

\* s.R.PC = next instruction to execute
TakePhysicalIRQ(s) ==
  LET lr == AddInt(s.R.PC, 4)
      toMon == HaveSec(s) /\ SCR_IRQ(s) = 1
      toHyp == (HaveVirt(s) /\ HaveSec(s) /\ SCR_IRQ(s) = 0 /\ HCR_IMO(s) = 1 /\ ~IsSecure(s)) \/ Mode(s) = HYP
  IN IF toMon THEN EnterMonitorMode(ClearNSIfMon(s), s.cpsr, lr, 24)
     ELSE IF toHyp THEN EnterHypMode(s, s.cpsr, s.R.PC, 24)          \* HSR becomes UNKNOWN
     ELSE EnterPL1(s, IRQ, s.cpsr, lr, TRUE, FALSE,
                   IF SCTLR_VE(s) = 1 THEN s.cfg.irqvec ELSE AddInt(ExcVectorBase(s), 24))
TakePhysicalFIQ(s) ==
  LET lr == AddInt(s.R.PC, 4)
      toMon == HaveSec(s) /\ SCR_FIQ(s) = 1
      toHyp == (HaveVirt(s) /\ HaveSec(s) /\ SCR_FIQ(s) = 0 /\ HCR_FMO(s) = 1 /\ ~IsSecure(s)) \/ Mode(s) = HYP
  IN IF toMon THEN EnterMonitorMode(ClearNSIfMon(s), s.cpsr, lr, 28)
     ELSE IF toHyp THEN EnterHypMode(s, s.cpsr, s.R.PC, 28)
     ELSE EnterPL1(s, FIQ, s.cpsr, lr, TRUE, TRUE,
                   IF SCTLR_VE(s) = 1 THEN s.cfg.fiqvec ELSE AddInt(ExcVectorBase(s), 28))
IRQRoutedToHyp(s) == ~(HaveSec(s) /\ SCR_IRQ(s) = 1) /\
   ((HaveVirt(s) /\ HaveSec(s) /\ SCR_IRQ(s) = 0 /\ HCR_IMO(s) = 1 /\ ~IsSecure(s)) \/ Mode(s) = HYP)
FIQRoutedToHyp(s) == ~(HaveSec(s) /\ SCR_FIQ(s) = 1) /\
   ((HaveVirt(s) /\ HaveSec(s) /\ SCR_FIQ(s) = 0 /\ HCR_FMO(s) = 1 /\ ~IsSecure(s)) \/ Mode(s) = HYP)

\* Reset leaves most state UNKNOWN / IMPLEMENTATION DEFINED: it is specified as a relation
\* between the pre-state and the post-state (control registers are reset by the implementation
\* to its own reset values, so the vector base is computed from the POST system registers).
ResetOK(pre, post) ==
  LET c == post.cpsr IN
  <<  <<"cpsr.M", PM(c) = SVC>>,
      <<"cpsr.A", PA(c) = 1>>, <<"cpsr.I", PI(c) = 1>>, <<"cpsr.F", PF(c) = 1>>,
      <<"cpsr.IT", PIT(c) = 0>>, <<"cpsr.J", PJ(c) = 0>>,
      <<"cpsr.T", PT(c) = SCTLR_TE(post)>>, <<"cpsr.E", PE(c) = SCTLR_EE(post)>>,
      <<"sys.SCR", (~HaveSec(pre)) \/ SCR_NS(post) = 0>>,
      <<"R.PC", post.R.PC = (IF pre.cfg.impdefreset THEN SetBitW(pre.cfg.resetvec, 0, 0)
                             ELSE SetBitW(ExcVectorBase(post), 0, 0))>> >>
=============================================================================
