--------------------------------- MODULE W32 ---------------------------------
(***************************************************************************)
(* Computable two-limb words.  TLC integers are 32-bit signed, so a 32-bit *)
(* architectural word is a pair <<hi, lo>> of L-bit limbs (L = 16 in every *)
(* machine instance; L = 4 in MC_W32, where every operator below is        *)
(* compared with the reference BV.tla on all operands).  A 64-bit value is *)
(* <<l3, l2, l1, l0>> (most significant first).  Small quantities (shift   *)
(* amounts, field values, register numbers, byte values) are plain Nat.    *)
(* JSON form of a word: [hi, lo].  The `@type` comments are for Apalache   *)
(* (spec/apa/APA_W32.tla checks unbounded lemmas on these very operators).  *)
(***************************************************************************)
EXTENDS Naturals, Integers, Sequences, Bitwise
CONSTANT L

M   == 2^L                \* limb modulus
MM  == M - 1
WW  == 2 * L              \* word width
HL  == L \div 2
H   == 2^HL               \* half-limb modulus

IsLimb(x) == x \in 0..MM
IsWord(w) == /\ w \in Seq(Int)
             /\ Len(w) = 2
             /\ w[1] \in 0..MM
             /\ w[2] \in 0..MM

Mk(hi, lo) == <<hi, lo>>
Hi(w) == w[1]
Lo(w) == w[2]
\* @type: Seq(Int);
Zero  == <<0, 0>>
\* @type: Seq(Int);
AllOnes == <<MM, MM>>
\* n is a Nat below 2^(2L) that TLC can hold (n < 2^31)
FromNat(n) == <<(n \div M) % M, n % M>>
\* word -> Nat: only when the value is known to be small (hi limb contributes < 2^31)
ToNat(w) == w[1] * M + w[2]
IsSmall(w) == w[1] < (M \div 2)         \* value < 2^(2L-1): safe for ToNat at L = 16

\* @type: (Seq(Int), Seq(Int)) => Bool;
Eq(a, b) == a[1] = b[1] /\ a[2] = b[2]
\* @type: (Seq(Int), Seq(Int)) => Bool;
Lt(a, b) == a[1] < b[1] \/ (a[1] = b[1] /\ a[2] < b[2])
\* @type: (Seq(Int), Seq(Int)) => Bool;
Le(a, b) == a[1] < b[1] \/ (a[1] = b[1] /\ a[2] <= b[2])
\* @type: Seq(Int) => Bool;
IsZeroW(a) == a[1] = 0 /\ a[2] = 0

WAnd(a, b) == <<a[1] & b[1], a[2] & b[2]>>
WOr(a, b)  == <<a[1] | b[1], a[2] | b[2]>>
WXor(a, b) == <<a[1] ^^ b[1], a[2] ^^ b[2]>>
\* @type: Seq(Int) => Seq(Int);
WNot(a)    == <<MM - a[1], MM - a[2]>>

\* 2^e for e >= 0 (1 for a negative e: only ever evaluated there in a branch that is not taken; written this way
\* because Apalache's constant folder visits both branches of an IF and rejects a negative literal exponent)
\* @type: Int => Int;
P2(e) == 2^(IF e > 0 THEN e ELSE 0)
\* bit i (0 = lsb) of a word, as 0/1
\* @type: (Seq(Int), Int) => Int;
Bit(a, i) == IF i >= L THEN (a[1] \div P2(i - L)) % 2 ELSE (a[2] \div 2^i) % 2
\* @type: Seq(Int) => Int;
TopBit(a) == a[1] \div (M \div 2)
\* a<hi:lo> as a Nat; requires hi - lo + 1 <= L (result fits a limb) -- fields are at most 16 bits
\* wide slices use SliceW below
\* @type: (Seq(Int), Int, Int) => Int;
Slice(a, hi, lo) ==
  IF lo >= L THEN (a[1] \div 2^(lo - L)) % 2^(hi - lo + 1)
  ELSE IF hi < L THEN (a[2] \div 2^lo) % 2^(hi - lo + 1)
  ELSE (a[2] \div 2^lo) + ((a[1] % 2^(hi - L + 1)) * 2^(L - lo))

\* plain shifts (also defined, with carry, in the shift section below)
\* @type: (Seq(Int), Int) => Seq(Int);
LSLwF(a, n) ==
  IF n = 0 THEN a
  ELSE IF n >= WW THEN Zero
  ELSE IF n >= L THEN <<(a[2] * P2(n - L)) % M, 0>>
  ELSE <<((a[1] * 2^n) % M) + ((a[2] * 2^n) \div M), (a[2] * 2^n) % M>>
\* @type: (Seq(Int), Int) => Seq(Int);
LSRwF(a, n) ==
  IF n = 0 THEN a
  ELSE IF n >= WW THEN Zero
  ELSE IF n >= L THEN <<0, a[1] \div P2(n - L)>>
  ELSE <<a[1] \div 2^n, (a[2] \div 2^n) + ((a[1] % 2^n) * P2(L - n))>>
\* word-valued fields
MaskW(hi, lo)         == LSLwF(LSRwF(AllOnes, WW - (hi - lo + 1)), lo)
ExtractW(w, hi, lo)   == WAnd(LSRwF(w, lo), LSRwF(AllOnes, WW - (hi - lo + 1)))
InsertW(w, hi, lo, v) == WOr(WAnd(w, WNot(MaskW(hi, lo))), WAnd(LSLwF(v, lo), MaskW(hi, lo)))

-----------------------------------------------------------------------------
(* addition *)
\* <<result, carry_out, overflow>> of a + b + cin
\* @type: (Seq(Int), Seq(Int), Int) => <<Seq(Int), Int, Int>>;
AddC(a, b, cin) ==
  LET s0 == a[2] + b[2] + cin
      s1 == a[1] + b[1] + (s0 \div M)
      \* @type: Seq(Int);
      r  == <<s1 % M, s0 % M>>
      c  == s1 \div M
      sa == a[1] \div (M \div 2)
      sb == b[1] \div (M \div 2)
      sr == r[1] \div (M \div 2)
  IN <<r, c, IF sa = sb /\ sr # sa THEN 1 ELSE 0>>
\* @type: (Seq(Int), Seq(Int)) => Seq(Int);
Add(a, b)  == AddC(a, b, 0)[1]
\* @type: (Seq(Int), Seq(Int)) => Seq(Int);
Sub(a, b)  == AddC(a, WNot(b), 1)[1]
Neg(a)     == Sub(Zero, a)
\* n a (small) integer, possibly negative
AddInt(a, n) == IF n >= 0 THEN Add(a, FromNat(n)) ELSE Sub(a, FromNat(-n))

-----------------------------------------------------------------------------
(* shifts; n is any Nat; the _C forms are for n >= 1 (as in the pseudocode) *)
\* @type: (Seq(Int), Int) => Seq(Int);
LSLw(a, n) == LSLwF(a, n)
\* @type: (Seq(Int), Int) => Seq(Int);
LSRw(a, n) == LSRwF(a, n)
\* a word with the top n bits set (0 <= n <= WW)
\* @type: Int => Seq(Int);
TopMask(n) ==
  IF n = 0 THEN Zero
  ELSE IF n >= WW THEN AllOnes
  ELSE IF n >= L THEN <<MM, M - P2(WW - n)>>
  ELSE <<M - P2(L - n), 0>>
ASRw(a, n) ==
  IF n = 0 THEN a
  ELSE IF TopBit(a) = 1 THEN WOr(LSRw(a, n), TopMask(n)) ELSE LSRw(a, n)
RORw(a, n) ==
  LET m == n % WW IN IF m = 0 THEN a ELSE WOr(LSRw(a, m), LSLw(a, WW - m))

LSL_C(a, n) == <<LSLw(a, n), IF n > WW THEN 0 ELSE Bit(a, WW - n)>>
LSR_C(a, n) == <<LSRw(a, n), IF n > WW THEN 0 ELSE Bit(a, n - 1)>>
ASR_C(a, n) == <<ASRw(a, n), IF n > WW THEN TopBit(a) ELSE Bit(a, n - 1)>>
ROR_C(a, n) == LET r == RORw(a, n) IN <<r, TopBit(r)>>
RRX_C(a, c) == <<<<(a[1] \div 2) + c * (M \div 2), (a[2] \div 2) + (a[1] % 2) * (M \div 2)>>, a[2] % 2>>

Shift_C(a, t, amount, cin) ==
  IF amount = 0 THEN <<a, cin>>
  ELSE CASE t = "LSL" -> LSL_C(a, amount)
         [] t = "LSR" -> LSR_C(a, amount)
         [] t = "ASR" -> ASR_C(a, amount)
         [] t = "ROR" -> ROR_C(a, amount)
         [] t = "RRX" -> RRX_C(a, cin)
ShiftW(a, t, amount, cin) == Shift_C(a, t, amount, cin)[1]

-----------------------------------------------------------------------------
(* extension of small fields to words *)
\* x is an n-bit Nat (n <= 2L-1 and x < 2^31); result: sign-extended word
SignExtN(x, n) ==
  IF (x \div 2^(n-1)) % 2 = 1
  THEN WOr(FromNat(x), TopMask(WW - n))
  ELSE FromNat(x)
\* sign-extend the low n bits of a word (1 <= n <= WW)
SignExtW(v, n) == IF n >= WW THEN v
                  ELSE IF Bit(v, n - 1) = 1 THEN WOr(v, TopMask(WW - n)) ELSE WAnd(v, WNot(TopMask(WW - n)))
\* sign of a word as an integer test
IsNeg(a) == TopBit(a) = 1

\* byte i (0 = least significant) of a word; bytes -> word (little-endian list b0..b3)
Byte(a, i) == IF 8 * i >= L THEN (a[1] \div 2^(8 * i - L)) % 256 ELSE (a[2] \div 2^(8 * i)) % 256

-----------------------------------------------------------------------------
(* counting *)
RECURSIVE PopCnt(_)
PopCnt(x)    == IF x = 0 THEN 0 ELSE (x % 2) + PopCnt(x \div 2)
BitCountW(a) == PopCnt(a[1]) + PopCnt(a[2])
RECURSIVE LimbLen(_)
LimbLen(x)   == IF x = 0 THEN 0 ELSE 1 + LimbLen(x \div 2)      \* position of highest set bit + 1
CLZ(a)       == IF a[1] # 0 THEN L - LimbLen(a[1]) ELSE WW - LimbLen(a[2])
RECURSIVE LimbLowest(_)
LimbLowest(x) == IF x % 2 = 1 THEN 0 ELSE 1 + LimbLowest(x \div 2)   \* x # 0
LowestSetBitW(a) == IF a[2] # 0 THEN LimbLowest(a[2]) ELSE IF a[1] # 0 THEN L + LimbLowest(a[1]) ELSE WW
RECURSIVE RevBits(_, _)
RevBits(x, n) == IF n = 0 THEN 0 ELSE (x % 2) * 2^(n-1) + RevBits(x \div 2, n-1)
RBITw(a)      == <<RevBits(a[2], L), RevBits(a[1], L)>>

-----------------------------------------------------------------------------
(* 64-bit values: <<l3, l2, l1, l0>> *)
\* L-bit x L-bit -> <<hi, lo>> without exceeding 2^31 (half-limb columns)
MulLimb(x, y) ==
  LET xh == x \div H  xl == x % H
      yh == y \div H  yl == y % H
      p0 == xl * yl
      p1 == xh * yl + xl * yh
      p2 == xh * yh
      t  == p0 + (p1 % H) * H
  IN <<p2 + (p1 \div H) + (t \div M), t % M>>
\* unsigned 2L x 2L -> 4 limbs
MulUU(a, b) ==
  LET p00 == MulLimb(a[2], b[2])
      p01 == MulLimb(a[2], b[1])
      p10 == MulLimb(a[1], b[2])
      p11 == MulLimb(a[1], b[1])
      c0  == p00[2]
      s1  == p00[1] + p01[2] + p10[2]
      s2  == p01[1] + p10[1] + p11[2] + (s1 \div M)
      s3  == p11[1] + (s2 \div M)
  IN <<s3 % M, s2 % M, s1 % M, c0>>
IsQuad(q) == q \in Seq(Int) /\ Len(q) = 4 /\ \A i \in 1..4 : q[i] \in 0..MM
QHi(q) == <<q[1], q[2]>>
QLo(q) == <<q[3], q[4]>>
QMk(hi, lo) == <<hi[1], hi[2], lo[1], lo[2]>>
QZero == <<0, 0, 0, 0>>
QAddC(p, q, cin) ==
  LET s0 == p[4] + q[4] + cin
      s1 == p[3] + q[3] + (s0 \div M)
      s2 == p[2] + q[2] + (s1 \div M)
      s3 == p[1] + q[1] + (s2 \div M)
  IN <<<<s3 % M, s2 % M, s1 % M, s0 % M>>, s3 \div M>>
QAdd(p, q) == QAddC(p, q, 0)[1]
QNot(q)    == <<MM - q[1], MM - q[2], MM - q[3], MM - q[4]>>
QSub(p, q) == QAddC(p, QNot(q), 1)[1]
QNeg(q)    == QSub(QZero, q)
QIsNeg(q)  == q[1] \div (M \div 2) = 1
\* sign/zero extension of a word to 64 bits
QSExt(a)   == IF IsNeg(a) THEN <<MM, MM, a[1], a[2]>> ELSE <<0, 0, a[1], a[2]>>
QZExt(a)   == <<0, 0, a[1], a[2]>>
\* signed 32x32 -> 64: |a|*|b| with sign fix
AbsW(a)    == IF IsNeg(a) THEN Neg(a) ELSE a
MulSS(a, b) ==
  LET p == MulUU(AbsW(a), AbsW(b))
  IN IF IsNeg(a) # IsNeg(b) THEN QNeg(p) ELSE p
\* low word of the product (MUL/MLA)
MulLo(a, b) == QLo(MulUU(a, b))
QEq(p, q) == p = q
QLt(p, q) == \E i \in 1..4 : p[i] < q[i] /\ \A j \in 1..(i-1) : p[j] = q[j]
\* arithmetic shift right of a 64-bit value by 16 / 32 (used by SMULW*, SMMUL*)
QAsrL(q)  == IF QIsNeg(q) THEN <<MM, q[1], q[2], q[3]>> ELSE <<0, q[1], q[2], q[3]>>

-----------------------------------------------------------------------------
(* unsigned division: restoring, one bit per step *)
RECURSIVE DivStep(_, _, _, _)
\* i = bits left; n shifts out msb-first into r; returns <<q, r>>
DivStep(i, n, d, qr) ==
  IF i = 0 THEN qr
  ELSE LET r1 == WOr(LSLw(qr[2], 1), <<0, Bit(n, i - 1)>>)
           ge == Le(d, r1)
       IN DivStep(i - 1, n, d,
                  <<WOr(LSLw(qr[1], 1), <<0, IF ge THEN 1 ELSE 0>>), IF ge THEN Sub(r1, d) ELSE r1>>)
\* d # 0, and the remainder register never overflows since r < d <= 2^WW - 1 and the
\* top bit of r1 can only be lost when d > 2^(WW-1), handled by widening the compare:
UDivMod(n, d) ==
  IF TopBit(d) = 0 THEN DivStep(WW, n, d, <<Zero, Zero>>)
  ELSE \* d >= 2^(WW-1): quotient is 0 or 1
       IF Le(d, n) THEN <<<<0, 1>>, Sub(n, d)>> ELSE <<Zero, n>>
UDiv(n, d) == UDivMod(n, d)[1]
\* signed division rounding toward zero; INT_MIN / -1 = INT_MIN (wraps)
SDiv(n, d) ==
  LET q == UDiv(AbsW(n), AbsW(d))
  IN IF IsNeg(n) # IsNeg(d) THEN Neg(q) ELSE q

-----------------------------------------------------------------------------
(* modified immediates (L = 16) *)
ARMExpandImm_C(imm12, cin) ==
  Shift_C(<<0, imm12 % 256>>, "ROR", 2 * (imm12 \div 256), cin)
ARMExpandImm(imm12) == ARMExpandImm_C(imm12, 0)[1]

\* <<imm32, carry, unpredictable>>
ThumbExpandImm_C(imm12, cin) ==
  LET b == imm12 % 256
      sel == (imm12 \div 256) % 4
  IN IF imm12 \div 1024 = 0
     THEN CASE sel = 0 -> <<<<0, b>>, cin, FALSE>>
            [] sel = 1 -> <<<<b, b>>, cin, b = 0>>
            [] sel = 2 -> <<<<b * 256, b * 256>>, cin, b = 0>>
            [] sel = 3 -> <<<<b * 256 + b, b * 256 + b>>, cin, b = 0>>
     ELSE LET r == ROR_C(<<0, 128 + (imm12 % 128)>>, imm12 \div 128)
          IN <<r[1], r[2], FALSE>>

\* byte-reversal of a word / halfword pieces
REVw(a)   == <<(a[2] % 256) * 256 + (a[2] \div 256), (a[1] % 256) * 256 + (a[1] \div 256)>>
REV16w(a) == <<(a[1] % 256) * 256 + (a[1] \div 256), (a[2] % 256) * 256 + (a[2] \div 256)>>
=============================================================================
