------------------------------ MODULE APA_W32 ------------------------------
(***************************************************************************)
(* Unbounded lemmas (Apalache, SMT) linking the limb arithmetic TLC runs   *)
(* (W32.tla at L = 16, the operators are INSTANTIATED from that module, not *)
(* copied) to the mathematical definition over unbounded integers, for ALL *)
(* 2^32 x 2^32 x 2 operands:                                               *)
(*   AddC(a, b, c)  = ((x + y + c) mod 2^32, unsigned carry, signed ovf)   *)
(*   Sub(a, b)      = (x - y) mod 2^32;  carry of a + NOT b + 1 = (x >= y) *)
(*   LSLw/LSRw/ASRw/RORw by every amount 0..33 = the arithmetic shifts     *)
(* MC_W32 (TLC) checks the same equalities exhaustively at L = 4.          *)
(* Run: apalache-mc check --init=Init --next=Next --inv=<Inv> --length=0   *)
(***************************************************************************)
EXTENDS Integers, Sequences

W == INSTANCE W32sub            \* generated at run time from ../W32.tla (harness/apalache.py): the operators' own text + @type annotations, L = 16

VARIABLES
  \* @type: Int;
  ah,
  \* @type: Int;
  al,
  \* @type: Int;
  bh,
  \* @type: Int;
  bl,
  \* @type: Int;
  cin,
  \* @type: Int;
  amt

Init == /\ ah \in 0..65535 /\ al \in 0..65535 /\ bh \in 0..65535 /\ bl \in 0..65535
        /\ cin \in 0..1 /\ amt \in 0..33
Next == UNCHANGED <<ah, al, bh, bl, cin, amt>>

T32 == 4294967296
T31 == 2147483648
vx == ah * 65536 + al
vy == bh * 65536 + bl
\* @type: Seq(Int);
opA == <<ah, al>>
\* @type: Seq(Int);
opB == <<bh, bl>>
\* @type: Seq(Int) => Int;
Val(w) == w[1] * 65536 + w[2]
SInt(v) == IF v >= T31 THEN v - T32 ELSE v

AddInv ==
  LET r == W!AddC(opA, opB, cin) IN
  /\ Val(r[1]) = (vx + vy + cin) % T32
  /\ r[2] = (IF vx + vy + cin >= T32 THEN 1 ELSE 0)
  /\ r[3] = (IF SInt(vx) + SInt(vy) + cin = SInt((vx + vy + cin) % T32) THEN 0 ELSE 1)
  /\ r[1][1] \in 0..65535 /\ r[1][2] \in 0..65535

SubInv ==
  LET r == W!AddC(opA, W!WNot(opB), 1) IN
  /\ Val(r[1]) = (vx - vy) % T32
  /\ Val(W!Sub(opA, opB)) = (vx - vy) % T32
  /\ r[2] = (IF vx >= vy THEN 1 ELSE 0)
  /\ r[3] = (IF SInt(vx) - SInt(vy) = SInt((vx - vy) % T32) THEN 0 ELSE 1)

CmpInv ==
  /\ W!Lt(opA, opB) = (vx < vy)
  /\ W!Le(opA, opB) = (vx <= vy)
  /\ W!Eq(opA, opB) = (vx = vy)
\* shifts: W32's operators compute 2^n, which Apalache accepts only for a literal n, so the lemma is one conjunct per
\* amount 0..33 (33 = beyond the word width)
LslInv ==
  /\ Val(W!LSLw(opA, 0)) = (vx * 1) % T32
  /\ Val(W!LSLw(opA, 1)) = (vx * 2) % T32
  /\ Val(W!LSLw(opA, 2)) = (vx * 4) % T32
  /\ Val(W!LSLw(opA, 3)) = (vx * 8) % T32
  /\ Val(W!LSLw(opA, 4)) = (vx * 16) % T32
  /\ Val(W!LSLw(opA, 5)) = (vx * 32) % T32
  /\ Val(W!LSLw(opA, 6)) = (vx * 64) % T32
  /\ Val(W!LSLw(opA, 7)) = (vx * 128) % T32
  /\ Val(W!LSLw(opA, 8)) = (vx * 256) % T32
  /\ Val(W!LSLw(opA, 9)) = (vx * 512) % T32
  /\ Val(W!LSLw(opA, 10)) = (vx * 1024) % T32
  /\ Val(W!LSLw(opA, 11)) = (vx * 2048) % T32
  /\ Val(W!LSLw(opA, 12)) = (vx * 4096) % T32
  /\ Val(W!LSLw(opA, 13)) = (vx * 8192) % T32
  /\ Val(W!LSLw(opA, 14)) = (vx * 16384) % T32
  /\ Val(W!LSLw(opA, 15)) = (vx * 32768) % T32
  /\ Val(W!LSLw(opA, 16)) = (vx * 65536) % T32
  /\ Val(W!LSLw(opA, 17)) = (vx * 131072) % T32
  /\ Val(W!LSLw(opA, 18)) = (vx * 262144) % T32
  /\ Val(W!LSLw(opA, 19)) = (vx * 524288) % T32
  /\ Val(W!LSLw(opA, 20)) = (vx * 1048576) % T32
  /\ Val(W!LSLw(opA, 21)) = (vx * 2097152) % T32
  /\ Val(W!LSLw(opA, 22)) = (vx * 4194304) % T32
  /\ Val(W!LSLw(opA, 23)) = (vx * 8388608) % T32
  /\ Val(W!LSLw(opA, 24)) = (vx * 16777216) % T32
  /\ Val(W!LSLw(opA, 25)) = (vx * 33554432) % T32
  /\ Val(W!LSLw(opA, 26)) = (vx * 67108864) % T32
  /\ Val(W!LSLw(opA, 27)) = (vx * 134217728) % T32
  /\ Val(W!LSLw(opA, 28)) = (vx * 268435456) % T32
  /\ Val(W!LSLw(opA, 29)) = (vx * 536870912) % T32
  /\ Val(W!LSLw(opA, 30)) = (vx * 1073741824) % T32
  /\ Val(W!LSLw(opA, 31)) = (vx * 2147483648) % T32
  /\ Val(W!LSLw(opA, 32)) = (vx * 4294967296) % T32
  /\ Val(W!LSLw(opA, 33)) = (vx * 8589934592) % T32
LsrInv ==
  /\ Val(W!LSRw(opA, 0)) = vx \div 1
  /\ Val(W!LSRw(opA, 1)) = vx \div 2
  /\ Val(W!LSRw(opA, 2)) = vx \div 4
  /\ Val(W!LSRw(opA, 3)) = vx \div 8
  /\ Val(W!LSRw(opA, 4)) = vx \div 16
  /\ Val(W!LSRw(opA, 5)) = vx \div 32
  /\ Val(W!LSRw(opA, 6)) = vx \div 64
  /\ Val(W!LSRw(opA, 7)) = vx \div 128
  /\ Val(W!LSRw(opA, 8)) = vx \div 256
  /\ Val(W!LSRw(opA, 9)) = vx \div 512
  /\ Val(W!LSRw(opA, 10)) = vx \div 1024
  /\ Val(W!LSRw(opA, 11)) = vx \div 2048
  /\ Val(W!LSRw(opA, 12)) = vx \div 4096
  /\ Val(W!LSRw(opA, 13)) = vx \div 8192
  /\ Val(W!LSRw(opA, 14)) = vx \div 16384
  /\ Val(W!LSRw(opA, 15)) = vx \div 32768
  /\ Val(W!LSRw(opA, 16)) = vx \div 65536
  /\ Val(W!LSRw(opA, 17)) = vx \div 131072
  /\ Val(W!LSRw(opA, 18)) = vx \div 262144
  /\ Val(W!LSRw(opA, 19)) = vx \div 524288
  /\ Val(W!LSRw(opA, 20)) = vx \div 1048576
  /\ Val(W!LSRw(opA, 21)) = vx \div 2097152
  /\ Val(W!LSRw(opA, 22)) = vx \div 4194304
  /\ Val(W!LSRw(opA, 23)) = vx \div 8388608
  /\ Val(W!LSRw(opA, 24)) = vx \div 16777216
  /\ Val(W!LSRw(opA, 25)) = vx \div 33554432
  /\ Val(W!LSRw(opA, 26)) = vx \div 67108864
  /\ Val(W!LSRw(opA, 27)) = vx \div 134217728
  /\ Val(W!LSRw(opA, 28)) = vx \div 268435456
  /\ Val(W!LSRw(opA, 29)) = vx \div 536870912
  /\ Val(W!LSRw(opA, 30)) = vx \div 1073741824
  /\ Val(W!LSRw(opA, 31)) = vx \div 2147483648
  /\ Val(W!LSRw(opA, 32)) = vx \div 4294967296
  /\ Val(W!LSRw(opA, 33)) = vx \div 8589934592
BitInv ==
  /\ W!Bit(opA, 0) = (vx \div 1) % 2
  /\ W!Bit(opA, 1) = (vx \div 2) % 2
  /\ W!Bit(opA, 2) = (vx \div 4) % 2
  /\ W!Bit(opA, 3) = (vx \div 8) % 2
  /\ W!Bit(opA, 4) = (vx \div 16) % 2
  /\ W!Bit(opA, 5) = (vx \div 32) % 2
  /\ W!Bit(opA, 6) = (vx \div 64) % 2
  /\ W!Bit(opA, 7) = (vx \div 128) % 2
  /\ W!Bit(opA, 8) = (vx \div 256) % 2
  /\ W!Bit(opA, 9) = (vx \div 512) % 2
  /\ W!Bit(opA, 10) = (vx \div 1024) % 2
  /\ W!Bit(opA, 11) = (vx \div 2048) % 2
  /\ W!Bit(opA, 12) = (vx \div 4096) % 2
  /\ W!Bit(opA, 13) = (vx \div 8192) % 2
  /\ W!Bit(opA, 14) = (vx \div 16384) % 2
  /\ W!Bit(opA, 15) = (vx \div 32768) % 2
  /\ W!Bit(opA, 16) = (vx \div 65536) % 2
  /\ W!Bit(opA, 17) = (vx \div 131072) % 2
  /\ W!Bit(opA, 18) = (vx \div 262144) % 2
  /\ W!Bit(opA, 19) = (vx \div 524288) % 2
  /\ W!Bit(opA, 20) = (vx \div 1048576) % 2
  /\ W!Bit(opA, 21) = (vx \div 2097152) % 2
  /\ W!Bit(opA, 22) = (vx \div 4194304) % 2
  /\ W!Bit(opA, 23) = (vx \div 8388608) % 2
  /\ W!Bit(opA, 24) = (vx \div 16777216) % 2
  /\ W!Bit(opA, 25) = (vx \div 33554432) % 2
  /\ W!Bit(opA, 26) = (vx \div 67108864) % 2
  /\ W!Bit(opA, 27) = (vx \div 134217728) % 2
  /\ W!Bit(opA, 28) = (vx \div 268435456) % 2
  /\ W!Bit(opA, 29) = (vx \div 536870912) % 2
  /\ W!Bit(opA, 30) = (vx \div 1073741824) % 2
  /\ W!Bit(opA, 31) = (vx \div 2147483648) % 2
TopMaskInv ==
  /\ Val(W!TopMask(0)) = T32 - 4294967296
  /\ Val(W!TopMask(1)) = T32 - 2147483648
  /\ Val(W!TopMask(2)) = T32 - 1073741824
  /\ Val(W!TopMask(3)) = T32 - 536870912
  /\ Val(W!TopMask(4)) = T32 - 268435456
  /\ Val(W!TopMask(5)) = T32 - 134217728
  /\ Val(W!TopMask(6)) = T32 - 67108864
  /\ Val(W!TopMask(7)) = T32 - 33554432
  /\ Val(W!TopMask(8)) = T32 - 16777216
  /\ Val(W!TopMask(9)) = T32 - 8388608
  /\ Val(W!TopMask(10)) = T32 - 4194304
  /\ Val(W!TopMask(11)) = T32 - 2097152
  /\ Val(W!TopMask(12)) = T32 - 1048576
  /\ Val(W!TopMask(13)) = T32 - 524288
  /\ Val(W!TopMask(14)) = T32 - 262144
  /\ Val(W!TopMask(15)) = T32 - 131072
  /\ Val(W!TopMask(16)) = T32 - 65536
  /\ Val(W!TopMask(17)) = T32 - 32768
  /\ Val(W!TopMask(18)) = T32 - 16384
  /\ Val(W!TopMask(19)) = T32 - 8192
  /\ Val(W!TopMask(20)) = T32 - 4096
  /\ Val(W!TopMask(21)) = T32 - 2048
  /\ Val(W!TopMask(22)) = T32 - 1024
  /\ Val(W!TopMask(23)) = T32 - 512
  /\ Val(W!TopMask(24)) = T32 - 256
  /\ Val(W!TopMask(25)) = T32 - 128
  /\ Val(W!TopMask(26)) = T32 - 64
  /\ Val(W!TopMask(27)) = T32 - 32
  /\ Val(W!TopMask(28)) = T32 - 16
  /\ Val(W!TopMask(29)) = T32 - 8
  /\ Val(W!TopMask(30)) = T32 - 4
  /\ Val(W!TopMask(31)) = T32 - 2
  /\ Val(W!TopMask(32)) = T32 - 1
\* binding canary: a deliberately FALSE lemma (carry dropped); the harness requires Apalache to refute it
CanaryFalseInv == Val(W!Add(opA, opB)) = vx + vy
=============================================================================
