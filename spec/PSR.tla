--------------------------------- MODULE PSR ---------------------------------
(***************************************************************************)
(* Program status register writes by instructions (ARM ARM B1.3.3 / B9     *)
(* CPSRWriteByInstr, SPSRWriteByInstr).  Both return [s, unp]: the new     *)
(* state and whether an UNPREDICTABLE mode change was attempted (in which  *)
(* case the mode field is left alone: the property requires that reserved  *)
(* or illegal mode numbers are never installed).                           *)
(***************************************************************************)
EXTENDS Exc

BitOf(n, i) == (n \div 2^i) % 2
\* copy value<hi:lo> into c<hi:lo>
Copy(c, v, hi, lo) == InsertW(c, hi, lo, ExtractW(v, hi, lo))

CPSRWriteByInstr(s, v, mask, ret) ==
  LET priv == CurrentModeIsNotUser(s)
      sec  == IsSecure(s)
      c0 == s.cpsr
      c1 == IF BitOf(mask, 3) = 1 THEN (IF ret THEN Copy(Copy(c0, v, 31, 27), v, 26, 24) ELSE Copy(c0, v, 31, 27)) ELSE c0
      c2 == IF BitOf(mask, 2) = 1 THEN Copy(c1, v, 19, 16) ELSE c1
      c3 == IF BitOf(mask, 1) = 1
            THEN LET a == IF ret THEN Copy(c2, v, 15, 10) ELSE c2
                     b == Copy(a, v, 9, 9)
                 IN IF priv /\ (sec \/ SCR_AW(s) = 1 \/ HaveVirt(s)) THEN Copy(b, v, 8, 8) ELSE b
            ELSE c2
      vm == Slice(v, 4, 0)
      modeUnp == BitOf(mask, 0) = 1 /\ priv /\
                 (\/ BadMode(s.cfg, vm)
                  \/ ((~sec) /\ vm = MON)
                  \/ ((~sec) /\ vm = FIQ /\ NSACR_RFR(s) = 1)
                  \/ (SCR_NS(s) = 0 /\ vm = HYP)
                  \/ ((~sec) /\ Mode(s) # HYP /\ vm = HYP)
                  \/ (Mode(s) = HYP /\ vm # HYP /\ ~ret))
      c4 == IF BitOf(mask, 0) = 1
            THEN LET a == IF priv THEN Copy(c3, v, 7, 7) ELSE c3
                     b == IF priv /\ (SCTLR_NMFI(s) = 0 \/ Bit(v, 6) = 0) /\ (sec \/ SCR_FW(s) = 1 \/ HaveVirt(s))
                          THEN Copy(a, v, 6, 6) ELSE a
                     d == IF ret THEN Copy(b, v, 5, 5) ELSE b
                 IN IF priv /\ ~modeUnp THEN Copy(d, v, 4, 0) ELSE d
            ELSE c3
  IN [s |-> [s EXCEPT !.cpsr = c4], unp |-> modeUnp]

SPSRWriteByInstr(s, v, mask) ==
  LET unpMode == CurrentModeIsUserOrSystem(s)
      p0 == IF unpMode THEN Zero ELSE SPSRget(s)
      p1 == IF BitOf(mask, 3) = 1 THEN Copy(p0, v, 31, 24) ELSE p0
      p2 == IF BitOf(mask, 2) = 1 THEN Copy(p1, v, 19, 16) ELSE p1
      p3 == IF BitOf(mask, 1) = 1 THEN Copy(p2, v, 15, 8) ELSE p2
      bad == BitOf(mask, 0) = 1 /\ BadMode(s.cfg, Slice(v, 4, 0))
      p4 == IF BitOf(mask, 0) = 1 THEN (IF bad THEN Copy(p3, v, 7, 5) ELSE Copy(p3, v, 7, 0)) ELSE p3
  IN [s |-> IF unpMode THEN s ELSE SPSRset(s, p4), unp |-> unpMode \/ bad]
=============================================================================
