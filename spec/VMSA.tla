-------------------------------- MODULE VMSA ---------------------------------
(***************************************************************************)
(* Virtual Memory System Architecture, short-descriptor format (ARM ARM    *)
(* B3.5 TranslationTableWalkSD, B3.6 CheckDomain/CheckPermission, B3.2.1   *)
(* FCSETranslate, B3.13 fault encodings), the long-descriptor stage-1 walk *)
(* and the stage-2 walk of the Virtualization Extensions (VTTBR / VTCR,    *)
(* S2AttrDecode, CombineS1S2Desc, stage-2 translation of the stage-1 table *)
(* walk's own descriptor addresses).  Hyp-mode stage 1 and faults taken to *)
(* Hyp mode are reported as the named outcome "unmodelled:<what>" (x.ni).  *)
(***************************************************************************)
EXTENDS XCtx

FCSETranslate(s, va) ==
  IF Slice(va, 31, 25) = 0 THEN InsertW(va, 31, 25, <<0, Slice(s.sys.FCSEIDR, 31, 25)>>) ELSE va

TTBCR_N(s)   == Slice(s.sys.TTBCR, 2, 0)
TTBCR_PD0(s) == Bit(s.sys.TTBCR, 4)
TTBCR_PD1(s) == Bit(s.sys.TTBCR, 5)
TTBCR_EAE(s) == Bit(s.sys.TTBCR, 31)

\* read a 32-bit descriptor at physical address pa (SCTLR.EE selects its endianness)
ReadDesc(s, pa) ==
  LET bs == HubRead(s.mem, pa, 4).bytes
  IN IF SCTLR_EE(s) = 1 THEN BytesToWord(Reverse(bs)) ELSE BytesToWord(bs)

ReadDescAt(s, pa, ext) == IF ext # 0 THEN Zero ELSE ReadDesc(s, pa)

\* memory type under TEX remap (SCTLR.TRE = 1): PRRR.TR<n>, n = TEX<0>:C:B -> "SO" | "DEV" | "NORMAL" | "UNK"
RemapType(s, texcb) ==
  LET n  == texcb % 8
      tr == Slice(s.sys.PRRR, 2 * n + 1, 2 * n)
  IN IF n = 6 THEN "IMPDEF"
     ELSE CASE tr = 0 -> "SO" [] tr = 1 -> "DEV" [] tr = 2 -> "NORMAL" [] tr = 3 -> "UNK"

\* RemappedTEXDecode(texcb, S): full memory attributes under TEX remap.  region n = TEX<0>:C:B; PRRR.TRn type;
\* Normal: NMRR.IRn / NMRR.ORn through ConvertAttrsHints, shareable = PRRR.NS0/NS1 selected by the descriptor's S bit,
\* outer shareable additionally needs PRRR.NOSn = 0
RemapAttrs(s, texcb, sbit) ==
  LET n  == texcb % 8
      tr == Slice(s.sys.PRRR, 2 * n + 1, 2 * n)
      ir == Slice(s.sys.NMRR, 2 * n + 1, 2 * n)
      or == Slice(s.sys.NMRR, 2 * n + 17, 2 * n + 16)
      sh == IF sbit = 0 THEN Bit(s.sys.PRRR, 18) ELSE Bit(s.sys.PRRR, 19)
      nos == Bit(s.sys.PRRR, 24 + n)
  IN IF n = 6 THEN AttrUnknown
     ELSE CASE tr = 0 -> AttrSO
            [] tr = 1 -> AttrDevice
            [] tr = 2 -> MkAttr("NORMAL", ConvAttrs(ir), ConvHints(ir), ConvAttrs(or), ConvHints(or), sh, sh * (1 - nos), {})
            [] tr = 3 -> AttrUnknown


-----------------------------------------------------------------------------
(* Stage 2 (Virtualization Extensions, B3.6 TranslationTableWalkLD with stage1 = FALSE, SecondStageTranslate,         *)
(* S2AttrDecode, CombineS1S2Desc): for Non-secure PL1&0 accesses with HCR.VM = 1 the stage-1 output (and the address *)
(* of every stage-1 descriptor) is an intermediate physical address translated through the VTTBR tables.            *)
(* Every stage-2 fault is taken to Hyp mode and reaches the emulator's documented unimplemented hooks: notimpl.      *)
HCR_PTW(s)   == SysBit(s, "HCR", 2)
VTCR_T0SZ(s) == LET v == Slice(s.sys.VTCR, 3, 0) IN IF v >= 8 THEN v - 16 ELSE v        \* SInt(VTCR.T0SZ)
VTCR_SL0(s)  == Slice(s.sys.VTCR, 7, 6)
Stage2On(s)  == s.cfg.virt /\ (~IsSecure(s)) /\ Mode(s) # HYP /\ HCR_VM(s) = 1
\* bits hi..lo of the 40-bit address a = [pa (31:0), ext (39:32)]
Slice40(a, hi, lo) == IF hi < 32 THEN Slice(a.pa, hi, lo)
                      ELSE IF lo >= 32 THEN (a.ext \div 2^(lo - 32)) % 2^(hi - lo + 1)
                      ELSE Slice(a.pa, 31, lo) + (a.ext % 2^(hi - 31)) * 2^(32 - lo)
\* a stage-2 (and Hyp) descriptor is read with HSCTLR.EE endianness
ReadDesc64H(s, pa, ext) ==
  LET bs0 == IF ext # 0 THEN [i \in 1..8 |-> 0] ELSE HubRead(s.mem, pa, 8).bytes
      bs  == IF HSCTLR_EE(s) = 1 THEN Reverse(bs0) ELSE bs0
  IN [lo |-> BytesToWord(SubSeq(bs, 1, 4)), hi |-> BytesToWord(SubSeq(bs, 5, 8))]
\* S2AttrDecode(MemAttr<3:0>), shareability from SH<1:0> for Normal memory
S2Type(m) == IF m \div 4 = 0 THEN (CASE m = 0 -> "SO" [] m = 1 -> "DEV" [] OTHER -> "UNK") ELSE IF m % 4 = 0 THEN "UNK" ELSE "NORMAL"
S2Attrs(m, shf) ==
  LET hi2 == m \div 4  lo2 == m % 4
      sh == shf \div 2   osh == B2N(shf = 2)
  IN IF hi2 = 0 THEN (CASE m = 0 -> AttrSO [] m = 1 -> AttrDevice [] OTHER -> AttrUnknown)
     ELSE IF lo2 = 0 THEN AttrUnknown
     ELSE MkAttr("NORMAL", IF lo2 = 1 THEN 0 ELSE lo2, IF lo2 = 1 THEN 0 ELSE 3,
                           IF hi2 = 1 THEN 0 ELSE hi2, IF hi2 = 1 THEN 0 ELSE 3, sh, osh, {})
RECURSIVE WalkS2From(_, _, _, _, _, _, _)
WalkS2From(s, ia, level, first, startbit, base, unp) ==
  LET lsb   == 39 - 9 * level
      index == IF first THEN Slice40(ia, startbit, lsb) ELSE Slice40(ia, lsb + 8, lsb)
      la    == WOr(base[1], <<index \div 8192, (index % 8192) * 8>>)
      d     == ReadDesc64H(s, la, base[2])
  IN IF Bit(d.lo, 0) = 0 THEN [f |-> "TRANSLATION", level |-> level, unp |-> unp]
     ELSE IF Bit(d.lo, 1) = 0 /\ level = 3 THEN [f |-> "TRANSLATION", level |-> level, unp |-> unp]
     ELSE IF Bit(d.lo, 1) = 1 /\ level < 3
     THEN WalkS2From(s, ia, level + 1, FALSE, startbit, <<WAnd(d.lo, <<MM, M - 4096>>), Slice(d.hi, 7, 0)>>, unp)
     ELSE IF Bit(d.lo, 10) = 0 THEN [f |-> "ACCESS_FLAG", level |-> level, unp |-> unp]
     ELSE [f |-> "ok", level |-> level, unp |-> unp \/ S2Type(Slice(d.lo, 5, 2)) = "UNK", hap |-> Slice(d.lo, 7, 6),
           pa |-> IF lsb >= 32 THEN ia.pa ELSE WOr(WAnd(d.lo, TopMask(32 - lsb)), WAnd(ia.pa, MaskW(lsb - 1, 0))),
           ext |-> Slice(d.hi, 7, 0),
           mt |-> S2Type(Slice(d.lo, 5, 2)), at |-> S2Attrs(Slice(d.lo, 5, 2), Slice(d.lo, 9, 8))]
\* ia = [pa, ext]: the 40-bit intermediate physical address
WalkS2(s, ia) ==
  LET t0  == VTCR_T0SZ(s)
      sl0 == VTCR_SL0(s)
      lb  == 14 - t0 - 9 * sl0
      level == 2 - sl0
      unp == (sl0 = 0 /\ t0 < -2) \/ (sl0 = 1 /\ t0 > 1) \/ sl0 >= 2 \/ Bit(s.sys.VTCR, 4) # B2N(t0 < 0)
             \/ (lb > 3 /\ lb <= 32 /\ Slice(s.sys.VTTBR, lb - 1, 3) # 0)
      inrange == t0 = -8 \/ Slice40(ia, 39, 32 - t0) = 0
      base == <<WAnd(s.sys.VTTBR, TopMask(32 - lb)), Slice(s.sys.VTTBRH, 7, 0)>>
  IN IF sl0 >= 2 \/ lb < 3 \/ lb > 31 THEN [f |-> "UNPRED", level |-> 1, unp |-> TRUE]
     ELSE IF ~inrange THEN [f |-> "TRANSLATION", level |-> 1, unp |-> unp]
     ELSE WalkS2From(s, ia, level, TRUE, 31 - t0, base, unp)
\* CombineS1S2Desc on the attribute records (don't-cares of either side stay don't-cares)
CombAttr(a1, a2) == IF a1 = 1 \/ a2 = 1 THEN -1 ELSE IF a1 = 0 \/ a2 = 0 THEN 0 ELSE IF a1 = 2 \/ a2 = 2 THEN 2 ELSE 3
CombineAttrs(s1, s2) ==
  IF "ty" \in s1.dc \/ "ty" \in s2.dc THEN AttrUnknown
  ELSE IF s1.a.ty = "SO" \/ s2.a.ty = "SO" THEN AttrSO
  ELSE IF s1.a.ty = "DEV" \/ s2.a.ty = "DEV" THEN MkAttr("DEV", 0, 0, 0, 0, 1, 1, {"ia", "ih", "oa", "oh"})
  ELSE LET ia == CombAttr(s1.a.ia, s2.a.ia)  oa == CombAttr(s1.a.oa, s2.a.oa)
           dcs == s1.dc \cup s2.dc
           nc  == ia = 0 /\ oa = 0
           sh  == IF nc THEN 1 ELSE IF s1.a.sh = 1 \/ s2.a.sh = 1 THEN 1 ELSE 0
           osh == IF nc THEN 1 ELSE IF s1.a.osh = 1 \/ s2.a.osh = 1 THEN 1 ELSE 0
       IN MkAttr("NORMAL", IF ia < 0 THEN 0 ELSE ia, s1.a.ih, IF oa < 0 THEN 0 ELSE oa, s1.a.oh, sh, osh,
                 (s1.dc \cap {"ih", "oh"}) \cup (IF ia < 0 \/ "ia" \in dcs THEN {"ia", "sh", "osh"} ELSE {})
                                          \cup (IF oa < 0 \/ "oa" \in dcs THEN {"oa", "sh", "osh"} ELSE {})
                                          \cup (IF dcs \cap {"sh", "osh"} # {} THEN {"sh", "osh"} ELSE {}))
\* SecondStageTranslate of the address of a stage-1 translation table descriptor: [ok, pa, ext, unp]
\* (read access, HCR.PTW forbids tables in Device / Strongly-ordered memory)
PTXlate(s, pa, ext) ==
  IF ~Stage2On(s) THEN [ok |-> TRUE, pa |-> pa, ext |-> ext, unp |-> FALSE]
  ELSE LET w == WalkS2(s, [pa |-> pa, ext |-> ext]) IN
       IF w.f # "ok" THEN [ok |-> FALSE, pa |-> pa, ext |-> ext, unp |-> w.unp]
       ELSE IF w.hap % 2 = 0 THEN [ok |-> FALSE, pa |-> pa, ext |-> ext, unp |-> w.unp]
       ELSE IF HCR_PTW(s) = 1 /\ w.mt # "NORMAL" THEN [ok |-> FALSE, pa |-> pa, ext |-> ext, unp |-> w.unp]
       ELSE [ok |-> TRUE, pa |-> w.pa, ext |-> w.ext, unp |-> w.unp]

\* result of the walk: [f |-> "ok", pa, ext, domain, level, ap, texcb, sb (S bit), nsb (NS bit)] or [f |-> fault type, level, domain]
WalkSD(s, mva) ==
  LET n0   == TTBCR_N(s)
      use0 == n0 = 0 \/ IsZeroW(LSRw(mva, 32 - n0))
      ttbr == IF use0 THEN s.sys.TTBR0 ELSE s.sys.TTBR1
      dis  == IF use0 THEN TTBCR_PD0(s) = 1 ELSE TTBCR_PD1(s) = 1
      n    == IF use0 THEN n0 ELSE 0
      \* l1descaddr = TTBR<31:14-n> : mva<31-n:20> : 00
      l1a  == WOr(WAnd(ttbr, TopMask(18 + n)), LSLw(ExtractW(mva, 31 - n, 20), 2))
  IN IF s.cfg.sec /\ dis THEN [f |-> "TRANSLATION", level |-> 1, domain |-> 0]
     ELSE
     LET p1 == PTXlate(s, l1a, 0)                \* with stage 2 on, the descriptor address is an IPA
         l1 == ReadDescAt(s, p1.pa, p1.ext)
         ty == Slice(l1, 1, 0)
     IN IF ~p1.ok THEN [f |-> "S2WALK", level |-> 1, domain |-> 0, s2unp |-> p1.unp]
        ELSE IF ty = 0 THEN [f |-> "TRANSLATION", level |-> 1, domain |-> 0]
        ELSE IF ty = 1 THEN
          LET dom == Slice(l1, 8, 5)
              l2a == WOr(WAnd(l1, <<MM, MM - 1023>>), LSLw(ExtractW(mva, 19, 12), 2))
              p2  == PTXlate(s, l2a, 0)
              l2  == ReadDescAt(s, p2.pa, p2.ext)
              ap  == Bit(l2, 9) * 4 + Slice(l2, 5, 4)
          IN IF ~p2.ok THEN [f |-> "S2WALK", level |-> 2, domain |-> dom, s2unp |-> p1.unp \/ p2.unp]
             ELSE IF Slice(l2, 1, 0) = 0 THEN [f |-> "TRANSLATION", level |-> 2, domain |-> dom]
             ELSE IF SCTLR_AFE(s) = 1 /\ Bit(l2, 4) = 0
                  THEN IF SCTLR_HA(s) = 0 THEN [f |-> "ACCESS_FLAG", level |-> 2, domain |-> dom]
                       ELSE [f |-> "HWAF", level |-> 2, domain |-> dom]
             ELSE IF Bit(l2, 1) = 0
                  THEN [f |-> "ok", level |-> 2, domain |-> dom, ap |-> ap, ext |-> 0, blk |-> "large",
                        sb |-> Bit(l2, 10), nsb |-> Bit(l1, 3),
                        texcb |-> Slice(l2, 14, 12) * 4 + Slice(l2, 3, 2),
                        pa |-> WOr(WAnd(l2, <<MM, 0>>), WAnd(mva, <<0, MM>>))]
                  ELSE [f |-> "ok", level |-> 2, domain |-> dom, ap |-> ap, ext |-> 0, blk |-> "small",
                        sb |-> Bit(l2, 10), nsb |-> Bit(l1, 3),
                        texcb |-> Slice(l2, 8, 6) * 4 + Slice(l2, 3, 2),
                        pa |-> WOr(WAnd(l2, <<MM, M - 4096>>), WAnd(mva, <<0, 4095>>))]
        ELSE \* section or supersection
          LET ap    == Bit(l1, 15) * 4 + Slice(l1, 11, 10)
              texcb == Slice(l1, 14, 12) * 4 + Slice(l1, 3, 2)
              super == Bit(l1, 18) = 1
              dom   == IF super THEN 0 ELSE Slice(l1, 8, 5)
          IN IF SCTLR_AFE(s) = 1 /\ Bit(l1, 10) = 0
             THEN IF SCTLR_HA(s) = 0 THEN [f |-> "ACCESS_FLAG", level |-> 1, domain |-> dom]
                  ELSE [f |-> "HWAF", level |-> 1, domain |-> dom]
             ELSE IF ~super
                  THEN [f |-> "ok", level |-> 1, domain |-> dom, ap |-> ap, ext |-> 0, blk |-> "section",
                        sb |-> Bit(l1, 16), nsb |-> Bit(l1, 19),
                        texcb |-> texcb, pa |-> WOr(WAnd(l1, <<M - 16, 0>>), WAnd(mva, <<15, MM>>))]
                  ELSE [f |-> "ok", level |-> 1, domain |-> dom, ap |-> ap, blk |-> "super",
                        sb |-> Bit(l1, 16), nsb |-> Bit(l1, 19),
                        ext |-> Slice(l1, 8, 5) * 16 + Slice(l1, 23, 20),
                        texcb |-> texcb, pa |-> WOr(WAnd(l1, <<M - 256, 0>>), WAnd(mva, <<255, MM>>))]

-----------------------------------------------------------------------------
(* Long-descriptor format (LPAE), stage 1 for PL1&0 (B3.6.? TranslationTableWalkLD).  A 64-bit quantity is a pair  *)
(* of words [lo, hi]; a 40-bit address is [pa (bits 31:0), ext (bits 39:32)].  Faults in this format make the       *)
(* emulator consult its documented, unimplemented hook tlb_lookup_came_from_cache_maintenance(): outcome notimpl.   *)
TTBCR_T0SZ(s) == Slice(s.sys.TTBCR, 2, 0)
TTBCR_T1SZ(s) == Slice(s.sys.TTBCR, 18, 16)
TTBCR_EPD0(s) == Bit(s.sys.TTBCR, 7)
TTBCR_EPD1(s) == Bit(s.sys.TTBCR, 23)

\* read a 64-bit descriptor at the 40-bit address <<pa, ext>> (SCTLR.EE selects its endianness; HSCTLR.EE in the Hyp regime)
ReadDesc64(s, pa, ext) ==
  LET bs0 == IF ext # 0 THEN [i \in 1..8 |-> 0] ELSE HubRead(s.mem, pa, 8).bytes
      ee  == IF Mode(s) = HYP THEN HSCTLR_EE(s) ELSE SCTLR_EE(s)
      bs  == IF ee = 1 THEN Reverse(bs0) ELSE bs0
  IN [lo |-> BytesToWord(SubSeq(bs, 1, 4)), hi |-> BytesToWord(SubSeq(bs, 5, 8))]

\* MAIRn.Attr<idx> -> memory type
\* (the Hyp-mode regime uses HMAIR0 / HMAIR1)
MAIRType(s, idx) ==
  LET reg  == IF Mode(s) = HYP THEN (IF idx < 4 THEN s.sys.HMAIR0 ELSE s.sys.HMAIR1) ELSE IF idx < 4 THEN s.sys.MAIR0 ELSE s.sys.MAIR1
      k    == idx % 4
      attr == Slice(reg, 8 * k + 7, 8 * k)
      hi4  == attr \div 16  lo4 == attr % 16
  IN IF hi4 = 0 THEN (IF lo4 = 0 THEN "SO" ELSE IF lo4 = 4 THEN "DEV" ELSE "IMPDEF")
     ELSE IF hi4 \div 4 = 0 THEN "IMPDEF"                                  \* transient forms: not supported by the emulator
     ELSE IF hi4 \div 4 = 1 /\ hi4 % 4 # 0 THEN "IMPDEF"
     ELSE IF (lo4 \div 8 = 1) \/ (lo4 % 8 = 4) THEN "NORMAL" ELSE "IMPDEF"

\* MAIRDecode(attrindx) + the SH field of the block/page descriptor -> memory attributes.  The transient forms
\* (Attr<7:6> = 00, Attr<7:4> = 01xx with xx # 00, Attr<3:0> = 0xxx other than 0100) are IMPLEMENTATION DEFINED here.
MAIRAttrs(s, idx, shf) ==
  LET reg  == IF Mode(s) = HYP THEN (IF idx < 4 THEN s.sys.HMAIR0 ELSE s.sys.HMAIR1) ELSE IF idx < 4 THEN s.sys.MAIR0 ELSE s.sys.MAIR1
      k    == idx % 4
      attr == Slice(reg, 8 * k + 7, 8 * k)
      hi4  == attr \div 16  lo4 == attr % 16
      sh   == shf \div 2   osh == B2N(shf = 2)
      outerOK == hi4 = 4 \/ hi4 >= 8
      innerOK == lo4 >= 8 \/ lo4 = 4
      oa == IF hi4 = 4 THEN 0 ELSE hi4 \div 4    oh == IF hi4 = 4 THEN 0 ELSE hi4 % 4
      ia == IF lo4 = 4 THEN 0 ELSE lo4 \div 4    ih == IF lo4 = 4 THEN 0 ELSE lo4 % 4
  IN IF hi4 = 0 THEN (IF lo4 = 0 THEN AttrSO ELSE IF lo4 = 4 THEN AttrDevice ELSE AttrUnknown)
     ELSE IF ~outerOK THEN AttrUnknown
     ELSE MkAttr("NORMAL", ia, ih, oa, oh, sh, osh, IF innerOK THEN {} ELSE {"ia", "ih"})

\* the levels below the first lookup: level in 2..3, base = <<pa, ext>>, accumulated table attributes
RECURSIVE WalkLDFrom(_, _, _, _, _, _, _, _)
WalkLDFrom(s, ia, level, first, startbit, base, tbl, unp) ==
  LET lsb   == 39 - 9 * level                                        \* lowest input-address bit of this level's index
      index == IF first THEN Slice(ia, startbit, lsb) ELSE Slice(ia, lsb + 8, lsb)
      la    == WOr(base[1], <<index \div 8192, (index % 8192) * 8>>)
      pt    == PTXlate(s, la, base[2])              \* with stage 2 on, the descriptor address is an IPA
      d     == ReadDesc64(s, pt.pa, pt.ext)
  IN IF ~pt.ok THEN [f |-> "S2WALK", level |-> level, unp |-> unp \/ pt.unp]
     ELSE IF Bit(d.lo, 0) = 0 THEN [f |-> "TRANSLATION", level |-> level, unp |-> unp]
     ELSE IF Bit(d.lo, 1) = 0 /\ level = 3 THEN [f |-> "TRANSLATION", level |-> level, unp |-> unp]
     ELSE IF Bit(d.lo, 1) = 1 /\ level < 3
     THEN WalkLDFrom(s, ia, level + 1, FALSE, startbit, <<WAnd(d.lo, <<MM, M - 4096>>), Slice(d.hi, 7, 0)>>,
                     [rw   |-> tbl.rw /\ Bit(d.hi, 30) = 0,      \* APTable<1>
                      user |-> tbl.user /\ Bit(d.hi, 29) = 0,    \* APTable<0>
                      xn   |-> tbl.xn \/ Bit(d.hi, 28) = 1, pxn |-> tbl.pxn \/ Bit(d.hi, 27) = 1,
                      sec  |-> tbl.sec /\ Bit(d.hi, 31) = 0],   \* NSTable: once set, the rest of the lookup is Non-secure
                     unp \/ pt.unp)
     ELSE \* block (levels 1, 2) or page (level 3)
       LET ap2 == IF tbl.rw THEN Bit(d.lo, 7) ELSE 1
           ap1 == IF tbl.user THEN Bit(d.lo, 6) ELSE 0
       IN IF Bit(d.lo, 10) = 0 THEN [f |-> "ACCESS_FLAG", level |-> level, unp |-> unp \/ pt.unp]
          ELSE [f |-> "ok", level |-> level,
                \* Hyp regime: AP<1> must be 1, APTable<0> 0, PXN 0, nG 0 (else UNPREDICTABLE)
                unp |-> unp \/ pt.unp \/ (Mode(s) = HYP /\ (ap1 # 1 \/ Bit(d.hi, 21) # 0 \/ Bit(d.lo, 11) # 0)),
                ap |-> ap2 * 4 + ap1 * 2 + 1,
                pa |-> WOr(WAnd(d.lo, TopMask(32 - lsb)), WAnd(ia, MaskW(lsb - 1, 0))), ext |-> Slice(d.hi, 7, 0),
                mt |-> MAIRType(s, Slice(d.lo, 4, 2)),
                at |-> MAIRAttrs(s, Slice(d.lo, 4, 2), Slice(d.lo, 9, 8)),
                nsb |-> IF tbl.sec THEN Bit(d.lo, 5) ELSE 1]

\* the Hyp-mode regime (PL2) has one table base (HTTBR, HTCR.T0SZ), no EPD bits, and is never Secure
WalkLD(s, ia) ==
  LET hyp == Mode(s) = HYP
      t0 == IF hyp THEN Slice(s.sys.HTCR, 2, 0) ELSE TTBCR_T0SZ(s)  t1 == TTBCR_T1SZ(s)
      use0 == t0 = 0 \/ IsZeroW(LSRw(ia, 32 - t0))
      use1 == (~hyp) /\ ((t1 = 0 /\ ~use0) \/ (t1 > 0 /\ LSRw(ia, 32 - t1) = <<0, 2^t1 - 1>>))
      tsz  == IF use1 THEN t1 ELSE t0
      ttlo == IF hyp THEN s.sys.HTTBR ELSE IF use1 THEN s.sys.TTBR1 ELSE s.sys.TTBR0
      tthi == IF hyp THEN s.sys.HTTBRH ELSE IF use1 THEN s.sys.TTBR1H ELSE s.sys.TTBR0H
      dis  == (~hyp) /\ (IF use1 THEN TTBCR_EPD1(s) = 1 ELSE TTBCR_EPD0(s) = 1)
      level == IF tsz \div 2 = 0 THEN 1 ELSE 2
      lb   == 9 * level - tsz - 4
      base == <<WAnd(ttlo, TopMask(32 - lb)), Slice(tthi, 7, 0)>>
      unp  == lb > 3 /\ Slice(ttlo, lb - 1, 3) # 0
  IN IF (~use0 /\ ~use1) \/ dis THEN [f |-> "TRANSLATION", level |-> 1, unp |-> FALSE]
     ELSE WalkLDFrom(s, ia, level, TRUE, 31 - tsz, base, [rw |-> TRUE, user |-> TRUE, xn |-> FALSE, pxn |-> FALSE, sec |-> (~hyp) /\ IsSecure(s)], unp)

\* CheckPermission for VMSA: AP<0> forced to 1 under AFE; AP = 100 reserved; 111 = read-only
PermAbortV(ap0, afe, priv, iswrite) ==
  LET ap == IF afe = 1 THEN (ap0 \div 2) * 2 + 1 ELSE ap0 IN
  CASE ap = 0 -> TRUE
    [] ap = 1 -> ~priv
    [] ap = 2 -> (~priv) /\ iswrite
    [] ap = 3 -> FALSE
    [] ap = 4 -> FALSE
    [] ap = 5 -> (~priv) \/ iswrite
    [] ap = 6 -> iswrite
    [] ap = 7 -> iswrite

\* stage 1 -> [x, pa, ext]   (ext = PA<39:32>)
TranslateS1(x, va, priv, iswrite, size, wasaligned) ==
  LET s     == x.s
      mva   == FCSETranslate(s, va)
      ishyp == Mode(s) = HYP
      on    == (ishyp /\ HSCTLR_M(s) = 1) \/ ((~ishyp) /\ SCTLR_M(s) = 1)
  IN IF ~on THEN
       \* stage 1 off: flat map, Strongly-ordered unless HCR.DC applies (HCR.DC = 1 with HCR.VM = 0 is UNPREDICTABLE)
       LET so == (~s.cfg.virt) \/ HCR_DC(s) = 0 \/ IsSecure(s) \/ ishyp
       IN IF (~so) /\ HCR_VM(s) = 0 THEN [x |-> UnpredIf(x, TRUE), pa |-> mva, ext |-> 0]
          ELSE IF (~wasaligned) /\ so
          THEN IF ishyp THEN [x |-> NotImpl(x, "unmodelled:hyp-abort"), pa |-> mva, ext |-> 0]
               ELSE [x |-> DataAbortSD(UnpredIf(x, ~s.cfg.virt), mva, iswrite, "ALIGNMENT", 1, 0), pa |-> mva, ext |-> 0]
          ELSE [x |-> x, pa |-> mva, ext |-> 0]
     ELSE IF (~ishyp) /\ TTBCR_EAE(s) = 1 /\ ~s.cfg.lpae THEN [x |-> NotImpl(x, "unmodelled:long-descriptor"), pa |-> mva, ext |-> 0]
     ELSE IF ishyp \/ TTBCR_EAE(s) = 1 THEN
       LET w  == WalkLD(s, mva)
           x0 == UnpredIf(x, w.unp)
           LDFault(xx) == NotImpl(xx, "tlb_lookup_came_from_cache_maintenance")     \* every long-descriptor-format fault
       IN IF w.f # "ok" THEN [x |-> LDFault(x0), pa |-> mva, ext |-> 0]
          ELSE IF (~wasaligned) /\ w.mt \in {"SO", "DEV", "IMPDEF"}
               THEN [x |-> LDFault(UnpredIf(x0, (~s.cfg.virt) \/ w.mt = "IMPDEF")), pa |-> w.pa, ext |-> w.ext]
          ELSE IF PermAbortV(w.ap, 1, priv, iswrite) THEN [x |-> LDFault(x0), pa |-> w.pa, ext |-> w.ext]
          ELSE [x |-> x0, pa |-> w.pa, ext |-> w.ext]
     ELSE
       LET w == WalkSD(s, mva) IN
       IF w.f = "HWAF" THEN [x |-> NotImpl(x, "set_bits"), pa |-> mva, ext |-> 0]
       ELSE IF w.f = "S2WALK" THEN [x |-> NotImpl(UnpredIf(x, w.s2unp), "stage2-fault-on-table-walk"), pa |-> mva, ext |-> 0]
       ELSE IF w.f # "ok" THEN [x |-> DataAbortSD(x, mva, iswrite, w.f, w.level, w.domain), pa |-> mva, ext |-> 0]
       ELSE IF SCTLR_TRE(s) = 0 THEN [x |-> NotImpl(x, "remap_regs_have_reset_values"), pa |-> w.pa, ext |-> w.ext]
       ELSE
         LET mt  == RemapType(s, w.texcb)
             x1  == UnpredIf(x, mt \in {"UNK", "IMPDEF"})
             dac == Slice(s.sys.DACR, 2 * w.domain + 1, 2 * w.domain)
         IN IF (~wasaligned) /\ mt \in {"SO", "DEV"}
            THEN [x |-> DataAbortSD(UnpredIf(x1, ~s.cfg.virt), mva, iswrite, "ALIGNMENT", 1, 0), pa |-> w.pa, ext |-> w.ext]
            ELSE IF dac = 0 THEN [x |-> DataAbortSD(x1, mva, iswrite, "DOMAIN", w.level, w.domain), pa |-> w.pa, ext |-> w.ext]
            ELSE IF dac = 3 THEN [x |-> x1, pa |-> w.pa, ext |-> w.ext]
            ELSE LET x2 == UnpredIf(x1, dac = 2 \/ (w.ap = 4 /\ SCTLR_AFE(s) = 0)) IN
                 IF dac = 1 /\ PermAbortV(w.ap, SCTLR_AFE(s), priv, iswrite)
                 THEN [x |-> DataAbortSD(x2, mva, iswrite, "PERMISSION", w.level, w.domain), pa |-> w.pa, ext |-> w.ext]
                 ELSE [x |-> x2, pa |-> w.pa, ext |-> w.ext]
\* both stages -> [x, pa, ext]
TranslateV(x, va, priv, iswrite, size, wasaligned) ==
  LET r1 == TranslateS1(UnpredIf(x, x.s.cfg.virt /\ (~IsSecure(x.s)) /\ Mode(x.s) # HYP /\ HCR_TGE(x.s) = 1 /\ SCTLR_M(x.s) = 1),
                        va, priv, iswrite, size, wasaligned)
      s  == x.s
  IN IF (~Stage2On(s)) \/ ~Ok(r1.x) THEN r1
     ELSE LET w2 == WalkS2(s, [pa |-> r1.pa, ext |-> r1.ext])
              x2 == UnpredIf(r1.x, w2.unp)
              S2Fault(xx) == NotImpl(xx, "stage2-fault")                  \* taken to Hyp mode: the emulator's unimplemented hooks
          IN IF w2.f # "ok" THEN [x |-> S2Fault(x2), pa |-> r1.pa, ext |-> r1.ext]
             ELSE IF (~wasaligned) /\ w2.mt \in {"SO", "DEV", "UNK"} THEN [x |-> S2Fault(x2), pa |-> w2.pa, ext |-> w2.ext]
             ELSE IF (iswrite /\ w2.hap \div 2 = 0) \/ ((~iswrite) /\ w2.hap % 2 = 0) THEN [x |-> S2Fault(x2), pa |-> w2.pa, ext |-> w2.ext]
             ELSE [x |-> x2, pa |-> w2.pa, ext |-> w2.ext]
\* memory attributes and paddress.NS of the address descriptor a SUCCESSFUL stage-1 translation returns
\* (evaluated by the Translate trace action only; ns = 2 means not claimed)
AttrsS1(s, va) ==
  LET mva   == FCSETranslate(s, va)
      ishyp == Mode(s) = HYP
      on    == (ishyp /\ HSCTLR_M(s) = 1) \/ ((~ishyp) /\ SCTLR_M(s) = 1)
      nsOut(b) == IF IsSecure(s) THEN b ELSE 1
  IN IF ~on THEN
       LET so == (~s.cfg.virt) \/ HCR_DC(s) = 0 \/ IsSecure(s) \/ ishyp
       IN [at |-> IF so THEN AttrSO ELSE MkAttr("NORMAL", 3, 3, 3, 3, 0, 0, {}), ns |-> nsOut(0)]
     ELSE IF ishyp \/ TTBCR_EAE(s) = 1 THEN
       LET w == WalkLD(s, mva) IN
       IF w.f = "ok" THEN [at |-> w.at, ns |-> nsOut(w.nsb)] ELSE [at |-> AttrUnknown, ns |-> 2]
     ELSE
       LET w == WalkSD(s, mva) IN
       IF w.f = "ok" THEN [at |-> RemapAttrs(s, w.texcb, w.sb), ns |-> nsOut(w.nsb)] ELSE [at |-> AttrUnknown, ns |-> 2]
\* ... and of a successful two-stage translation: CombineS1S2Desc, the output address is Non-secure
AttrsV(s, va) ==
  LET a1 == AttrsS1(s, va) IN
  IF ~Stage2On(s) THEN a1
  ELSE LET r1 == TranslateS1(X0(s), va, TRUE, FALSE, 1, TRUE)
           w2 == WalkS2(s, [pa |-> r1.pa, ext |-> r1.ext])
       IN IF w2.f = "ok" THEN [at |-> CombineAttrs(a1.at, w2.at), ns |-> 1] ELSE [at |-> AttrUnknown, ns |-> 2]
=============================================================================
