--------------------------------- MODULE Hub ---------------------------------
(***************************************************************************)
(* The memory hub (README "Memory controller" concept): an ordered list of *)
(* devices, each covering [b, b+n) of the physical address space; the      *)
(* FIRST matching device serves an access; unmapped addresses read as zero *)
(* and ignore writes.  Accesses are little-endian byte sequences.          *)
(*   mem = [devs |-> << [b |-> word, n |-> Nat] ... >>,                    *)
(*          base |-> << <<bytes of device 1>>, ... >>,   (dense contents)  *)
(*          w    |-> << <<dev, off, byte>> ... >>]       (write log)       *)
(* A byte of device d at offset off is the last log entry for (d, off),    *)
(* else base[d][off+1].  An access that starts inside a device and runs    *)
(* past its end must not resize the device, touch another device or fail;  *)
(* the bytes beyond the end read as UNKNOWN and the in-range bytes of such *)
(* a write may or may not be written (both reported through `dc`).         *)
(***************************************************************************)
EXTENDS Base

\* physical address pa (a word) -> device index, 0 if unmapped
InDev(d, pa) == Le(d.b, pa) /\ LET o == Sub(pa, d.b) IN IsSmall(o) /\ ToNat(o) < d.n
FindDev(mem, pa) ==
  LET S == {i \in 1..Len(mem.devs) : InDev(mem.devs[i], pa)}
  IN IF S = {} THEN 0 ELSE CHOOSE i \in S : \A j \in S : i <= j
DevOff(mem, d, pa) == ToNat(Sub(pa, mem.devs[d].b))

RECURSIVE LogLookup(_, _, _, _)
LogLookup(w, k, d, off) ==
  IF k = 0 THEN -1
  ELSE IF w[k][1] = d /\ w[k][2] = off THEN w[k][3]
  ELSE LogLookup(w, k - 1, d, off)
DevByte(mem, d, off) ==
  LET v == LogLookup(mem.w, Len(mem.w), d, off)
  IN IF v >= 0 THEN v ELSE mem.base[d][off + 1]

\* read `size` bytes at pa: <<bytes (lowest address first), crossed>>
HubRead(mem, pa, size) ==
  LET d == FindDev(mem, pa) IN
  IF d = 0 THEN [bytes |-> [i \in 1..size |-> 0], crossed |-> FALSE]
  ELSE LET off == DevOff(mem, d, pa)
           n   == mem.devs[d].n
       IN [bytes |-> [i \in 1..size |-> IF off + i - 1 < n THEN DevByte(mem, d, off + i - 1) ELSE 0],
           crossed |-> off + size > n]

\* write bytes (a sequence, lowest address first) at pa: the new mem and the set of
\* <<dev, off>> cells whose content is not specified (a write crossing the device end)
HubWrite(mem, pa, bytes) ==
  LET d == FindDev(mem, pa) IN
  IF d = 0 THEN [mem |-> mem, dc |-> {}]
  ELSE LET off == DevOff(mem, d, pa)
           n   == mem.devs[d].n
           k   == IF off + Len(bytes) > n THEN n - off ELSE Len(bytes)
       IN [mem |-> [mem EXCEPT !.w = @ \o [i \in 1..k |-> <<d, off + i - 1, bytes[i]>>]],
           dc  |-> IF off + Len(bytes) > n THEN {<<d, off + i - 1>> : i \in 1..k} ELSE {}]

\* all cells mentioned in the write log
Touched(mem) == {<<mem.w[k][1], mem.w[k][2]>> : k \in 1..Len(mem.w)}
\* fold the log into the dense contents (used by the MC instances to canonicalise states)
Normalize(mem) ==
  [mem EXCEPT !.w = <<>>,
              !.base = [d \in 1..Len(mem.base) |-> [j \in 1..Len(mem.base[d]) |-> DevByte(mem, d, j - 1)]]]

WordToBytes(v, size) == [i \in 1..size |-> Byte(v, i - 1)]
BytesToWord(bs) ==
  LET g(i) == IF i <= Len(bs) THEN bs[i] ELSE 0
  IN <<g(3) + 256 * g(4), g(1) + 256 * g(2)>>
Reverse(bs) == [i \in 1..Len(bs) |-> bs[Len(bs) + 1 - i]]
=============================================================================
