-------------------------------- MODULE Cond ---------------------------------
(***************************************************************************)
(* Conditional execution (ARM ARM A8.3 ConditionPassed) and the IT state   *)
(* machine (A2.5.2 ITSTATE, ITAdvance).  Everything here is on small       *)
(* naturals: cond in 0..15, flags as a 4-bit number NZCV (N = bit 3),      *)
(* ITSTATE as an 8-bit number.                                             *)
(***************************************************************************)
EXTENDS Naturals, Sequences

FlagN(f) == (f \div 8) % 2
FlagZ(f) == (f \div 4) % 2
FlagC(f) == (f \div 2) % 2
FlagV(f) == f % 2

\* the pseudocode: cond<3:1> selects the base predicate, cond<0> inverts unless cond = 1111
ConditionHolds(cond, f) ==
  LET hi == cond \div 2
      r  == CASE hi = 0 -> FlagZ(f) = 1
              [] hi = 1 -> FlagC(f) = 1
              [] hi = 2 -> FlagN(f) = 1
              [] hi = 3 -> FlagV(f) = 1
              [] hi = 4 -> FlagC(f) = 1 /\ FlagZ(f) = 0
              [] hi = 5 -> FlagN(f) = FlagV(f)
              [] hi = 6 -> FlagN(f) = FlagV(f) /\ FlagZ(f) = 0
              [] hi = 7 -> TRUE
  IN IF cond % 2 = 1 /\ cond # 15 THEN ~r ELSE r

\* second formulation: the 16-row table of A8.3 (mnemonic meaning)
CondRow(cond, f) ==
  LET n == FlagN(f) = 1  z == FlagZ(f) = 1  c == FlagC(f) = 1  v == FlagV(f) = 1 IN
  CASE cond = 0  -> z                 \* EQ
    [] cond = 1  -> ~z                \* NE
    [] cond = 2  -> c                 \* CS/HS
    [] cond = 3  -> ~c                \* CC/LO
    [] cond = 4  -> n                 \* MI
    [] cond = 5  -> ~n                \* PL
    [] cond = 6  -> v                 \* VS
    [] cond = 7  -> ~v                \* VC
    [] cond = 8  -> c /\ ~z           \* HI
    [] cond = 9  -> ~c \/ z           \* LS
    [] cond = 10 -> n = v             \* GE
    [] cond = 11 -> n # v             \* LT
    [] cond = 12 -> ~z /\ (n = v)     \* GT
    [] cond = 13 -> z \/ (n # v)      \* LE
    [] cond = 14 -> TRUE              \* AL
    [] cond = 15 -> TRUE              \* unconditional space

-----------------------------------------------------------------------------
(* ITSTATE *)
InITBlock(it)     == it % 16 # 0
LastInITBlock(it) == it % 16 = 8
\* condition an instruction inside the block executes under; AL outside
ITCond(it)        == IF it % 16 # 0 THEN it \div 16 ELSE 14
ITAdvance(it) ==
  IF it % 8 = 0 THEN 0
  ELSE ((it \div 32) * 32) + (((it % 32) * 2) % 32)

\* declarative description (A8.8.54 IT): block length and the condition of the k-th instruction
LowestSetBit4(m) == IF m % 2 = 1 THEN 0 ELSE IF (m \div 2) % 2 = 1 THEN 1 ELSE IF (m \div 4) % 2 = 1 THEN 2 ELSE 3
ITLen(mask)      == 4 - LowestSetBit4(mask)
\* mask<5-k> for k in 2..4 is mask bit (5-k)-1 counting mask<3> as the top bit: k=2 -> mask<3>, k=3 -> mask<2>, k=4 -> mask<1>
ITPattern(fc, mask) ==
  [k \in 1..ITLen(mask) |-> IF k = 1 THEN fc ELSE ((fc \div 2) * 2) + ((mask \div 2^(5 - k)) % 2)]
\* legal IT instructions: firstcond # 1111, and firstcond = 1110 only with exactly one instruction... (BitCount(mask) = 1)
ITLegal(fc, mask) ==
  /\ mask # 0
  /\ fc # 15
  /\ (fc = 14 => mask \in {8, 4, 2, 1})
=============================================================================
